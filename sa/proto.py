"""E-PROTO: reader for the subset of protobuf IDL used by api.proto / api_options.proto.

Hand-written tokenizer + recursive descent.  Anything outside the subset is an
AnalysisError (never silently skipped).
"""

from __future__ import annotations

import re
from dataclasses import dataclass, field

from .src import AnalysisError

TOKEN = re.compile(
    r"""
    (?P<ws>\s+)
  | (?P<lc>//[^\n]*)
  | (?P<bc>/\*.*?\*/)
  | (?P<str>"(?:[^"\\]|\\.)*"|'(?:[^'\\]|\\.)*')
  | (?P<num>-?(?:0[xX][0-9a-fA-F]+|\d+(?:\.\d+)?))
  | (?P<id>[A-Za-z_][A-Za-z_0-9\.]*)
  | (?P<sym>[{}()\[\];=,<>])
    """,
    re.X | re.S,
)


@dataclass
class PField:
    name: str
    number: int
    label: str  # "optional" (proto3 singular) | "repeated"
    type: str  # scalar name or message/enum type name
    options: dict[str, str] = field(default_factory=dict)


@dataclass
class PMessage:
    name: str
    fields: list[PField] = field(default_factory=list)
    options: dict[str, str] = field(default_factory=dict)

    def field_names(self) -> list[str]:
        return [f.name for f in self.fields]


@dataclass
class PEnum:
    name: str
    values: list[tuple[str, int]] = field(default_factory=list)


@dataclass
class PRpc:
    name: str
    request: str
    response: str
    options: dict[str, str] = field(default_factory=dict)


@dataclass
class PFile:
    syntax: str = ""
    imports: list[str] = field(default_factory=list)
    messages: dict[str, PMessage] = field(default_factory=dict)
    enums: dict[str, PEnum] = field(default_factory=dict)
    rpcs: list[PRpc] = field(default_factory=list)
    extensions: dict[str, list[PField]] = field(default_factory=dict)
    comments: list[tuple[int, str]] = field(default_factory=list)


class _P:
    def __init__(self, text: str, fname: str) -> None:
        self.fname = fname
        self.toks: list[tuple[str, str, int]] = []
        self.comments: list[tuple[int, str]] = []
        pos = 0
        line = 1
        while pos < len(text):
            m = TOKEN.match(text, pos)
            if not m:
                raise AnalysisError(f"{fname}:{line}: cannot tokenize {text[pos:pos+20]!r}")
            kind = m.lastgroup
            val = m.group()
            if kind in ("lc", "bc"):
                self.comments.append((line, val))
            elif kind != "ws":
                assert kind is not None
                self.toks.append((kind, val, line))
            line += val.count("\n")
            pos = m.end()
        self.i = 0

    def peek(self) -> tuple[str, str, int]:
        if self.i >= len(self.toks):
            return ("eof", "", -1)
        return self.toks[self.i]

    def next(self) -> tuple[str, str, int]:
        t = self.peek()
        self.i += 1
        return t

    def expect(self, val: str) -> None:
        k, v, ln = self.next()
        if v != val:
            raise AnalysisError(f"{self.fname}:{ln}: expected {val!r}, got {v!r}")

    def ident(self) -> str:
        k, v, ln = self.next()
        if k != "id":
            raise AnalysisError(f"{self.fname}:{ln}: expected identifier, got {v!r}")
        return v

    def accept(self, val: str) -> bool:
        if self.peek()[1] == val:
            self.i += 1
            return True
        return False

    def const(self) -> str:
        k, v, ln = self.next()
        if k == "str":
            return v[1:-1]
        if k in ("num", "id"):
            return v
        raise AnalysisError(f"{self.fname}:{ln}: expected constant, got {v!r}")

    def option_stmt(self) -> tuple[str, str]:
        # option (name) = const ;   |  option name = const ;
        if self.accept("("):
            name = self.ident()
            self.expect(")")
        else:
            name = self.ident()
        self.expect("=")
        val = self.const()
        self.expect(";")
        return name, val

    def field_options(self) -> dict[str, str]:
        opts: dict[str, str] = {}
        if self.accept("["):
            while True:
                if self.accept("("):
                    n = self.ident()
                    self.expect(")")
                else:
                    n = self.ident()
                self.expect("=")
                opts[n] = self.const()
                if self.accept("]"):
                    break
                self.expect(",")
        return opts

    def parse(self) -> PFile:
        f = PFile(comments=self.comments)
        while self.peek()[0] != "eof":
            k, v, ln = self.next()
            if v == "syntax":
                self.expect("=")
                f.syntax = self.const()
                self.expect(";")
            elif v == "import":
                f.imports.append(self.const())
                self.expect(";")
            elif v == "option":
                self.i -= 1
                self.next()
                self.option_stmt()
            elif v == "service":
                self.ident()
                self.expect("{")
                while not self.accept("}"):
                    self.expect("rpc")
                    name = self.ident()
                    self.expect("(")
                    req = self.ident()
                    self.expect(")")
                    self.expect("returns")
                    self.expect("(")
                    resp = self.ident()
                    self.expect(")")
                    rpc = PRpc(name, req, resp)
                    if self.accept("{"):
                        while not self.accept("}"):
                            self.expect("option")
                            n, val = self.option_stmt()
                            rpc.options[n] = val
                    else:
                        self.expect(";")
                    f.rpcs.append(rpc)
            elif v == "message":
                m = self.message()
                if m.name in f.messages:
                    raise AnalysisError(f"{self.fname}:{ln}: duplicate message {m.name}")
                f.messages[m.name] = m
            elif v == "enum":
                e = self.enum()
                f.enums[e.name] = e
            elif v == "extend":
                target = self.ident()
                self.expect("{")
                lst = f.extensions.setdefault(target, [])
                while not self.accept("}"):
                    lst.append(self.field())
            else:
                raise AnalysisError(f"{self.fname}:{ln}: unsupported top-level construct {v!r}")
        return f

    def enum(self) -> PEnum:
        e = PEnum(self.ident())
        self.expect("{")
        while not self.accept("}"):
            if self.peek()[1] == "option":
                self.next()
                self.option_stmt()
                continue
            name = self.ident()
            self.expect("=")
            k, v, ln = self.next()
            if k != "num":
                raise AnalysisError(f"{self.fname}:{ln}: enum value must be a number")
            self.field_options()
            self.expect(";")
            e.values.append((name, int(v, 0)))
        return e

    def field(self) -> PField:
        label = "optional"
        k, v, ln = self.peek()
        if v in ("repeated", "optional", "required"):
            self.next()
            label = v
        typ = self.ident()
        if typ in ("map", "oneof", "group", "message", "enum", "reserved", "extensions"):
            raise AnalysisError(f"{self.fname}:{ln}: unsupported field construct {typ!r}")
        name = self.ident()
        self.expect("=")
        k, num, ln = self.next()
        if k != "num":
            raise AnalysisError(f"{self.fname}:{ln}: field number expected")
        opts = self.field_options()
        self.expect(";")
        return PField(name, int(num, 0), label, typ, opts)

    def message(self) -> PMessage:
        m = PMessage(self.ident())
        self.expect("{")
        while not self.accept("}"):
            k, v, ln = self.peek()
            if v == "option":
                self.next()
                n, val = self.option_stmt()
                m.options[n] = val
            elif v in ("message", "enum", "oneof", "map", "reserved", "extensions"):
                raise AnalysisError(f"{self.fname}:{ln}: nested {v!r} is outside the supported subset")
            else:
                m.fields.append(self.field())
        return m


def parse_proto(text: str, fname: str) -> PFile:
    return _P(text, fname).parse()
