"""E-GUARD: guards as truth tables.

A rule classifies condition atoms of a function into named boolean variables
(with polarity); every other condition is explored both ways.  For each
assignment of the variables the CFG is walked following only the matching
edges, which yields (a) whether a site MAY be reached and (b) whether it MUST be
passed before the function's normal exit.  Any logically equivalent rewrite of
the guards (nested ifs vs. and/or, early returns, negations) gives the same
table.
"""

from __future__ import annotations

import ast
import itertools
from typing import Callable, Iterable

from .cfg import CFG, Node
from .src import own_nodes

Classify = Callable[[Node], "tuple[str, bool] | None"]  # (variable, polarity): atom true <=> var == polarity


def walk(cfg: CFG, assignment: dict[str, bool], classify: Classify, start: Node | None = None, blocked: set[Node] | None = None, follow_exc: bool = False) -> set[Node]:
    start = start or cfg.entry
    seen = {start}
    todo = [start]
    blocked = blocked or set()
    while todo:
        n = todo.pop()
        if n in blocked and n is not start:
            continue
        cl = classify(n) if n.kind == "cond" else None
        known: bool | None = None
        if cl is not None and cl[0] in assignment:
            known = assignment[cl[0]] == cl[1]
        elif cl is None and n.kind == "cond" and isinstance(n.ast, ast.Name):
            known = _eval_local(cfg, n.ast.id, assignment, classify)
        for label, s in n.succ:
            if label == "exc" and not follow_exc:
                continue
            if known is not None and label in ("true", "false"):
                if (label == "true") != known:
                    continue
            if s not in seen:
                seen.add(s)
                todo.append(s)
    return seen


def _eval_local(cfg: CFG, name: str, assignment: dict[str, bool], classify: Classify) -> "bool | None":
    """A test on a local that is assigned exactly once, from a boolean expression over
    classifiable atoms (a hoisted condition): evaluate that expression."""
    fn = cfg.func.node
    assigns = [n for n in own_nodes(fn) if isinstance(n, ast.Assign) and any(isinstance(t, ast.Name) and t.id == name for t in n.targets)]
    others = [n for n in own_nodes(fn) if isinstance(n, (ast.AugAssign, ast.NamedExpr, ast.For)) and name in {x.id for x in ast.walk(getattr(n, "target", n)) if isinstance(x, ast.Name)}]
    if len(assigns) != 1 or others or name in cfg.func.param_names():
        return None
    return _eval_bool(assigns[0].value, assignment, classify)


def _eval_bool(e: ast.expr, assignment: dict[str, bool], classify: Classify) -> "bool | None":
    if isinstance(e, ast.BoolOp):
        vals = [_eval_bool(v, assignment, classify) for v in e.values]
        if isinstance(e.op, ast.And):
            if any(v is False for v in vals):
                return False
            return True if all(v is True for v in vals) else None
        if any(v is True for v in vals):
            return True
        return False if all(v is False for v in vals) else None
    if isinstance(e, ast.UnaryOp) and isinstance(e.op, ast.Not):
        v = _eval_bool(e.operand, assignment, classify)
        return None if v is None else not v
    fake = Node(-1, "cond", e)
    cl = classify(fake)
    if cl is not None and cl[0] in assignment:
        return assignment[cl[0]] == cl[1]
    return None


def truth_table(cfg: CFG, variables: list[str], classify: Classify, targets: Iterable[Node], start: Node | None = None) -> dict[tuple[bool, ...], tuple[bool, bool]]:
    """assignment -> (may reach a target, must pass a target before the normal exit)."""
    tset = set(targets)
    out = {}
    for vals in itertools.product([False, True], repeat=len(variables)):
        asg = dict(zip(variables, vals))
        reach = walk(cfg, asg, classify, start)
        may = bool(reach & tset)
        avoid = walk(cfg, asg, classify, start, blocked=tset)
        must = may and cfg.exit not in avoid
        out[vals] = (may, must)
    return out


def fmt_table(variables: list[str], table: dict[tuple[bool, ...], tuple[bool, bool]]) -> str:
    rows = []
    for vals, (may, must) in sorted(table.items()):
        rows.append(",".join(f"{v}={'T' if b else 'F'}" for v, b in zip(variables, vals)) + f"->{'must' if must else 'may' if may else 'no'}")
    return " ".join(rows)


def _strip_bool(e: ast.expr) -> ast.expr:
    while isinstance(e, ast.Call) and isinstance(e.func, ast.Name) and e.func.id == "bool" and len(e.args) == 1:
        e = e.args[0]
    return e


def eval_bool_expr(e: ast.expr, assignment: dict[str, bool], classify: Classify) -> "bool | None":
    """Boolean value of an expression under an assignment of classified atoms (bool() wrappers stripped)."""
    e = _strip_bool(e)
    if isinstance(e, ast.BoolOp):
        vals = [eval_bool_expr(v, assignment, classify) for v in e.values]
        if isinstance(e.op, ast.And):
            if any(v is False for v in vals):
                return False
            return True if all(v is True for v in vals) else None
        if any(v is True for v in vals):
            return True
        return False if all(v is False for v in vals) else None
    if isinstance(e, ast.UnaryOp) and isinstance(e.op, ast.Not):
        v = eval_bool_expr(e.operand, assignment, classify)
        return None if v is None else not v
    if isinstance(e, ast.Constant) and isinstance(e.value, bool):
        return e.value
    return _eval_bool(e, assignment, classify)


def return_table(cfg: CFG, variables: list[str], classify: Classify) -> dict[tuple[bool, ...], "bool | None | str"]:
    """assignment -> the boolean the function returns (None = not determined by the atoms,
    'mixed' = different values on different paths)."""
    out: dict[tuple[bool, ...], bool | None | str] = {}
    for vals in itertools.product([False, True], repeat=len(variables)):
        asg = dict(zip(variables, vals))
        reach = walk(cfg, asg, classify)
        results = set()
        for n in reach:
            if isinstance(n.ast, ast.Return):
                results.add(eval_bool_expr(n.ast.value, asg, classify) if n.ast.value is not None else False)
        if cfg.exit in reach and not results:
            results.add(False)
        out[vals] = results.pop() if len(results) == 1 else ("mixed" if results else None)
    return out


def lambda_table(lam: ast.Lambda, variables: list[str], classify: Classify) -> dict[tuple[bool, ...], "bool | None"]:
    out = {}
    for vals in itertools.product([False, True], repeat=len(variables)):
        out[vals] = eval_bool_expr(lam.body, dict(zip(variables, vals)), classify)
    return out
