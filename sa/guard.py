"""E-GUARD: guards as truth tables.

A rule classifies condition atoms of a function into named boolean variables
(with polarity); every other condition is explored both ways.  For each
assignment of the variables the CFG is walked following only the matching
edges, which yields (a) whether a site MAY be reached and (b) whether it MUST be
passed before the function's normal exit.  Any logically equivalent rewrite of
the guards (nested ifs vs. and/or, early returns, negations) gives the same
table.
"""

from __future__ import annotations

import itertools
from typing import Callable, Iterable

from .cfg import CFG, Node

Classify = Callable[[Node], "tuple[str, bool] | None"]  # (variable, polarity): atom true <=> var == polarity


def walk(cfg: CFG, assignment: dict[str, bool], classify: Classify, start: Node | None = None, blocked: set[Node] | None = None, follow_exc: bool = False) -> set[Node]:
    start = start or cfg.entry
    seen = {start}
    todo = [start]
    blocked = blocked or set()
    while todo:
        n = todo.pop()
        if n in blocked and n is not start:
            continue
        cl = classify(n) if n.kind == "cond" else None
        for label, s in n.succ:
            if label == "exc" and not follow_exc:
                continue
            if cl is not None and label in ("true", "false") and cl[0] in assignment:
                atom_true = assignment[cl[0]] == cl[1]
                if (label == "true") != atom_true:
                    continue
            if s not in seen:
                seen.add(s)
                todo.append(s)
    return seen


def truth_table(cfg: CFG, variables: list[str], classify: Classify, targets: Iterable[Node], start: Node | None = None) -> dict[tuple[bool, ...], tuple[bool, bool]]:
    """assignment -> (may reach a target, must pass a target before the normal exit)."""
    tset = set(targets)
    out = {}
    for vals in itertools.product([False, True], repeat=len(variables)):
        asg = dict(zip(variables, vals))
        reach = walk(cfg, asg, classify, start)
        may = bool(reach & tset)
        avoid = walk(cfg, asg, classify, start, blocked=tset)
        must = may and cfg.exit not in avoid
        out[vals] = (may, must)
    return out


def fmt_table(variables: list[str], table: dict[tuple[bool, ...], tuple[bool, bool]]) -> str:
    rows = []
    for vals, (may, must) in sorted(table.items()):
        rows.append(",".join(f"{v}={'T' if b else 'F'}" for v, b in zip(variables, vals)) + f"->{'must' if must else 'may' if may else 'no'}")
    return " ".join(rows)
