"""E-GUARD: guards as truth tables.

A rule classifies condition atoms of a function into named boolean variables
(with polarity); every other condition is explored both ways.  For each
assignment of the variables the CFG is walked following only the matching
edges, which yields (a) whether a site MAY be reached and (b) whether it MUST be
passed before the function's normal exit.  Any logically equivalent rewrite of
the guards (nested ifs vs. and/or, early returns, negations) gives the same
table.
"""

from __future__ import annotations

import ast
import itertools
from typing import Callable, Iterable

from .cfg import CFG, Node
from .src import own_nodes

Classify = Callable[[Node], "tuple[str, bool] | None"]  # (variable, polarity): atom true <=> var == polarity


def _tracked_locals(cfg: CFG) -> dict[str, set[str]]:
    """Locals whose every assignment is a constant True/False/None or an object-creating call: their truthiness /
    None-ness is tracked along the walk (flags and 'selected value' locals introduced by helpers and refactorings).
    name -> set of abstract values it can take ('T', 'F', 'N' for None, 'O' for a non-None object)."""
    fn = cfg.func.node
    vals: dict[str, set[str]] = {}
    bad: set[str] = set(cfg.func.param_names())
    for n in own_nodes(fn):
        tgts: list[ast.expr] = []
        v = None
        if isinstance(n, ast.Assign):
            tgts, v = n.targets, n.value
        elif isinstance(n, ast.AnnAssign) and n.value is not None:
            tgts, v = [n.target], n.value
        elif isinstance(n, (ast.AugAssign, ast.NamedExpr)):
            if isinstance(n.target, ast.Name):
                bad.add(n.target.id)
            continue
        elif isinstance(n, (ast.For, ast.AsyncFor, ast.With, ast.AsyncWith, ast.ExceptHandler)):
            for x in ast.walk(getattr(n, "target", None) or ast.Pass()):
                if isinstance(x, ast.Name):
                    bad.add(x.id)
            for it in getattr(n, "items", []) or []:
                if it.optional_vars is not None:
                    for x in ast.walk(it.optional_vars):
                        if isinstance(x, ast.Name):
                            bad.add(x.id)
            if isinstance(n, ast.ExceptHandler) and n.name:
                bad.add(n.name)
            continue
        for t in tgts:
            if isinstance(t, ast.Name):
                a = _abstract(v)
                if a is None:
                    bad.add(t.id)
                else:
                    vals.setdefault(t.id, set()).add(a)
            elif isinstance(t, (ast.Tuple, ast.List)):
                for x in ast.walk(t):
                    if isinstance(x, ast.Name):
                        bad.add(x.id)
    return {k: v for k, v in vals.items() if k not in bad}


def _abstract(v: ast.expr | None) -> "str | None":
    if isinstance(v, ast.Constant):
        if v.value is True:
            return "T"
        if v.value is False:
            return "F"
        if v.value is None:
            return "N"
        return None
    if isinstance(v, ast.Call) and isinstance(v.func, (ast.Name, ast.Attribute)):
        nm = v.func.id if isinstance(v.func, ast.Name) else v.func.attr
        if nm[:1].isupper():  # a constructor: never None, truthy
            return "O"
    return None


def _local_test(t: ast.AST, env: dict[str, str]) -> "bool | None":
    """Value of a test on a tracked local under the abstract environment."""
    if isinstance(t, ast.Name) and t.id in env:
        return env[t.id] in ("T", "O")
    if isinstance(t, ast.Compare) and len(t.ops) == 1 and isinstance(t.left, ast.Name) and t.left.id in env and isinstance(t.comparators[0], ast.Constant) and t.comparators[0].value is None:
        isnone = env[t.left.id] == "N"
        if isinstance(t.ops[0], (ast.Is, ast.Eq)):
            return isnone
        if isinstance(t.ops[0], (ast.IsNot, ast.NotEq)):
            return not isnone
    return None


def walk(cfg: CFG, assignment: dict[str, bool], classify: Classify, start: Node | None = None, blocked: set[Node] | None = None, follow_exc: bool = False) -> set[Node]:
    start = start or cfg.entry
    blocked = blocked or set()
    tracked = _tracked_locals(cfg)
    if not tracked:
        return _walk_plain(cfg, assignment, classify, start, blocked, follow_exc)
    # path-sensitive in the tracked locals: state = (node, frozenset of (local, abstract value))
    init = (start, frozenset())
    seen = {init}
    todo = [init]
    out = {start}
    while todo:
        n, envf = todo.pop()
        if n in blocked and n is not start:
            continue
        env = dict(envf)
        a = n.ast
        if n.kind == "stmt" and isinstance(a, (ast.Assign, ast.AnnAssign)):
            tg = a.targets if isinstance(a, ast.Assign) else [a.target]
            for t in tg:
                if isinstance(t, ast.Name) and t.id in tracked:
                    av = _abstract(a.value)
                    if av is not None:
                        env[t.id] = av
                    else:
                        env.pop(t.id, None)
        cl = classify(n) if n.kind == "cond" else None
        known: bool | None = None
        if cl is not None and cl[0] in assignment:
            known = assignment[cl[0]] == cl[1]
        elif cl is None and n.kind == "cond":
            known = _local_test(a, env)
            if known is None and isinstance(a, ast.Name):
                known = _eval_local(cfg, a.id, assignment, classify)
        envf2 = frozenset(env.items())
        for label, s in n.succ:
            if label == "exc" and not follow_exc:
                continue
            if known is not None and label in ("true", "false"):
                if (label == "true") != known:
                    continue
            st = (s, envf2 if label != "exc" else envf)
            if st not in seen:
                if len(seen) > 20000:
                    return _walk_plain(cfg, assignment, classify, start, blocked, follow_exc) | out
                seen.add(st)
                out.add(s)
                todo.append(st)
    return out


def _walk_plain(cfg: CFG, assignment: dict[str, bool], classify: Classify, start: Node, blocked: set[Node], follow_exc: bool) -> set[Node]:
    seen = {start}
    todo = [start]
    while todo:
        n = todo.pop()
        if n in blocked and n is not start:
            continue
        cl = classify(n) if n.kind == "cond" else None
        known: bool | None = None
        if cl is not None and cl[0] in assignment:
            known = assignment[cl[0]] == cl[1]
        elif cl is None and n.kind == "cond" and isinstance(n.ast, ast.Name):
            known = _eval_local(cfg, n.ast.id, assignment, classify)
        for label, s in n.succ:
            if label == "exc" and not follow_exc:
                continue
            if known is not None and label in ("true", "false"):
                if (label == "true") != known:
                    continue
            if s not in seen:
                seen.add(s)
                todo.append(s)
    return seen


def _eval_local(cfg: CFG, name: str, assignment: dict[str, bool], classify: Classify) -> "bool | None":
    """A test on a local that is assigned exactly once, from a boolean expression over
    classifiable atoms (a hoisted condition): evaluate that expression."""
    fn = cfg.func.node
    assigns = [n for n in own_nodes(fn) if isinstance(n, ast.Assign) and any(isinstance(t, ast.Name) and t.id == name for t in n.targets)]
    others = [n for n in own_nodes(fn) if isinstance(n, (ast.AugAssign, ast.NamedExpr, ast.For)) and name in {x.id for x in ast.walk(getattr(n, "target", n)) if isinstance(x, ast.Name)}]
    if len(assigns) != 1 or others or name in cfg.func.param_names():
        return None
    return _eval_bool(assigns[0].value, assignment, classify)


def _eval_bool(e: ast.expr, assignment: dict[str, bool], classify: Classify) -> "bool | None":
    if isinstance(e, ast.BoolOp):
        vals = [_eval_bool(v, assignment, classify) for v in e.values]
        if isinstance(e.op, ast.And):
            if any(v is False for v in vals):
                return False
            return True if all(v is True for v in vals) else None
        if any(v is True for v in vals):
            return True
        return False if all(v is False for v in vals) else None
    if isinstance(e, ast.UnaryOp) and isinstance(e.op, ast.Not):
        v = _eval_bool(e.operand, assignment, classify)
        return None if v is None else not v
    fake = Node(-1, "cond", e)
    cl = classify(fake)
    if cl is not None and cl[0] in assignment:
        return assignment[cl[0]] == cl[1]
    return None


def truth_table(cfg: CFG, variables: list[str], classify: Classify, targets: Iterable[Node], start: Node | None = None) -> dict[tuple[bool, ...], tuple[bool, bool]]:
    """assignment -> (may reach a target, must pass a target before the normal exit)."""
    tset = set(targets)
    out = {}
    for vals in itertools.product([False, True], repeat=len(variables)):
        asg = dict(zip(variables, vals))
        reach = walk(cfg, asg, classify, start)
        may = bool(reach & tset)
        avoid = walk(cfg, asg, classify, start, blocked=tset)
        must = may and cfg.exit not in avoid
        out[vals] = (may, must)
    return out


def fmt_table(variables: list[str], table: dict[tuple[bool, ...], tuple[bool, bool]]) -> str:
    rows = []
    for vals, (may, must) in sorted(table.items()):
        rows.append(",".join(f"{v}={'T' if b else 'F'}" for v, b in zip(variables, vals)) + f"->{'must' if must else 'may' if may else 'no'}")
    return " ".join(rows)


def _strip_bool(e: ast.expr) -> ast.expr:
    while isinstance(e, ast.Call) and isinstance(e.func, ast.Name) and e.func.id == "bool" and len(e.args) == 1:
        e = e.args[0]
    return e


def eval_bool_expr(e: ast.expr, assignment: dict[str, bool], classify: Classify) -> "bool | None":
    """Boolean value of an expression under an assignment of classified atoms (bool() wrappers stripped)."""
    e = _strip_bool(e)
    if isinstance(e, ast.BoolOp):
        vals = [eval_bool_expr(v, assignment, classify) for v in e.values]
        if isinstance(e.op, ast.And):
            if any(v is False for v in vals):
                return False
            return True if all(v is True for v in vals) else None
        if any(v is True for v in vals):
            return True
        return False if all(v is False for v in vals) else None
    if isinstance(e, ast.UnaryOp) and isinstance(e.op, ast.Not):
        v = eval_bool_expr(e.operand, assignment, classify)
        return None if v is None else not v
    if isinstance(e, ast.Constant) and isinstance(e.value, bool):
        return e.value
    return _eval_bool(e, assignment, classify)


def return_table(cfg: CFG, variables: list[str], classify: Classify) -> dict[tuple[bool, ...], "bool | None | str"]:
    """assignment -> the boolean the function returns (None = not determined by the atoms,
    'mixed' = different values on different paths)."""
    out: dict[tuple[bool, ...], bool | None | str] = {}
    for vals in itertools.product([False, True], repeat=len(variables)):
        asg = dict(zip(variables, vals))
        reach = walk(cfg, asg, classify)
        results = set()
        for n in reach:
            if isinstance(n.ast, ast.Return):
                results.add(eval_bool_expr(n.ast.value, asg, classify) if n.ast.value is not None else False)
        if cfg.exit in reach and not results:
            results.add(False)
        out[vals] = results.pop() if len(results) == 1 else ("mixed" if results else None)
    return out


def lambda_table(lam: ast.Lambda, variables: list[str], classify: Classify) -> dict[tuple[bool, ...], "bool | None"]:
    out = {}
    for vals in itertools.product([False, True], repeat=len(variables)):
        out[vals] = eval_bool_expr(lam.body, dict(zip(variables, vals)), classify)
    return out
