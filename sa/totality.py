"""E-TOTAL: can evaluating these statements raise for a reason of their own?

Used for the short stretches of code that must not be cut short (the steps in front of the closer, the error
mapping of the frame helpers, what the client does between closing a connection and forgetting it, the library's
own message callbacks).  It is a syntactic may-raise analysis over expressions, deliberately small:

* a subscript load with a non-constant index on something that is not a literal (IndexError / KeyError),
* an attribute load through an attribute that ``__init__`` (or the class body) declares ``T | None`` / ``Optional``
  when no test of that attribute guards the use (AttributeError on None),
* a load of a package ``@property`` or a call of a package function / method whose own body contains one of
  these (followed to a small depth through the resolved callees),
* a load of a slot that ``__init__`` never assigns (AttributeError: unset slot),
* a ``.index(x)`` search (ValueError when absent).

Library calls are not judged here (C08.R8 keeps a list for the release path).  `if TYPE_CHECKING:` asserts have
been dropped by the normaliser, so they do not count as guards.
"""

from __future__ import annotations

import ast
from typing import Any, Iterable

from .src import Func, norm, own_nodes


def _optional_ann(a: ast.expr | None) -> bool:
    if a is None:
        return False
    t = norm(a)
    return "| None" in t or "None |" in t or t.startswith("Optional[") or ".Optional[" in t


def optional_attrs(ctx: Any, cls_name: str) -> set[str]:
    """Attributes of a package class declared Optional and initialised to None."""
    ci = ctx.repo.classes.get(cls_name)
    out: set[str] = set()
    if ci is None:
        return out
    todo = [ci]
    seen = set()
    while todo:
        c = todo.pop()
        if c.key in seen:
            continue
        seen.add(c.key)
        init = c.methods.get("__init__")
        if init is not None:
            for n in own_nodes(init.node):
                if isinstance(n, ast.AnnAssign) and isinstance(n.target, ast.Attribute) and norm(n.target.value) == "self" and _optional_ann(n.annotation) and isinstance(n.value, ast.Constant) and n.value.value is None:
                    out.add(n.target.attr)
        for b in c.base_names:
            bc = ctx.repo.classes.get(b.split(".")[-1])
            if bc is not None:
                todo.append(bc)
    return out


def assigned_in_init(ctx: Any, cls_name: str) -> set[str] | None:
    ci = ctx.repo.classes.get(cls_name)
    if ci is None:
        return None
    out: set[str] = set()
    todo = [ci]
    seen = set()
    while todo:
        c = todo.pop()
        if c.key in seen:
            continue
        seen.add(c.key)
        init = c.methods.get("__init__")
        if init is not None:
            for n in own_nodes(init.node):
                tg = n.targets if isinstance(n, ast.Assign) else [n.target] if isinstance(n, (ast.AnnAssign, ast.AugAssign)) else []
                for t in tg:
                    if isinstance(t, ast.Attribute) and norm(t.value) == "self" and (not isinstance(n, ast.AnnAssign) or n.value is not None):
                        out.add(t.attr)
        for n in c.node.body:
            if isinstance(n, (ast.Assign, ast.AnnAssign)):
                for t in n.targets if isinstance(n, ast.Assign) else [n.target]:
                    if isinstance(t, ast.Name) and (not isinstance(n, ast.AnnAssign) or n.value is not None):
                        out.add(t.id)
        for b in c.base_names:
            bc = ctx.repo.classes.get(b.split(".")[-1])
            if bc is not None:
                todo.append(bc)
    return out


def _guards(fn_node: ast.AST) -> dict[str, list[ast.AST]]:
    """attribute text (`self.x`) -> test expressions in the function that mention it."""
    out: dict[str, list[ast.AST]] = {}
    for n in ast.walk(fn_node):
        tests = []
        if isinstance(n, (ast.If, ast.While, ast.IfExp)):
            tests.append(n.test)
        if isinstance(n, ast.BoolOp):
            tests += n.values[:-1]
        if isinstance(n, ast.Assert):
            tests.append(n.test)
        for t in tests:
            for x in ast.walk(t):
                if isinstance(x, ast.Attribute):
                    out.setdefault(norm(x), []).append(t)
                if isinstance(x, ast.Name):
                    out.setdefault(x.id, []).append(t)
    return out


def risky(ctx: Any, res: Any, fn: Func, stmts: Iterable[ast.AST], depth: int = 0, _seen: set[str] | None = None) -> list[str]:
    """Descriptions of expressions in `stmts` (nodes of fn) whose evaluation may raise by itself."""
    seen = _seen if _seen is not None else set()
    out: list[str] = []
    cls_name = fn.cls.name if fn.cls is not None else None
    opt = optional_attrs(ctx, cls_name) if cls_name else set()
    guards = _guards(fn.node)
    # locals that alias an optional attribute: `x = self._opt`
    local_opt: dict[str, str] = {}
    for n in own_nodes(fn.node):
        if isinstance(n, ast.Assign) and len(n.targets) == 1 and isinstance(n.targets[0], ast.Name) and isinstance(n.value, ast.Attribute) and norm(n.value.value) == "self" and n.value.attr in opt:
            local_opt[n.targets[0].id] = n.value.attr
    # locals holding the result of a lookup that answers None when there is nothing (`d.get(k)`, `t.get_extra_info(k)`)
    maybe_none: set[str] = set()
    for n in own_nodes(fn.node):
        if isinstance(n, ast.Assign) and len(n.targets) == 1 and isinstance(n.targets[0], ast.Name) and isinstance(n.value, ast.Call) and isinstance(n.value.func, ast.Attribute) and n.value.func.attr in ("get", "get_extra_info") and len(n.value.args) == 1 and not n.value.keywords:
            maybe_none.add(n.targets[0].id)
    ann_nodes = {id(y) for a in ([fn.node.args] + ([fn.node.returns] if getattr(fn.node, "returns", None) is not None else [])) for y in ast.walk(a)}
    for st in stmts:
        for x in ast.walk(st) if not isinstance(st, (ast.FunctionDef, ast.AsyncFunctionDef, ast.Lambda)) else []:
            if id(x) in ann_nodes:
                continue
            if isinstance(x, ast.AnnAssign):
                ann_nodes |= {id(y) for y in ast.walk(x.annotation)}
                continue
            if isinstance(x, ast.Subscript) and isinstance(x.ctx, ast.Load) and not isinstance(x.slice, (ast.Constant, ast.Slice)) and not isinstance(x.value, (ast.Constant, ast.Tuple, ast.List, ast.Dict)):
                if not (isinstance(x.slice, ast.UnaryOp) and isinstance(x.slice.operand, ast.Constant)):
                    out.append(f"L{x.lineno} {norm(x)[:40]} (lookup may raise)")
            if isinstance(x, (ast.Subscript, ast.Attribute)) and isinstance(x.ctx, ast.Load) and isinstance(x.value, ast.Name) and x.value.id in maybe_none and not guards.get(x.value.id):
                out.append(f"L{x.lineno} {norm(x)[:40]} ({x.value.id} may be None)")
            if isinstance(x, ast.Attribute) and isinstance(x.ctx, ast.Load):
                base = x.value
                key = None
                if isinstance(base, ast.Attribute) and norm(base.value) == "self" and base.attr in opt:
                    key = norm(base)
                elif isinstance(base, ast.Name) and base.id in local_opt:
                    key = base.id
                if key is not None and not guards.get(key) and not (isinstance(base, ast.Name) and guards.get(f"self.{local_opt.get(base.id, '')}")):
                    out.append(f"L{x.lineno} {norm(x)[:40]} ({key} may be None)")
                # package property
                for pf in _properties(ctx).get(x.attr, []):
                    if pf.key in seen or depth > 2:
                        continue
                    seen.add(pf.key)
                    sub = risky(ctx, res, pf, pf.node.body, depth + 1, seen)
                    if sub:
                        out.append(f"L{x.lineno} .{x.attr} -> {pf.qualname}: {sub[0]}")
                # unset slot
                if norm(base) == "self" and cls_name:
                    ai = assigned_in_init(ctx, cls_name)
                    if ai is not None and x.attr.startswith("_") and x.attr not in ai and x.attr not in (fn.cls.methods if fn.cls else {}) and not any(x.attr == p.name for ps in _properties(ctx).values() for p in ps):
                        slots = _slots(ctx, cls_name)
                        if slots is not None and x.attr in slots:
                            out.append(f"L{x.lineno} self.{x.attr} (slot never assigned in __init__)")
            if isinstance(x, ast.Call) and isinstance(x.func, ast.Attribute) and x.func.attr == "index" and x.args:
                out.append(f"L{x.lineno} {norm(x)[:40]} (search may raise ValueError)")
            if isinstance(x, ast.Call) and depth <= 2:
                cal = res.callees(fn, x)
                if cal.kind == "pkg":
                    for g in cal.funcs:
                        if g.key in seen or g.is_async:
                            continue
                        seen.add(g.key)
                        sub = risky(ctx, res, g, g.node.body, depth + 1, seen)
                        if sub:
                            out.append(f"L{x.lineno} {norm(x.func)[-30:]}() -> {g.qualname}: {sub[0]}")
    return out


def _properties(ctx: Any) -> dict[str, list[Func]]:
    def make() -> dict[str, list[Func]]:
        out: dict[str, list[Func]] = {}
        for f in ctx.repo.all_funcs():
            if f.cls is not None and any(norm(d) == "property" for d in f.node.decorator_list):
                out.setdefault(f.name, []).append(f)
        return out

    return ctx.service("properties", make)


def _slots(ctx: Any, cls_name: str) -> set[str] | None:
    ci = ctx.repo.classes.get(cls_name)
    if ci is None:
        return None
    for n in ci.node.body:
        if isinstance(n, ast.Assign) and any(isinstance(t, ast.Name) and t.id == "__slots__" for t in n.targets) and isinstance(n.value, (ast.Tuple, ast.List)):
            return {e.value for e in n.value.elts if isinstance(e, ast.Constant) and isinstance(e.value, str)}
    return None


def maybe_unbound(ctx: Any, fn: Func) -> list[str]:
    """Loads of a local name of `fn` that some path reaches without having bound it (UnboundLocalError).

    A forward must-analysis over the statement CFG: a name is bound after an assignment, a loop head that enters the
    body, a `with ... as`, an `except ... as`, an import or a nested definition - on the normal edge only, not on
    the exception edge of the binding statement.  Nested functions and comprehensions are scopes of their own.
    """
    from .cfg import cfg_of, must_forward, walk_own

    g = cfg_of(ctx, fn)
    a = fn.node.args
    params = {p.arg for p in a.posonlyargs + a.args + a.kwonlyargs} | ({a.vararg.arg} if a.vararg else set()) | ({a.kwarg.arg} if a.kwarg else set())
    declared: set[str] = set()
    for n in own_nodes(fn.node):
        if isinstance(n, (ast.Global, ast.Nonlocal)):
            declared |= set(n.names)

    def stores(e: ast.AST | None) -> set[str]:
        out: set[str] = set()
        if e is None:
            return out
        for x in walk_own(e):
            if isinstance(x, ast.Name) and isinstance(x.ctx, ast.Store):
                out.add(x.id)
        return out

    def comp_bound(e: ast.AST) -> set[str]:
        out: set[str] = set()
        for x in ast.walk(e):
            if isinstance(x, ast.comprehension):
                out |= {y.id for y in ast.walk(x.target) if isinstance(y, ast.Name)}
        return out

    def binds(n: Any, label: str) -> set[str]:
        t = n.ast
        if t is None or label == "exc":
            return set()
        if n.kind == "for":
            return stores(t.target) if label == "true" else set()
        if n.kind == "for-init":
            return {y.id for y in ast.walk(t.iter) if isinstance(y, ast.NamedExpr) for y in [y.target]}
        if n.kind == "with-enter":
            return set().union(*[stores(i.optional_vars) for i in t.items]) if t.items else set()
        if n.kind == "handler":
            return {t.name} if isinstance(t, ast.ExceptHandler) and t.name else set()
        if n.kind == "cond":
            return {y.target.id for y in ast.walk(t) if isinstance(y, ast.NamedExpr)}
        if n.kind != "stmt":
            return set()
        if isinstance(t, (ast.FunctionDef, ast.AsyncFunctionDef, ast.ClassDef)):
            return {t.name}
        if isinstance(t, (ast.Import, ast.ImportFrom)):
            return {(al.asname or al.name).split(".")[0] for al in t.names}
        return (stores(t) | {y.target.id for y in ast.walk(t) if isinstance(y, ast.NamedExpr)}) - comp_bound(t)

    def evaluated(n: Any) -> list[ast.AST]:
        t = n.ast
        if t is None:
            return []
        if n.kind == "for-init":
            return [t.iter]
        if n.kind == "for":
            return []
        if n.kind in ("with-enter",):
            return [i.context_expr for i in t.items]
        if n.kind == "with-exit":
            return []
        if n.kind == "handler":
            return [t.type] if isinstance(t, ast.ExceptHandler) and t.type is not None else []
        if n.kind in ("cond", "stmt"):
            if isinstance(t, (ast.FunctionDef, ast.AsyncFunctionDef, ast.ClassDef)):
                return list(t.decorator_list)
            return [t]
        return []

    local_names: set[str] = set()
    for n in g.reachable():
        for lb in ("next", "true"):
            local_names |= binds(n, lb)
    local_names -= declared

    def gk(n: Any, f: frozenset, label: str) -> frozenset:
        out = f | frozenset(binds(n, label))
        if n.kind == "stmt" and isinstance(n.ast, ast.Delete) and label != "exc":
            out = out - frozenset(y.id for y in n.ast.targets if isinstance(y, ast.Name))
        return out

    IN = must_forward(g, gk, frozenset(params))
    out: list[str] = []
    for n in g.reachable():
        have = IN.get(n)
        if have is None or not isinstance(have, frozenset):
            continue
        own = binds(n, "next") | binds(n, "true")
        for e in evaluated(n):
            cb = comp_bound(e)
            for x in walk_own(e):
                if isinstance(x, ast.Name) and isinstance(x.ctx, ast.Load) and x.id in local_names and x.id not in have and x.id not in cb and not (x.id in own and not isinstance(n.ast, ast.AugAssign)):
                    d = f"L{getattr(x, 'lineno', 0)} `{x.id}` may be unbound here"
                    if d not in out:
                        out.append(d)
    return out
