"""C12 - dispatch exactly once in order; unknown types ignored; peer requests answered."""

from __future__ import annotations

import ast
from typing import Any

from ..cfg import Node, cfg_of, node_calls, walk_own
from ..closed import find_roles, resolver
from ..flow import occurred_before
from ..guard import walk
from ..report import Ctx
from ..src import AnalysisError, Func, norm, own_nodes
from ..sym import Inst, Ref, Unknown
from .c13 import eval_lookup, find_lookups

EXPLANATION = (
    "Static rules on the dispatcher. R1: the delivery loop iterates a fresh copy of the handler set and calls each element "
    "exactly once with the parsed message. R2: the dispatcher's CFG is walked for every representative wire type number "
    "(0, 1, n, n+1, 65535, 2^31 and every constant the type is compared with, +-1) with the comparisons on the type "
    "evaluated concretely and all other conditions explored both ways; wherever the registry lookup is reached its index "
    "must not be negative (Python would wrap silently) and types outside 1..n must end on the unknown-type path. R3: on the "
    "unknown-type path only logging executes before the return - no bookkeeping, no delivery. R4: any other failure of "
    "lookup/parse is caught (handler covers Exception), reported as ProtocolAPIError through the fatal path and re-raised. "
    "R5: internal handlers are registered for exactly Disconnect/Ping/GetTime requests, each sends the same-stem response; "
    "the disconnect handler marks, replies, then closes; registration precedes the hello. Payload-value behaviour of "
    "protobuf parsing is not decided."
    ' Also: a parsed message always reaches the subscriber lookup; a range-guarded lookup outside the try is judged per id.'
)
ASSUMPTIONS = ["tuple indexing semantics of Python (negative indices wrap)", "set.copy() returns an independent set", "M1-M5 of DESIGN.md section 2"]


def run(ctx: Ctx) -> None:
    roles = find_roles(ctx)
    res = resolver(ctx)
    d = roles.dispatcher
    g = cfg_of(ctx, d)
    r1(ctx, roles, d)
    r234(ctx, roles, d)
    r5(ctx, roles)


# ----------------------------------------------------------------------- R1
def r1(ctx: Ctx, roles, d: Func) -> None:
    loops = []
    for n in own_nodes(d.node):
        if isinstance(n, ast.For) and isinstance(n.target, ast.Name):
            tv = n.target.id
            calls = [x for b in n.body for x in ast.walk(b) if isinstance(x, ast.Call) and isinstance(x.func, ast.Name) and x.func.id == tv]
            if calls:
                loops.append((n, calls))
    ctx.ob("C12.R1", d, "exactly one delivery loop", len(loops) == 1, f"{len(loops)} loops call their loop variable")
    if len(loops) != 1:
        return
    lp, calls = loops[0]
    # what is iterated
    it = lp.iter
    src = it
    if isinstance(it, ast.Name):
        assigns = [n for n in own_nodes(d.node) if isinstance(n, ast.Assign) and any(isinstance(t, ast.Name) and t.id == it.id for t in n.targets)]
        named = [n for n in own_nodes(d.node) if isinstance(n, ast.NamedExpr) and n.target.id == it.id]
        if len(assigns) == 1 and not named:
            src = assigns[0].value
        elif named:
            src = None
    fresh = isinstance(src, ast.Call) and ((isinstance(src.func, ast.Attribute) and src.func.attr == "copy" and not src.args) or (isinstance(src.func, ast.Name) and src.func.id in ("set", "tuple", "list", "frozenset") and len(src.args) == 1))
    ctx.ob("C12.R1", d, f"delivery iterates a copy ({norm(lp.iter)} = {norm(src)[:50] if src is not None else 'live container'})", bool(fresh), "subscribing/unsubscribing from inside a callback would disturb (or crash) the current delivery")
    if fresh:
        live = src.func.value if isinstance(src.func, ast.Attribute) else src.args[0]  # type: ignore[union-attr]
        # the copied container is the handler set of this message's type
        live_src = live
        if isinstance(live, ast.Name):
            named = [n for n in own_nodes(d.node) if isinstance(n, ast.NamedExpr) and n.target.id == live.id]
            assigns = [n for n in own_nodes(d.node) if isinstance(n, ast.Assign) and any(isinstance(t, ast.Name) and t.id == live.id for t in n.targets)]
            cands = [x.value for x in named] + [x.value for x in assigns]
            live_src = cands[0] if len(cands) == 1 else None
        ok = live_src is not None and roles.handler_table in norm(live_src)
        ctx.ob("C12.R1", d, "the copied set is the handler set looked up for this message type", bool(ok), f"copies {norm(live_src)[:60] if live_src is not None else '?'}")
        if ok:
            key = None
            if isinstance(live_src, ast.Call) and live_src.args:
                key = live_src.args[0]
            elif isinstance(live_src, ast.Subscript):
                key = live_src.slice
            # key is type(msg) of the parsed message
            kt = norm(key) if key is not None else "?"
            kassign = [n for n in own_nodes(d.node) if isinstance(n, ast.Assign) and any(isinstance(t, ast.Name) and t.id == kt for t in n.targets)]
            kexpr = norm(kassign[0].value) if len(kassign) == 1 else kt
            ctx.ob("C12.R1", d, "lookup key is the class of the parsed message", kexpr.startswith("type(") or kexpr == "klass", f"key {kt} = {kexpr}")
    ctx.ob("C12.R1", d, "each subscriber is called exactly once per message", len(calls) == 1 and len(calls[0].args) == 1 and not calls[0].keywords, f"{[norm(c) for c in calls]}")
    inner = [x for b in lp.body for x in ast.walk(b) if isinstance(x, (ast.Break, ast.Return, ast.Try))]
    ctx.ob("C12.R1", d, "delivery loop has no early exit", not inner, "a break/return/try in the loop would skip subscribers")
    # the delivered object is the message parsed from this packet
    if calls and calls[0].args:
        a = norm(calls[0].args[0])
        parsed = [n for n in own_nodes(d.node) if isinstance(n, ast.Call) and isinstance(n.func, ast.Attribute) and n.func.attr in ("MergeFromString", "ParseFromString")]
        ctx.ob("C12.R1", d, "subscribers receive the message parsed from this packet", len(parsed) == 1 and norm(parsed[0].func.value) == a, f"delivers {a}, parsed into {[norm(p.func.value) for p in parsed]}")
        if len(parsed) == 1:
            data_arg = norm(parsed[0].args[0]) if parsed[0].args else "?"
            ctx.ob("C12.R1", d, "the payload parsed is the packet's payload parameter", data_arg in d.param_names(), f"parses {data_arg}")


# ------------------------------------------------------------------ R2-R4
def r234(ctx: Ctx, roles, d: Func) -> None:
    res = resolver(ctx)
    g = cfg_of(ctx, d)
    lookups = [(fn, e, p) for fn, e, p in find_lookups(ctx) if fn.key == d.key]
    ctx.ob("C12.R2", d, "exactly one registry lookup in the dispatcher", len(lookups) == 1, f"{len(lookups)}")
    if len(lookups) != 1:
        return
    _, lk, param = lookups[0]
    table = ctx.sym.eval(lk.value if isinstance(lk, ast.Subscript) else lk.func.value, d.module.name)  # type: ignore[attr-defined]
    n_ids = len(table)
    lk_nodes = [n for n in g.reachable() if n.ast is not None and n.kind in ("stmt", "cond") and any(x is lk for x in walk_own(n.ast))]
    ctx.require(len(lk_nodes) >= 1, "lookup node not found in CFG")
    tries = [t for t in own_nodes(d.node) if isinstance(t, ast.Try) and any(x is lk for b in t.body for x in ast.walk(b))]
    lookup_in_try = len(tries) == 1
    if not lookup_in_try:
        # the lookup may sit in front of the try when it is range-guarded (then no id may make it raise: judged per id
        # below); the try that matters for R3/R4 is the one around the payload parse
        tries = [t for t in own_nodes(d.node) if isinstance(t, ast.Try) and any(isinstance(x, ast.Call) and isinstance(x.func, ast.Attribute) and x.func.attr in ("MergeFromString", "ParseFromString") for b in t.body for x in ast.walk(b))]
    ctx.require(len(tries) == 1, "neither the lookup nor the payload parse is inside exactly one try")
    tr = tries[0]
    dispatch = [n for n in g.nodes if n.kind == "dispatch" and n.ast is tr]
    handlers = [n for n in g.reachable() if n.kind == "handler" and any(n.ast is h for h in tr.handlers)]
    ctx.ob("C12.R4", d, "lookup/parse failures are caught by a handler covering Exception", len(tr.handlers) == 1 and tr.handlers[0].type is not None and norm(tr.handlers[0].type).split(".")[-1] in ("Exception", "BaseException"), f"handlers {[norm(h.type) for h in tr.handlers]}")
    ename = tr.handlers[0].name if tr.handlers else None

    # constants the parameter is compared with
    consts = set()
    for n in own_nodes(d.node):
        if isinstance(n, ast.Compare) and any(isinstance(x, ast.Name) and x.id == param for x in ast.walk(n)):
            for x in ast.walk(n):
                if isinstance(x, ast.Constant) and isinstance(x.value, int) and not isinstance(x.value, bool):
                    consts.add(x.value)
                elif isinstance(x, ast.Name) and x.id != param:
                    v = ctx.sym.eval(x, d.module.name)
                    if isinstance(v, int):
                        consts.add(v)
                elif isinstance(x, ast.Call) and norm(x.func) == "len":
                    v = ctx.sym.eval(x, d.module.name)
                    if isinstance(v, int):
                        consts.add(v)
    points = {0, 1, 2, n_ids - 1, n_ids, n_ids + 1, 255, 256, 65535, 65536, 2**31, 2**63}
    for c in consts:
        points |= {c - 1, c, c + 1}
    points = sorted(p for p in points if p >= 0)

    def is_index_error_atom(t: ast.AST) -> bool:
        return isinstance(t, ast.Call) and norm(t.func) == "isinstance" and len(t.args) == 2 and ename is not None and norm(t.args[0]) == ename and "IndexError" in norm(t.args[1]) or (isinstance(t, ast.Compare) and ename is not None and "IndexError" in norm(t) and ename in norm(t))

    subs_lookup = [n for n in g.reachable() if n.ast is not None and n.kind in ("stmt", "cond") and any(isinstance(x, ast.Attribute) and x.attr == roles.handler_table for x in walk_own(n.ast))]
    raise_nodes = [n for n in g.reachable() if isinstance(n.ast, ast.Raise) and any(x is n.ast for b in tr.body for x in ast.walk(b))]
    n_pts = 0
    for i in points:
        n_pts += 1

        def classify(n: Node, i=i):
            t = n.ast
            if t is not None and any(isinstance(x, ast.Name) and x.id == param for x in ast.walk(t)) and not any(isinstance(x, ast.Name) and x.id not in (param,) and ctx.sym.eval(x, d.module.name) is Unknown for x in ast.walk(t)):
                v = ctx.sym.eval(t, d.module.name, {param: i})
                if v is not Unknown and isinstance(v, bool):
                    return ("T", v)
            if is_index_error_atom(t):
                return ("IE", True)
            return None

        reach = walk(g, {"T": True}, classify)
        known = 1 <= i <= n_ids
        hit = [n for n in lk_nodes if n in reach]
        explicit = [n for n in raise_nodes if n in reach]
        outcome = "not looked up"
        idx_ok = True
        if hit:
            idx_expr = lk.slice if isinstance(lk, ast.Subscript) else lk.args[0]  # type: ignore[attr-defined]
            idx = ctx.sym.eval(idx_expr, d.module.name, {param: i})
            if idx is Unknown:
                raise AnalysisError(f"cannot fold lookup index {norm(idx_expr)} for {param}={i}")
            if isinstance(table, (tuple, list)) and isinstance(idx, int) and idx < 0:
                idx_ok = False
            got = eval_lookup(ctx, d, lk, param, i)
            outcome = "raises" if got in ("raises",) else ("missing" if got == "none" else f"selects {got!r}")
        ctx.ob("C12.R2", d, f"type {i}: lookup index is never negative", idx_ok, f"index wraps around: type {i} {outcome} instead of being unknown", node=lk)
        if known:
            ctx.ob("C12.R2", d, f"type {i}: defined id reaches the lookup", bool(hit) and outcome.startswith("selects"), f"{outcome}")
        else:
            # a third spelling of the unknown-type path: the id is sorted out before the lookup and the function
            # returns having done nothing but logging (no package call, no store, no delivery)
            quiet = False
            if not hit and not explicit and g.exit in reach and not (set(subs_lookup) & reach):
                acts = [n for n in reach if n.ast is not None and n.kind in ("stmt", "cond") and (any(res.callees(d, c).kind != "lib" for c in node_calls(n)) or (n.kind == "stmt" and isinstance(n.ast, (ast.Assign, ast.AugAssign)) and any(isinstance(x, ast.Attribute) and isinstance(x.ctx, ast.Store) for x in walk_own(n.ast))))]
                quiet = not acts
            unknown_ok = (not hit and bool(explicit)) or (bool(hit) and outcome in ("raises",) and lookup_in_try) or (bool(hit) and outcome == "missing") or quiet
            ctx.ob("C12.R2", d, f"type {i}: undefined id ends on the unknown-type path", unknown_ok and idx_ok, f"{outcome}; explicit raise reachable: {bool(explicit)}")
    ctx.analysed["type_points_walked"] = points

    # ---- R3: unknown-type path = handler with IndexError atom true
    def classify_ie(n: Node):
        if is_index_error_atom(n.ast):
            return ("IE", True)
        return None

    # every message that was parsed reaches the subscriber lookup: between the parse and the lookup nothing drops it on
    # the strength of connection state ("already disconnecting", say) - a call waiting for that message would not get it
    parse_n = [n for n in g.reachable() if any(isinstance(c.func, ast.Attribute) and c.func.attr in ("MergeFromString", "ParseFromString") for c in node_calls(n))]
    if len(parse_n) == 1 and subs_lookup:
        drops = []
        for l_, s_ in parse_n[0].succ:
            if l_ == "exc":
                continue
            avoid_ = walk(g, {}, lambda n: None, start=s_, blocked=set(subs_lookup))
            drops += [n for n in avoid_ if n is g.exit or (n.kind == "stmt" and isinstance(n.ast, ast.Return))]
        ctx.ob("C12.R1", d, "a parsed message always reaches the subscriber lookup", not drops, f"can leave at {[(n.lineno, n.text(40)) for n in drops if n is not g.exit][:2] or 'the end'} without looking up its subscribers")
    has_ie = any(is_index_error_atom(n.ast) for n in g.reachable() if n.ast is not None)
    for h in handlers:
        if not has_ie and not lookup_in_try:
            # no lookup inside the try: the handler has no unknown-type branch (the ids are sorted out before the
            # lookup, judged per id above); only the bad-payload rule applies to it
            reach_b = walk(g, {}, lambda n: None, start=h)
            rep = ctx.repo.func("connection", "APIConnection.report_fatal_error")
            rep_nodes = [n for n in reach_b if any(rep in res.callees(d, c).funcs for c in node_calls(n))]
            unreported = walk(g, {}, lambda n: None, start=h, blocked=set(rep_nodes))
            leaves = [n for n in unreported if (isinstance(n.ast, ast.Raise) or n is g.exit) and n not in rep_nodes]
            ctx.ob("C12.R4", d, "bad payload is reported as a fatal error", len(rep_nodes) >= 1 and not leaves, "a decode failure can leave the handler without closing the connection")
            continue
        reach_u = walk(g, {"IE": True}, classify_ie, start=h)
        effects_u = []
        for n in reach_u:
            if n is h or n.ast is None or n.kind in ("join", "dispatch", "handler"):
                continue
            if n in (g.exit, g.raise_exit):
                continue
            for c in node_calls(n):
                cs = res.callees(d, c)
                if cs.kind != "lib":
                    effects_u.append(n)
            if n.kind == "stmt" and isinstance(n.ast, (ast.Assign, ast.AugAssign)) and any(isinstance(x, ast.Attribute) and isinstance(x.ctx, ast.Store) for x in walk_own(n.ast)):
                effects_u.append(n)
            if isinstance(n.ast, ast.Raise):
                effects_u.append(n)
        ctx.ob("C12.R3", d, "unknown type: nothing but logging happens", not effects_u, f"effects on the unknown-type path: {[n.text(50) for n in effects_u[:3]]}")
        ctx.ob("C12.R3", d, "unknown type: returns without delivery or bookkeeping", g.exit in reach_u and not (set(subs_lookup) & reach_u), "the unknown-type path continues into the keepalive bookkeeping / delivery")
        # ---- R4: any other failure
        reach_b = walk(g, {"IE": False}, classify_ie, start=h)
        rep = ctx.repo.func("connection", "APIConnection.report_fatal_error")
        rep_nodes = [n for n in reach_b if any(rep in res.callees(d, c).funcs for c in node_calls(n))]
        unreported = walk(g, {"IE": False}, classify_ie, start=h, blocked=set(rep_nodes))
        leaves = [n for n in unreported if (isinstance(n.ast, ast.Raise) or n is g.exit) and n not in rep_nodes]
        ctx.ob("C12.R4", d, "bad payload is reported as a fatal error", len(rep_nodes) >= 1 and not leaves, "a decode failure can leave the handler without closing the connection")
        okcls = False
        for n in rep_nodes:
            for c in node_calls(n):
                if rep in res.callees(d, c).funcs and c.args and isinstance(c.args[0], ast.Call):
                    v = ctx.sym.eval(c.args[0].func, d.module.name)
                    okcls = isinstance(v, Ref) and v.name == "ProtocolAPIError"
        ctx.ob("C12.R4", d, "... as ProtocolAPIError", okcls, "")
        ctx.ob("C12.R4", d, "bad payload is never delivered (the handler leaves the dispatcher)", not (set(subs_lookup) & reach_b), "the handler can fall through to delivery with a half-parsed message")


# ----------------------------------------------------------------------- R5
def sent_classes(ctx: Ctx, fn: Func, call: ast.Call) -> list[str]:
    out = []
    for a in call.args[:1]:
        v = ctx.sym.eval(a, fn.module.name)
        vals: list[Any]
        if isinstance(v, tuple):
            vals = list(v)
        else:
            vals = [v]
        if isinstance(a, ast.Tuple):
            vals = []
            for el in a.elts:
                ev = ctx.sym.eval(el, fn.module.name)
                if ev is Unknown and isinstance(el, ast.Name):
                    assigns = [n for n in own_nodes(fn.node) if isinstance(n, ast.Assign) and any(isinstance(t, ast.Name) and t.id == el.id for t in n.targets)]
                    if len(assigns) == 1:
                        ev = ctx.sym.eval(assigns[0].value, fn.module.name)
                vals.append(ev)
        for x in vals:
            if isinstance(x, Inst):
                out.append(x.cls.name)
            else:
                out.append(f"?{x!r}")
    return out


def r5(ctx: Ctx, roles) -> None:
    res = resolver(ctx)
    conn = roles.conn
    regs: dict[str, Func] = {}
    reg_fn = None
    for m in conn.methods.values():
        for n in own_nodes(m.node):
            if isinstance(n, ast.Call) and len(n.args) == 2 and isinstance(n.args[1], ast.Tuple) and isinstance(n.args[0], ast.Attribute) and norm(n.args[0].value) == "self":
                cv = res._callable_value(m, n.args[0])
                types = [ctx.sym.eval(e, m.module.name) for e in n.args[1].elts]
                if cv and cv.funcs and all(isinstance(t, Ref) and t.kind == "pb" for t in types) and cv.funcs[0].cls is conn:
                    for t in types:
                        regs[t.name] = cv.funcs[0]
                    reg_fn = m
    ctx.ob("C12.R5", "connection:APIConnection", "internal handlers registered for exactly the three peer requests", set(regs) == {"DisconnectRequest", "PingRequest", "GetTimeRequest"}, f"{sorted(regs)}")
    send_names = {"send_messages", "send_message"}
    for req, h in sorted(regs.items()):
        gh = cfg_of(ctx, h)
        sends = [(n, c) for n in gh.reachable() for c in node_calls(n) if any(f.name in send_names and f.cls is conn for f in res.callees(h, c).funcs)]
        want = req[: -len("Request")] + "Response"
        classes = [k for _, c in sends for k in sent_classes(ctx, h, c)]
        ctx.ob("C12.R5", h, f"{req} answered with {want}", classes == [want], f"sends {classes}")
        if sends:
            # the reply is sent on every path
            f = occurred_before(gh, lambda n, sends=sends: ["replied"] if any(n is sn for sn, _ in sends) else []).get(gh.exit, frozenset())
            ctx.ob("C12.R5", h, f"{want} sent on every path", "replied" in f, "")
    dh = regs.get("DisconnectRequest")
    if dh is not None:
        gh = cfg_of(ctx, dh)

        def ev(n: Node):
            out = []
            if n.kind == "stmt" and isinstance(n.ast, ast.Assign) and any(isinstance(t, ast.Attribute) and t.attr == "_expected_disconnect" for t in n.ast.targets):
                out.append("marked")
            for c in node_calls(n):
                cs = res.callees(dh, c)
                if any(f.name in send_names for f in cs.funcs):
                    out.append("replied")
                if roles.closer in cs.funcs:
                    out.append("closed")
            return out

        facts = occurred_before(gh, ev)
        for n in gh.reachable():
            e = ev(n)
            if "replied" in e:
                ctx.ob("C12.R5", dh, "disconnect: marker before the reply", "marked" in facts.get(n, frozenset()), "")
            if "closed" in e:
                ctx.ob("C12.R5", dh, "disconnect: response first, then close", {"marked", "replied"} <= facts.get(n, frozenset()), "after the close nothing can be written: the device would never get its DisconnectResponse")
        ctx.ob("C12.R5", dh, "disconnect: the connection is closed on every normal path", any("closed" in ev(n) for n in gh.reachable()) and gh.exit not in walk(gh, {}, lambda n: None, blocked={n for n in gh.reachable() if "closed" in ev(n)}), "")
    # registration precedes the hello
    dfc = ctx.repo.func("connection", "APIConnection._do_finish_connect")
    hello = ctx.repo.func("connection", "APIConnection._connect_hello_login")
    if reg_fn is not None:
        gf = cfg_of(ctx, dfc)
        fb = occurred_before(gf, lambda n: ["internal-registered"] if any(reg_fn in res.callees(dfc, c).funcs for c in node_calls(n)) else [])
        hn = [n for n in gf.reachable() if any(hello in res.callees(dfc, c).funcs for c in node_calls(n))]
        ctx.ob("C12.R5", dfc, "internal handlers registered before the hello is sent", bool(hn) and all("internal-registered" in fb.get(n, frozenset()) for n in hn), "a peer request arriving with the hello response would go unanswered")
