"""C10 - keepalive: ping only when idle; silent peer dropped after 4.5 K; live peer never."""

from __future__ import annotations

import ast
from typing import Any

from ..astutil import attr_writes, is_none
from ..cfg import Node, cfg_of, node_calls, walk_own
from ..closed import find_roles, resolver, state_member
from ..flow import occurred_before
from ..guard import fmt_table, truth_table, walk
from ..report import Ctx
from ..src import AnalysisError, Func, norm, own_nodes
from ..sym import Ref, Unknown

EXPLANATION = (
    "Static rules on the keepalive protocol. R1: the pending-ping flag has exactly three writers (False in __init__, True in "
    "the tick scheduler on every path, False in the dispatcher); in the dispatcher, from the point where a message has been "
    "parsed successfully every path clears the flag when set and cancels the pong timer when armed (not conditioned on the "
    "message type); the ping is sent iff the flag is set (truth table). R2: the pong timer is armed only while unarmed "
    "(truth table), its deadline expression is evaluated symbolically (keepalive as a symbol, attributes resolved through "
    "their __init__ expressions) and must equal now + 4.5*keepalive; its callback reports PingFailedAPIError through the "
    "fatal-error path. R3: every normal exit of the tick re-arms the ping timer at now + keepalive; the scheduler is called "
    "only from the tick and after the hello/login wait of the connect phase; the client's default interval folds to 20 s. "
    "Decides the flag/timer protocol and the symbolic deadlines; the detection window (5.5K, 6.5K] is their consequence over "
    "time and is not decided as a number."
    ' Added: on an open connection no message is acted on before it was parsed; a time handed to the scheduler through a local is read after the last suspension point.'
)
ASSUMPTIONS = ["loop.call_at fires at its deadline", "M1-M5 of DESIGN.md section 2"]


def kval(ctx: Ctx, fn: Func, e: ast.expr | None, K: float, T: float, depth: int = 0) -> Any:
    """Evaluate an expression with the keepalive interval as symbol K and `loop.time()` as T."""
    if e is None or depth > 8:
        return Unknown
    conn = ctx.repo.cls("APIConnection")
    init = conn.methods["__init__"]
    if isinstance(e, ast.Attribute):
        if e.attr == "keepalive":
            return K
        if isinstance(e.value, ast.Name) and e.value.id == "self":
            srcs = [val for st, tgt, val in attr_writes(init, e.attr) if norm(tgt.value) == "self"]
            if len(srcs) == 1:
                return kval(ctx, init, srcs[0], K, T, depth + 1)
            return Unknown
    if isinstance(e, ast.Call) and isinstance(e.func, ast.Attribute) and e.func.attr == "time" and not e.args:
        return T
    if isinstance(e, ast.Name):
        if e.id in fn.param_names():
            if e.id == "now":
                return T
            return Unknown
        assigns = [n for n in own_nodes(fn.node) if isinstance(n, ast.Assign) and any(isinstance(t, ast.Name) and t.id == e.id for t in n.targets)]
        if len(assigns) == 1:
            return kval(ctx, fn, assigns[0].value, K, T, depth + 1)
        v = ctx.sym.resolve_name(fn.module.name, e.id)
        return v
    if isinstance(e, ast.BinOp):
        a = kval(ctx, fn, e.left, K, T, depth + 1)
        b = kval(ctx, fn, e.right, K, T, depth + 1)
        if a is Unknown or b is Unknown or not isinstance(a, (int, float)) or not isinstance(b, (int, float)):
            return Unknown
        try:
            if isinstance(e.op, ast.Add):
                return a + b
            if isinstance(e.op, ast.Sub):
                return a - b
            if isinstance(e.op, ast.Mult):
                return a * b
            if isinstance(e.op, ast.Div):
                return a / b
        except Exception:
            return Unknown
        return Unknown
    if isinstance(e, ast.Constant) and isinstance(e.value, (int, float)):
        return e.value
    return ctx.sym.eval(e, fn.module.name)


def linear_is(ctx: Ctx, fn: Func, e: ast.expr, tcoef: float, kcoef: float) -> tuple[bool, str]:
    pts = []
    for K, T in ((1.0, 1000.0), (2.0, 1000.0), (20.0, 5.0), (0.5, 77.0)):
        v = kval(ctx, fn, e, K, T)
        if v is Unknown or not isinstance(v, (int, float)):
            return False, f"cannot evaluate {norm(e)} symbolically"
        pts.append((K, T, v))
    ok = all(abs(v - (tcoef * T + kcoef * K)) < 1e-9 for K, T, v in pts)
    return ok, "; ".join(f"K={K},now={T}->{v}" for K, T, v in pts[:2])


def run(ctx: Ctx) -> None:
    roles = find_roles(ctx)
    res = resolver(ctx)
    conn = roles.conn
    init = conn.methods["__init__"]
    # roles: scheduler arms the ping timer; tick is its callback; pong callback
    arms = [(m, st, val) for m in conn.methods.values() for st, tgt, val in attr_writes(m, "_ping_timer") if isinstance(val, ast.Call)]
    ctx.require(len(arms) == 1, f"ping-timer arm site not unique: {[a[0].key for a in arms]}")
    sched, arm_st, arm_call = arms[0]
    tick_cv = res._callable_value(sched, arm_call.args[1]) if len(arm_call.args) >= 2 else None
    ctx.require(tick_cv is not None and len(tick_cv.funcs) == 1, "tick callback of the ping timer not resolved")
    tick = tick_cv.funcs[0]
    parms = [(m, st, val) for m in conn.methods.values() for st, tgt, val in attr_writes(m, "_pong_timer") if isinstance(val, ast.Call)]
    ctx.require(len(parms) == 1, f"pong-timer arm site not unique: {[a[0].key for a in parms]}")
    pong_fn, pong_st, pong_call = parms[0]
    pong_cv = res._callable_value(pong_fn, pong_call.args[1]) if len(pong_call.args) >= 2 else None
    ctx.require(pong_cv is not None and len(pong_cv.funcs) == 1, "pong callback not resolved")
    pong_cb = pong_cv.funcs[0]
    disp = roles.dispatcher
    ctx.analysed["roles"] = {"scheduler": sched.key, "tick": tick.key, "pong_arm_in": pong_fn.key, "pong_callback": pong_cb.key, "dispatcher": disp.key}

    # ------------------------------------------------------------------ R1
    writes = [(fn, st, val) for fn in ctx.repo.all_funcs() for st, tgt, val in attr_writes(fn, "_send_pending_ping")]
    ctx.count("C10.R1", len(writes), 3, "writes of the pending-ping flag")
    for fn, st, val in writes:
        c = val.value if isinstance(val, ast.Constant) and isinstance(val.value, bool) else None
        if fn.key == init.key:
            ctx.ob("C10.R1", fn, st, c is False, "flag must start False")
        elif fn.key == sched.key:
            ctx.ob("C10.R1", fn, st, c is True, "the scheduler must mark 'nothing seen yet' for the coming interval")
        elif fn.key == disp.key:
            ctx.ob("C10.R1", fn, st, c is False, "an incoming message must clear the flag")
        else:
            ctx.ob("C10.R1", fn, st, False, f"unexpected writer of the pending-ping flag: {fn.qualname}")
    gs = cfg_of(ctx, sched)
    f = occurred_before(gs, lambda n: ["set"] if n.kind == "stmt" and isinstance(n.ast, ast.Assign) and any(isinstance(t, ast.Attribute) and t.attr == "_send_pending_ping" for t in n.ast.targets) else []).get(gs.exit, frozenset())
    ctx.ob("C10.R1", sched, "flag set on every path of the scheduler", "set" in f, "a tick could be scheduled without marking the interval idle")

    # dispatcher: from successful parse on, clear flag / cancel pong on every path
    gd = cfg_of(ctx, disp)
    parse = [n for n in gd.reachable() if any(isinstance(c.func, ast.Attribute) and c.func.attr in ("MergeFromString", "ParseFromString") for c in node_calls(n))]
    ctx.require(len(parse) == 1, "payload parse call not found uniquely in the dispatcher")
    starts = [s for l, s in parse[0].succ if l != "exc"]
    ctx.require(len(starts) == 1, "parse node has no unique normal successor")
    start = starts[0]

    def classify(n: Node):
        t = n.ast
        if isinstance(t, ast.Attribute) and t.attr == "_send_pending_ping":
            return ("pending", True)
        if isinstance(t, ast.Compare) and len(t.ops) == 1 and isinstance(t.left, ast.Attribute) and t.left.attr == "_pong_timer" and is_none(t.comparators[0]):
            return ("pong_armed", isinstance(t.ops[0], (ast.IsNot, ast.NotEq)))
        if isinstance(t, ast.Attribute) and t.attr == "_pong_timer":
            return ("pong_armed", True)
        return None

    clear_nodes = [n for n in gd.reachable() if n.kind == "stmt" and isinstance(n.ast, ast.Assign) and any(isinstance(t, ast.Attribute) and t.attr == "_send_pending_ping" for t in n.ast.targets)]
    cancel_fn = [m for m in conn.methods.values() if any(isinstance(c, ast.Call) and isinstance(c.func, ast.Attribute) and c.func.attr == "cancel" and "_pong_timer" in norm(c.func.value) for c in own_nodes(m.node))]
    cancel_nodes = [n for n in gd.reachable() if any((isinstance(c.func, ast.Attribute) and c.func.attr == "cancel" and "_pong_timer" in norm(c.func.value)) or any(x in cancel_fn for x in res.callees(disp, c).funcs) for c in node_calls(n))]
    reach = walk(gd, {"pending": True}, classify, start=start, blocked=set(clear_nodes))
    ctx.ob("C10.R1", disp, "every parsed message clears the pending ping (any type)", bool(clear_nodes) and gd.exit not in reach, "a message can be dispatched without cancelling the pending ping: a live peer would still be pinged")
    reach = walk(gd, {"pong_armed": True}, classify, start=start, blocked=set(cancel_nodes))
    ctx.ob("C10.R2", disp, "every parsed message cancels an armed pong timer (any type)", bool(cancel_nodes) and gd.exit not in reach, "a live peer could still be declared dead")
    # the deadline is re-armed only while `_pong_timer is None`: a cancelled handle must therefore be forgotten
    # in the dispatcher path, or after one answered ping no deadline is ever armed again (silent peer never dropped)
    def forgets(fn: Func, depth: int = 0) -> bool:
        """On every normal path from a cancel of the pong handle to fn's exit the attribute is reset to None."""
        gf = cfg_of(ctx, fn)
        cn = [n for n in gf.reachable() if any(isinstance(c.func, ast.Attribute) and c.func.attr == "cancel" and "_pong_timer" in norm(c.func.value) for c in node_calls(n))]
        rs = {n for n in gf.reachable() if n.kind == "stmt" and isinstance(n.ast, ast.Assign) and any(isinstance(t, ast.Attribute) and t.attr == "_pong_timer" for t in n.ast.targets) and is_none(n.ast.value)}
        for c0 in cn:
            if gf.exit in walk(gf, {}, lambda n: None, start=c0, blocked=rs):
                return False
        return bool(cn)

    unforgotten = []
    for n in cancel_nodes:
        for c in node_calls(n):
            direct = isinstance(c.func, ast.Attribute) and c.func.attr == "cancel" and "_pong_timer" in norm(c.func.value)
            callee_ok = [x for x in res.callees(disp, c).funcs if x in cancel_fn]
            if direct and not forgets(disp):
                unforgotten.append(norm(c))
            for x in callee_ok:
                if not forgets(x):
                    # the caller may still forget it itself right after the call
                    rs = {m for m in gd.reachable() if m.kind == "stmt" and isinstance(m.ast, ast.Assign) and any(isinstance(t, ast.Attribute) and t.attr == "_pong_timer" for t in m.ast.targets) and is_none(m.ast.value)}
                    if gd.exit in walk(gd, {}, lambda q: None, start=n, blocked=rs):
                        unforgotten.append(f"{norm(c)} -> {x.qualname}")
    ctx.ob("C10.R2", disp, "a cancelled pong deadline is forgotten (reset to None) so that the next ping arms a new one", not unforgotten, f"{unforgotten}: the handle stays non-None after the first answered ping; the `is None` arm guard never fires again and a peer that later goes silent is never dropped")
    # ... and they happen before the subscribers run (a subscriber may raise)
    look = [n for n in gd.reachable() if n.ast is not None and n.kind in ("cond", "stmt") and any(isinstance(x, ast.Attribute) and x.attr == roles.handler_table for x in walk_own(n.ast))]
    for ln in look:
        r1 = walk(gd, {"pending": True}, classify, start=start, blocked=set(clear_nodes))
        r2 = walk(gd, {"pong_armed": True}, classify, start=start, blocked=set(cancel_nodes))
        ctx.ob("C10.R1", disp, "keepalive bookkeeping precedes delivery to subscribers", ln not in r1 and ln not in r2, "a raising subscriber would skip the bookkeeping")
    # the unknown-type / bad-payload paths do not touch the bookkeeping: nothing before `start` clears or cancels
    pre = walk(gd, {}, lambda n: None, blocked={start})
    early = [n for n in (set(clear_nodes) | set(cancel_nodes)) if n in pre and n is not start and start not in walk(gd, {}, lambda n: None, start=n, blocked=set()) - {n}]
    ctx.ob("C10.R1", disp, "only parsed messages count as a sign of life", not [n for n in (set(clear_nodes) | set(cancel_nodes)) if _before(gd, n, parse[0])], "the bookkeeping runs before the payload has been parsed: garbage would keep the session alive")

    # ... and no message is dealt with before that point: short of the closed-connection guard, the dispatcher has no
    # normal exit that avoids the parse (a fast path for one message type would leave the bookkeeping out for it)
    def cl_closed(n: Node):
        t = n.ast
        if isinstance(t, ast.Compare) and len(t.ops) == 1 and isinstance(t.ops[0], (ast.Is, ast.Eq, ast.IsNot, ast.NotEq)):
            l, r = t.left, t.comparators[0]
            for a, b in ((l, r), (r, l)):
                if isinstance(a, ast.Attribute) and a.attr.lstrip("_") == roles.state_attr.lstrip("_") and state_member(ctx, disp, b, roles.state_enum) == roles.closed_const:
                    return ("closed", isinstance(t.ops[0], (ast.Is, ast.Eq)))
        return None

    pre_ = walk(gd, {"closed": False}, cl_closed, blocked={parse[0]})

    def _acts(n: Node) -> bool:
        """Does more than logging: calls package / unknown code or stores to an attribute."""
        if n.ast is None or n.kind not in ("stmt", "cond"):
            return False
        if any(res.callees(disp, c).kind != "lib" for c in node_calls(n)):
            return True
        return n.kind == "stmt" and isinstance(n.ast, (ast.Assign, ast.AugAssign, ast.AnnAssign)) and any(isinstance(x, ast.Attribute) and isinstance(x.ctx, ast.Store) for x in walk_own(n.ast))

    early_ = []
    for a_ in [n for n in pre_ if _acts(n)]:
        after_ = walk(gd, {"closed": False}, cl_closed, start=a_, blocked={parse[0]})
        outs = [n for n in after_ if n is gd.exit or (n.kind == "stmt" and isinstance(n.ast, ast.Return))]
        if outs:
            early_.append((a_, outs[0]))
    ctx.ob("C10.R1", disp, "on an open connection no message is acted on before it was parsed (a path that only logs and returns is the unknown-type path, judged by C12)", not early_, f"{[(a.lineno, a.text(40)) for a, o in early_][:3]} then a normal exit without parsing: messages handled there never clear the pending ping nor cancel the pong deadline")

    # ping sent iff flag set
    gt = cfg_of(ctx, tick)
    ping_nodes = []
    for n in gt.reachable():
        for c in node_calls(n):
            cs = res.callees(tick, c)
            if any(x.name in ("send_messages", "send_message") for x in cs.funcs):
                args = [ctx.sym.eval(a, tick.module.name) for a in c.args]
                if "PingRequest" in norm(c) or any("PING_REQUEST" in norm(a) for a in c.args):
                    ping_nodes.append(n)
    ctx.ob("C10.R1", tick, "exactly one ping send site in the tick", len(ping_nodes) == 1, f"{len(ping_nodes)} site(s)")
    pm = ctx.sym.resolve_name("connection", "PING_REQUEST_MESSAGES")
    tab = truth_table(gt, ["pending"], classify, ping_nodes)
    ctx.ob("C10.R1", tick, "ping sent iff nothing arrived during the interval", tab.get((True,)) == (True, True) and tab.get((False,), (True, True))[0] is False, fmt_table(["pending"], tab))

    # ------------------------------------------------------------------ R2
    gp = cfg_of(ctx, pong_fn)
    pn = [n for n in gp.reachable() if n.ast is pong_st]
    tab = truth_table(gp, ["pending", "pong_armed"], classify, pn)
    ok = tab.get((True, False)) == (True, True) and all(not tab[k][0] for k in tab if k != (True, False))
    ctx.ob("C10.R2", pong_fn, "pong deadline armed iff a ping is sent and no deadline is pending", ok, fmt_table(["pending", "pong_armed"], tab), node=pong_st)
    good, how = linear_is(ctx, pong_fn, pong_call.args[0], 1.0, 4.5)
    ctx.ob("C10.R2", pong_fn, "pong deadline = now + 4.5 * keepalive", good, how, node=pong_st)
    ratio = ctx.sym.resolve_name("connection", "KEEP_ALIVE_TIMEOUT_RATIO")
    ctx.analysed["ratio"] = str(ratio)
    # callback reports PingFailedAPIError via the fatal-error path
    rep = ctx.repo.func("connection", "APIConnection.report_fatal_error")
    calls = [c for c in own_nodes(pong_cb.node) if isinstance(c, ast.Call) and rep in res.callees(pong_cb, c).funcs]
    okc = len(calls) == 1 and calls[0].args and isinstance(calls[0].args[0], ast.Call) and isinstance(ctx.sym.eval(calls[0].args[0].func, pong_cb.module.name), Ref) and ctx.sym.eval(calls[0].args[0].func, pong_cb.module.name).name == "PingFailedAPIError"
    ctx.ob("C10.R2", pong_cb, "deadline expiry reports PingFailedAPIError as a fatal error", bool(okc), "")
    gpc = cfg_of(ctx, pong_cb)
    fr = occurred_before(gpc, lambda n: ["reported"] if any(rep in res.callees(pong_cb, c).funcs for c in node_calls(n)) else []).get(gpc.exit, frozenset())
    ctx.ob("C10.R2", pong_cb, "... on every path", "reported" in fr, "")
    # `now` in the tick is loop.time() read at the tick
    # ------------------------------------------------------------------ R3
    good, how = linear_is(ctx, sched, arm_call.args[0], 1.0, 1.0)
    ctx.ob("C10.R3", sched, "next tick = now + keepalive", good, how, node=arm_st)
    now_param = [p for p in sched.param_names() if p != "self"]
    # callers of the scheduler and what they pass as `now`
    callers = []
    for fn in ctx.repo.all_funcs():
        for c in [x for x in own_nodes(fn.node) if isinstance(x, ast.Call)]:
            if sched in res.callees(fn, c).funcs:
                callers.append((fn, c))
    ctx.ob("C10.R3", sched, "scheduler called only from the tick and the connect phase", {fn.key for fn, _ in callers} == {tick.key, "connection:APIConnection._do_finish_connect"}, f"callers: {sorted({fn.key for fn, _ in callers})}")
    for fn, c in callers:
        a = res.bind_args(sched, c)
        for p in now_param:
            v = kval(ctx, fn, a.get(p), 1.0, 1000.0)
            ctx.ob("C10.R3", fn, f"{norm(c)[:60]}: passes the current loop time", v == 1000.0, f"evaluates to {v!r} for loop.time()=1000")
            # ... read at the call, not before a suspension point (a time taken before an await is the past)
            av = a.get(p)
            if isinstance(av, ast.Name):
                gfn = cfg_of(ctx, fn)
                defs = [n for n in gfn.reachable() if n.kind == "stmt" and isinstance(n.ast, (ast.Assign, ast.AnnAssign)) and any(isinstance(t, ast.Name) and t.id == av.id for t in (n.ast.targets if isinstance(n.ast, ast.Assign) else [n.ast.target]))]
                usen = [n for n in gfn.reachable() if any(x is c for x in node_calls(n))]
                stale = []
                for d in defs:
                    fwd = walk(gfn, {}, lambda n: None, start=d, blocked=set(defs) - {d})
                    for m in fwd:
                        if m is d or m.ast is None or m in usen:
                            continue
                        if any(isinstance(x, ast.Await) for x in walk_own(m.ast)) or (m.kind in ("with-enter", "with-exit", "for") and m.is_async):
                            if any(u in walk(gfn, {}, lambda n: None, start=m, blocked=set(defs)) for u in usen):
                                stale.append((d.lineno, m.lineno))
                ctx.ob("C10.R3", fn, f"{norm(c)[:60]}: the time is read after the last suspension point before the call", not stale, f"`{av.id}` read at L{stale[0][0] if stale else '?'} and used after the await at L{stale[0][1] if stale else '?'}: the tick grid would start in the past (first ping early, silent peer dropped early)")
    sched_nodes = [n for n in gt.reachable() if any(sched in res.callees(tick, c).funcs for c in node_calls(n))]
    ctx.ob("C10.R3", tick, "every normal exit of the tick re-arms the ping timer", bool(sched_nodes) and gt.exit not in walk(gt, {}, lambda n: None, blocked=set(sched_nodes)), "the keepalive would stop after this tick")
    # first arm only after hello/login
    dfc = ctx.repo.func("connection", "APIConnection._do_finish_connect")
    gf = cfg_of(ctx, dfc)
    hello = ctx.repo.func("connection", "APIConnection._connect_hello_login")
    fb = occurred_before(gf, lambda n: ["login-done"] if any(hello in res.callees(dfc, c).funcs for c in node_calls(n)) else [])
    sn = [n for n in gf.reachable() if any(sched in res.callees(dfc, c).funcs for c in node_calls(n))]
    ctx.ob("C10.R3", dfc, "keepalive starts only after hello/login succeeded", bool(sn) and all("login-done" in fb.get(n, frozenset()) for n in sn), "")
    # default interval
    kf = ctx.sym.resolve_name("client", "KEEP_ALIVE_FREQUENCY")
    cinit = ctx.repo.func("client", "APIClient.__init__")
    dflt = None
    a = cinit.node.args
    for p, d in zip(a.kwonlyargs, a.kw_defaults):
        if p.arg == "keepalive" and d is not None:
            dflt = ctx.sym.eval(d, "client")
    ctx.ob("C10.R3", cinit, "default keepalive interval is 20 s", dflt == 20.0, f"default folds to {dflt!r}")
    passes = [kw for n in own_nodes(cinit.node) if isinstance(n, ast.Call) and norm(n.func) == "ConnectionParams" for kw in n.keywords if kw.arg == "keepalive"]
    ctx.ob("C10.R3", cinit, "the client's keepalive reaches the connection parameters unchanged", len(passes) == 1 and isinstance(passes[0].value, ast.Name) and passes[0].value.id == "keepalive", f"{[norm(k.value) for k in passes]}")
    # the tick reads the time once, at the tick
    nows = [n for n in own_nodes(tick.node) if isinstance(n, ast.Assign) and isinstance(n.value, ast.Call) and isinstance(n.value.func, ast.Attribute) and n.value.func.attr == "time"]
    ctx.ob("C10.R3", tick, "tick takes `now` from loop.time()", len(nows) >= 1, "")


def _before(g, n: Node, parse: Node) -> bool:
    """n can execute on a path that has not passed `parse`."""
    reach = walk(g, {}, lambda x: None, blocked={parse})
    return n in reach and n is not parse
