"""C11 - request-response calls get exactly their responses and leave nothing behind."""

from __future__ import annotations

import ast

from ..cfg import Node, cfg_of, node_calls, walk_own
from ..closed import find_roles, resolver
from ..effects import effects
from ..flow import disjunctive, may_occurred_before, occurred_before
from ..guard import fmt_table, truth_table
from ..report import Ctx
from ..src import Func, norm, own_nodes

EXPLANATION = (
    "Static rules on connection.py's request machinery. R1: in every function of the connection that sends and then "
    "registers for the responses, no suspension point (M1) lies between the send and the completion of all registrations "
    "(handler table and the waiter set the closer fails) - so a response in the very next loop turn cannot be missed. "
    "R2: a disjunctive path analysis (exception edges only from statements that can really raise) shows that on every exit "
    "after registration the same (callback, types) pair is unregistered and the same future discarded; removal is "
    "idempotent (set.discard). R3: the collector's behaviour is extracted as a truth table over {future done, accept "
    "predicate absent/true, stop predicate absent/true}: append iff not done and accepted, resolve iff not done and stop; "
    "the request function binds future, list, accept and stop predicates to the matching collector parameters and returns "
    "that list. R4: the timeout callback only acts on a pending future and sets TimeoutError. Decides the local "
    "preconditions of the property; completion instants and non-interference over all interleavings as behaviour are not decided."
    ' Also: no bare future completion is registered as a message handler; the registered callback has exactly one binding.'
)
ASSUMPTIONS = ["M1-M5 of DESIGN.md section 2", "set.add/discard, list.append and partial() have their documented semantics"]


def run(ctx: Ctx) -> None:
    roles = find_roles(ctx)
    res = resolver(ctx)
    eff = effects(ctx)
    conn = roles.conn
    send = ctx.repo.func("connection", "APIConnection.send_messages")
    reg_base = None
    # role: the function that inserts into the handler table
    for m in conn.methods.values():
        if any(isinstance(n, ast.Subscript) and isinstance(n.ctx, ast.Store) and roles.handler_table in norm(n.value) or (isinstance(n, ast.Call) and isinstance(n.func, ast.Attribute) and n.func.attr == "add" and "handlers" in norm(n.func.value)) for n in own_nodes(m.node)):
            if any(isinstance(n, ast.Attribute) and n.attr == roles.handler_table for n in own_nodes(m.node)):
                reg_base = m
    ctx.require(reg_base is not None, "handler registration function not found")
    unreg = None
    for m in conn.methods.values():
        if any(isinstance(n, ast.Call) and isinstance(n.func, ast.Attribute) and n.func.attr in ("discard", "remove") for n in own_nodes(m.node)) and any(isinstance(n, ast.Attribute) and n.attr == roles.handler_table for n in own_nodes(m.node)):
            unreg = m
    ctx.require(unreg is not None, "handler removal function not found")
    # what the package registers as a message handler never completes a future unconditionally: a bound
    # `fut.set_result` / `set_exception` raises InvalidStateError on the second matching message, inside the delivery
    # loop (the other subscribers of that message and the frames behind it are skipped, the connection is torn down)
    raw = []
    for f_ in ctx.repo.all_funcs():
        aliases = {t.id: x.value for x in own_nodes(f_.node) if isinstance(x, ast.Assign) and isinstance(x.value, ast.Attribute) and x.value.attr in ("set_result", "set_exception") for t in x.targets if isinstance(t, ast.Name)}
        for c in own_nodes(f_.node):
            if isinstance(c, ast.Call) and isinstance(c.func, ast.Attribute) and c.func.attr in ("_add_message_callback_without_remove", "add_message_callback", "send_message_callback_response") and c.args:
                for a in c.args:
                    if (isinstance(a, ast.Attribute) and a.attr in ("set_result", "set_exception")) or (isinstance(a, ast.Name) and a.id in aliases):
                        raw.append(f"{f_.qualname} L{c.lineno}: {norm(a)}")
    ctx.ob("C11.R3", "connection:APIConnection", "no bare future completion is registered as a message handler", not raw, f"{raw[:3]}")
    ctx.analysed["roles"] = {"register": reg_base.key, "unregister": unreg.key}

    def calls_to(fn: Func, targets: set[str], n: Node) -> list[ast.Call]:
        out = []
        for c in node_calls(n):
            if any(f.key in targets for f in res.callees(fn, c).funcs):
                out.append(c)
        return out

    reg_keys = {reg_base.key} | {m.key for m in conn.methods.values() if any(isinstance(c, ast.Call) and reg_base in res.callees(m, c).funcs for c in own_nodes(m.node)) and m is not reg_base and not any(isinstance(c, ast.Call) and send in res.callees(m, c).funcs for c in own_nodes(m.node))}
    send_keys = {send.key} | {m.key for m in conn.methods.values() if m.name == "send_message"}

    # ------------------------------------------------------------------ R1
    n1 = 0
    for m in conn.methods.values():
        g = cfg_of(ctx, m)
        has_send = any(calls_to(m, send_keys, n) for n in g.reachable())
        has_reg = any(calls_to(m, reg_keys, n) for n in g.reachable())
        if not (has_send and has_reg) or m.key in reg_keys:
            continue
        n1 += 1

        def gk(n: Node, f: frozenset, label: str, m=m) -> frozenset:
            if label == "exc":
                return f
            if calls_to(m, send_keys, n):
                f = f | {"sent-unregistered"}
            if calls_to(m, reg_keys, n):
                f = f - {"sent-unregistered"}
            return f

        from ..cfg import may_forward

        facts = may_forward(g, gk)
        bad = [n for n in g.reachable() if eff.node_suspends(m, n) and "sent-unregistered" in facts.get(n, frozenset())]
        ctx.ob("C11.R1", m, "no suspension between send and handler registration", not bad, f"a response arriving in the next loop turn would be missed: suspension at {[n.text(50) for n in bad[:2]]}")
        # every future awaited afterwards is already in the waiter set at the first suspension (C08.R4 does the pairing);
        # here: all registrations precede the first suspension after the send
        sus_after = [n for n in g.reachable() if eff.node_suspends(m, n)]
        if sus_after:
            must = occurred_before(g, lambda n, m=m: (["registered"] if calls_to(m, reg_keys, n) else []) + (["waiter"] if any(isinstance(c.func, ast.Attribute) and c.func.attr == "add" and "_read_exception_futures" in norm(c.func.value) for c in node_calls(n)) else []))
            for sn in sus_after:
                f = must.get(sn, frozenset())
                ctx.ob("C11.R1", m, f"registrations complete before {sn.text(40)}", {"registered", "waiter"} <= f, f"only {sorted(f)} done on every path to the first suspension")
    ctx.count("C11.R1", n1, 2, "send-then-register functions")

    # ------------------------------------------------------------------ R2
    cx = ctx.repo.func("connection", "APIConnection.send_messages_await_response_complex")
    g = cfg_of(ctx, cx)
    regs = [c for n in g.reachable() for c in calls_to(cx, {reg_base.key}, n)]
    ctx.require(len(regs) == 1, "registration call in the request function not unique")
    reg_args = [norm(a) for a in regs[0].args]
    adds = [c for n in g.reachable() for c in node_calls(n) if isinstance(c.func, ast.Attribute) and c.func.attr == "add" and "_read_exception_futures" in norm(c.func.value)]
    ctx.require(len(adds) == 1, "waiter registration in the request function not unique")
    fut = norm(adds[0].args[0])

    def step(n: Node, s: frozenset, label: str) -> frozenset | None:
        if label == "exc":
            if not eff.node_raises(cx, n):
                return None
            return s
        for c in node_calls(n):
            if c is regs[0]:
                s = s | {"registered"}
            if c is adds[0]:
                s = s | {"waiting"}
            if unreg in res.callees(cx, c).funcs and [norm(a) for a in c.args] == reg_args:
                s = s | {"unregistered"}
            if isinstance(c.func, ast.Attribute) and c.func.attr == "discard" and "_read_exception_futures" in norm(c.func.value) and c.args and norm(c.args[0]) == fut:
                s = s | {"discarded"}
        return s

    facts = disjunctive(g, frozenset(), step)
    for ex, name in ((g.exit, "normal exit"), (g.raise_exit, "exceptional exit")):
        states = facts.get(ex, frozenset())
        bad_h = [s for s in states if "registered" in s and "unregistered" not in s]
        bad_w = [s for s in states if "waiting" in s and "discarded" not in s]
        ctx.ob("C11.R2", cx, f"{name}: handler {reg_args} unregistered", not bad_h, "the response handler stays registered after the call has ended")
        ctx.ob("C11.R2", cx, f"{name}: waiter {fut} discarded", not bad_w, "the future stays in the set the closer iterates")
    # the request's timeout timer is released on every exit too (cancelled, or it has fired)
    from .c08 import local_timers, timer_exit_states

    tms = [(fn, arm, h) for fn, arm, h in local_timers(ctx) if fn is cx]
    ctx.count("C11.R2.timer", len(tms), 0, "timeout timers armed by the request function (0 = bounded by another construct, judged by C09.R1)")
    for fn, arm, h in tms:
        states, gt = timer_exit_states(ctx, fn, arm, h)
        bad = [(ex, s) for ex, s in states if "armed" in s and "cancelled" not in s and "fired" not in s]
        kinds = sorted({"exceptional exit (cancellation / connection closed)" if ex is gt.raise_exit else "normal exit" for ex, s in bad})
        ctx.ob("C11.R2", cx, f"request timer {h} cancelled (or fired) on every exit", not bad, f"a timer is left behind on: {', '.join(kinds)}", node=arm)
    # no library error class may also be one of the foreign exception types the library catches specifically: the
    # request function maps TimeoutError to TimeoutAPIError - a connection error that IS a TimeoutError (set on the
    # waiter by the closer) would be reported as a request timeout and leave the call's timer armed
    foreign = {"TimeoutError", "asyncio.TimeoutError", "asyncio_TimeoutError", "OSError", "ConnectionError", "ConnectionResetError", "asyncio.CancelledError", "CancelledError", "BaseException", "KeyError", "ValueError", "IndexError", "RuntimeError"}
    n_cls = 0
    for key, ci in sorted(ctx.repo.classes.items()):
        if ":" not in key or not ctx.repo.is_subclass(ci.name, "APIConnectionError"):
            continue
        n_cls += 1
        bad_b = [b for b in ci.base_names if b in foreign or b.split(".")[-1] in {x.split(".")[-1] for x in foreign}]
        ctx.ob("C11.R4", f"{ci.module.name}:{ci.name}", f"{ci.name} is not also a foreign exception type", not bad_b, f"bases {ci.base_names}: an `except {bad_b[0] if bad_b else ''}` written for the timer / the socket would swallow this connection error and misreport it")
    ctx.count("C11.R4.classes", n_cls, 15, "connection error classes")
    # idempotent removal
    rem_calls = [c for c in own_nodes(unreg.node) if isinstance(c, ast.Call) and isinstance(c.func, ast.Attribute) and c.func.attr in ("discard", "remove")]
    ctx.ob("C11.R2", unreg, "handler removal is idempotent (discard)", bool(rem_calls) and all(c.func.attr == "discard" for c in rem_calls), "remove() raises when the handler is already gone (double removal after a close)")
    loops = [n for n in own_nodes(unreg.node) if isinstance(n, ast.For)]
    ctx.ob("C11.R2", unreg, "removal covers every registered type", len(loops) == 1 and norm(loops[0].iter) in unreg.param_names(), "")
    loops = [n for n in own_nodes(reg_base.node) if isinstance(n, ast.For)]
    ctx.ob("C11.R2", reg_base, "registration covers every requested type", len(loops) == 1 and norm(loops[0].iter) in reg_base.param_names() and not any(isinstance(x, (ast.Break, ast.Return)) for x in ast.walk(loops[0])), "")
    sets_ok = any(isinstance(n, ast.Set) for n in own_nodes(reg_base.node)) and any(isinstance(c, ast.Call) and isinstance(c.func, ast.Attribute) and c.func.attr == "add" for c in own_nodes(reg_base.node))
    ctx.ob("C11.R2", reg_base, "handlers per type are a set (distinct partial objects of concurrent calls cannot collide)", sets_ok, "")
    # ... and each type gets its OWN set: what is stored under a type must be a fresh set object
    stores = [n for n in own_nodes(reg_base.node) if isinstance(n, ast.Assign) and any(isinstance(t, ast.Subscript) for t in n.targets)]
    fresh = all(isinstance(n.value, ast.Set) or (isinstance(n.value, ast.Call) and norm(n.value.func) == "set") for n in stores)
    ctx.ob("C11.R2", reg_base, "every response type gets its own handler set (a fresh set per stored entry)", bool(stores) and fresh, f"stores {[norm(n.value)[:40] for n in stores]}: types sharing one set object receive each other's handlers - a call waiting for one type completes with a sibling type's message")
    # the returned remover of add_message_callback removes exactly what was added
    amc = conn.methods.get("add_message_callback")
    if amc is not None:
        rets = [n for n in own_nodes(amc.node) if isinstance(n, ast.Return) and isinstance(n.value, ast.Call)]
        okr = False
        regc = [c for c in own_nodes(amc.node) if isinstance(c, ast.Call) and reg_base in res.callees(amc, c).funcs]
        if len(rets) == 1 and len(regc) == 1 and norm(rets[0].value.func).endswith("partial"):
            cv = res._callable_value(amc, rets[0].value.args[0])
            okr = cv is not None and unreg in cv.funcs and [norm(a) for a in rets[0].value.args[1:]] == [norm(a) for a in regc[0].args]
        ctx.ob("C11.R2", amc, "the returned remover unregisters exactly the registered (callback, types)", okr, "")

    # ------------------------------------------------------------------ R3
    hc = ctx.repo.func("connection", "handle_complex_message")
    gh = cfg_of(ctx, hc)
    appends = [n for n in gh.reachable() if any(isinstance(c.func, ast.Attribute) and c.func.attr == "append" for c in node_calls(n))]
    results = [n for n in gh.reachable() if any(isinstance(c.func, ast.Attribute) and c.func.attr == "set_result" for c in node_calls(n))]
    ctx.require(len(appends) == 1 and len(results) == 1, "collector append / set_result sites not unique")
    app_call = [c for c in node_calls(appends[0]) if isinstance(c.func, ast.Attribute) and c.func.attr == "append"][0]
    res_call = [c for c in node_calls(results[0]) if isinstance(c.func, ast.Attribute) and c.func.attr == "set_result"][0]
    p_list = norm(app_call.func.value)
    p_fut = norm(res_call.func.value)
    p_msg = norm(app_call.args[0]) if app_call.args else "?"
    preds = [p for p in hc.param_names() if p not in (p_list, p_fut, p_msg)]
    ctx.require(len(preds) == 2, f"collector predicates not identified: {preds}")

    def classify(n: Node):
        t = n.ast
        if isinstance(t, ast.Call) and isinstance(t.func, ast.Attribute) and t.func.attr == "done" and norm(t.func.value) == p_fut:
            return ("done", True)
        if isinstance(t, ast.Compare) and len(t.ops) == 1 and isinstance(t.left, ast.Name) and t.left.id in preds and isinstance(t.comparators[0], ast.Constant) and t.comparators[0].value is None:
            return (f"{t.left.id}_absent", isinstance(t.ops[0], (ast.Is, ast.Eq)))
        if isinstance(t, ast.Call) and isinstance(t.func, ast.Name) and t.func.id in preds and [norm(a) for a in t.args] == [p_msg]:
            return (f"{t.func.id}_true", True)
        return None

    # which predicate gates which effect: derive by table, then compare with the specification
    variables = ["done"] + [f"{p}_absent" for p in preds] + [f"{p}_true" for p in preds]
    ta = truth_table(gh, variables, classify, appends)
    tr = truth_table(gh, variables, classify, results)

    def spec(pred: str, vals: tuple[bool, ...]) -> bool:
        d = dict(zip(variables, vals))
        return (not d["done"]) and (d[f"{pred}_absent"] or d[f"{pred}_true"])

    def gated_by(table) -> str | None:
        for p in preds:
            if all(table[v] == ((spec(p, v)), (spec(p, v))) for v in table):
                return p
        return None

    acc = gated_by(ta)
    stp = gated_by(tr)
    ctx.ob("C11.R3", hc, "append iff the future is pending and the accept predicate is absent or true", acc is not None, fmt_table(variables, ta)[:400])
    ctx.ob("C11.R3", hc, "resolve iff the future is pending and the stop predicate is absent or true", stp is not None and stp != acc, fmt_table(variables, tr)[:400])
    ctx.ob("C11.R3", hc, "the appended value is the received message", p_msg in hc.param_names(), f"appends {p_msg}")
    # binding in the request function
    parts = [n for n in own_nodes(cx.node) if isinstance(n, ast.Call) and norm(n.func).endswith("partial") and n.args and (cv := res._callable_value(cx, n.args[0])) is not None and hc in cv.funcs]
    ctx.require(len(parts) >= 1, "partial(handle_complex_message, ...) not found in the request function")
    if len(parts) != 1:
        ctx.ob("C11.R3", cx, "the registered callback has exactly one binding: the collector with future, list, accept and stop bound", False, f"{len(parts)} different collectors are built: {[norm(p_)[:60] for p_ in parts]}")
        return
    bound = dict(zip(hc.param_names(), [norm(a) for a in parts[0].args[1:]]))
    awaited = [norm(a.value) for a in own_nodes(cx.node) if isinstance(a, ast.Await) and isinstance(a.value, ast.Name)]
    rets = [norm(n.value) for n in own_nodes(cx.node) if isinstance(n, ast.Return) and n.value is not None]
    ctx.ob("C11.R3", cx, "collector future is the awaited and registered future", bound.get(p_fut) == fut and fut in awaited, f"bound {bound.get(p_fut)}, registered {fut}, awaited {awaited}")
    ctx.ob("C11.R3", cx, "collector list is the returned list", rets == [bound.get(p_list)], f"bound {bound.get(p_list)}, returns {rets}")
    if acc and stp:
        ctx.ob("C11.R3", cx, "accept predicate bound to the accept slot", bound.get(acc) == "do_append", f"slot {acc} <- {bound.get(acc)}")
        ctx.ob("C11.R3", cx, "stop predicate bound to the stop slot", bound.get(stp) == "do_stop", f"slot {stp} <- {bound.get(stp)}")
    ctx.ob("C11.R3", cx, "the registered callback is that partial", reg_args[0] in [norm(t) for n in own_nodes(cx.node) if isinstance(n, ast.Assign) and n.value is parts[0] for t in n.targets], f"registers {reg_args[0]}")
    # ... on every path: the registered name has no other binding (a second, cheaper handler chosen for some argument
    # combination would bypass the accept / stop predicates)
    binds = [n for n in own_nodes(cx.node) if isinstance(n, (ast.Assign, ast.AnnAssign)) and getattr(n, "value", None) is not None and any(norm(t) == reg_args[0] for t in (n.targets if isinstance(n, ast.Assign) else [n.target]))]
    ctx.ob("C11.R3", cx, "the registered callback has exactly one binding: the collector with future, list, accept and stop bound", len(binds) == 1 and binds[0].value is parts[0] and len(parts[0].args) == 5, f"{[norm(b.value)[:60] for b in binds]}")
    ctx.ob("C11.R3", cx, "registered for the caller's response types", reg_args[1:] == ["msg_types"], f"{reg_args[1:]}")
    sends = [c for n in g.reachable() for c in calls_to(cx, send_keys, n)]
    ctx.ob("C11.R3", cx, "sends the caller's messages exactly once", len(sends) == 1 and [norm(a) for a in sends[0].args] == ["messages"], f"{[norm(c) for c in sends]}")
    # single-response convenience wrapper
    sr = ctx.repo.func("connection", "APIConnection.send_message_await_response")
    cc = [c for c in own_nodes(sr.node) if isinstance(c, ast.Call) and cx in res.callees(sr, c).funcs]
    if len(cc) == 1:
        b = res.bind_args(cx, cc[0])
        ok = norm(b.get("messages")) == "(send_msg,)" and norm(b.get("msg_types")) == "(response_type,)" and norm(b.get("do_append")) == "None" and norm(b.get("do_stop")) == "None" and norm(b.get("timeout")) == "timeout"
        ctx.ob("C11.R3", sr, "single-response call: one request, one response type, first response ends it", ok, f"{ {k: norm(v) for k, v in b.items()} }")

    # ------------------------------------------------------------------ R4
    ht = ctx.repo.func("connection", "handle_timeout")
    gt = cfg_of(ctx, ht)
    sx = [n for n in gt.reachable() if any(isinstance(c.func, ast.Attribute) and c.func.attr == "set_exception" for c in node_calls(n))]
    ctx.require(len(sx) == 1, "handle_timeout: set_exception site not unique")
    p0 = ht.param_names()[0]

    def classify_t(n: Node):
        t = n.ast
        if isinstance(t, ast.Call) and isinstance(t.func, ast.Attribute) and t.func.attr == "done" and norm(t.func.value) == p0:
            return ("done", True)
        return None

    tt = truth_table(gt, ["done"], classify_t, sx)
    ctx.ob("C11.R4", ht, "timeout acts only on a pending future, and then always", tt[(False,)] == (True, True) and tt[(True,)][0] is False, fmt_table(["done"], tt))
    c = [c for c in node_calls(sx[0]) if isinstance(c.func, ast.Attribute) and c.func.attr == "set_exception"][0]
    ctx.ob("C11.R4", ht, "timeout sets TimeoutError on its own future", norm(c.func.value) == p0 and c.args and "TimeoutError" in norm(c.args[0]), norm(c))
