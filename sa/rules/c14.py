"""C14 - models mirror the wire schema (enums, field names, converter kinds)."""

from __future__ import annotations

import ast
from dataclasses import dataclass, field
from typing import Any

from ..guard import fmt_table
from ..report import Ctx
from ..schema import Schema, load_schema
from ..src import AnalysisError, ClassInfo, Func, norm, own_nodes, walk_no_nested
from ..sym import EnumVal, Ref, Unknown

EXPLANATION = (
    "Static comparison of model.py with the wire schema (api.proto parsed as text, cross-checked against the descriptor "
    "literal by C13.R2). R1: every model enum is paired with a wire enum by use (converter of a paired field, annotated "
    "command parameter flowing into an enum-typed request field, or same name) and must have exactly the wire values, no "
    "aliases, and wire name = constant prefix + model name. R2: every model dataclass paired with a message (conversion "
    "tables, nested converters, annotated from_pb arguments, name) must have exactly the message's field names. R3: "
    "converter kind matches wire field kind (enum -> that enum's convert/convert_list, float fix only on wire float, "
    "repeated -> list-making converter, message-typed -> converter with dict and message branches for the classes the "
    "property names); shape of APIIntEnum.convert/convert_list, from_pb, __post_init__, from_dict and the float-fix guard. "
    "Decides the table clauses of the property; numeric rounding and value round-trips for all inputs are not decided."
    ' Added: the float conversion is not memoised; model conversions never choose between dictionary entries by truthiness.'
    ' Also: no two fields share the metadata mapping the converter is recorded in.'
)
ASSUMPTIONS = [
    "api.proto text equals the compiled descriptor (decided by C13.R2)",
    "dataclasses semantics: fields are the annotated class attributes in MRO order",
]

# explicit pairings that cannot be derived from tables/annotations/names; one line of reason each
FROZEN_PAIRS = {
    "UserService": ("ListEntitiesServicesResponse", "client.list_entities_services converts messages whose type is ListEntitiesServicesResponse"),
    "BluetoothGATTServices": ("BluetoothGATTGetServicesResponse", "client.bluetooth_gatt_get_services converts the non-error, non-connection responses of that request"),
}
# IntFlag bit sets and foreign code tables are not wire enums (listed, not judged)
NOT_WIRE_ENUMS = {"BluetoothProxyFeature", "BluetoothProxySubscriptionFlag", "VoiceAssistantFeature", "VoiceAssistantSubscriptionFlag", "LightColorCapability", "VoiceAssistantCommandFlag", "BLEConnectionError"}
ROUNDTRIP_ROOTS = ("EntityInfo", "EntityState", "DeviceInfo", "UserService", "UserServiceArg")


@dataclass
class MField:
    name: str
    ann: str
    converter: ast.expr | None
    node: ast.AnnAssign
    owner: str


@dataclass
class Model:
    ci: ClassInfo
    fields: list[MField] = field(default_factory=list)


def schema(ctx: Ctx) -> Schema:
    return ctx.service("schema", lambda: load_schema(ctx.repo))


def is_dataclass(ci: ClassInfo) -> bool:
    for d in ci.node.decorator_list:
        t = norm(d)
        if "dataclass" in t:
            return True
    return False


def model_fields(ctx: Ctx, ci: ClassInfo) -> list[MField]:
    out: dict[str, MField] = {}
    for c in reversed(ctx.repo.mro(ci)):
        for st in c.node.body:
            if isinstance(st, ast.AnnAssign) and isinstance(st.target, ast.Name):
                if "ClassVar" in norm(st.annotation):
                    continue
                conv = None
                if isinstance(st.value, ast.Call):
                    for kw in st.value.keywords:
                        if kw.arg == "converter":
                            conv = kw.value
                        if kw.arg == "metadata" and isinstance(kw.value, ast.Dict):
                            for k, v in zip(kw.value.keys, kw.value.values):
                                if isinstance(k, ast.Constant) and k.value == "converter":
                                    conv = v
                out[st.target.id] = MField(st.target.id, norm(st.annotation), conv, st, c.name)
    return list(out.values())


def run(ctx: Ctx) -> None:
    sc = schema(ctx)
    ctx.repo.module("model")
    models: dict[str, Model] = {}
    for k, ci in ctx.repo.classes.items():
        if ":" in k and ci.module.name == "model" and is_dataclass(ci):
            models[ci.name] = Model(ci, model_fields(ctx, ci))
    pairs = pair_models(ctx, sc, models)
    r2(ctx, sc, models, pairs)
    enum_pairs = r3(ctx, sc, models, pairs)
    r1(ctx, sc, enum_pairs)
    shapes(ctx)


# ------------------------------------------------------------ model pairing
def pair_models(ctx: Ctx, sc: Schema, models: dict[str, Model]) -> dict[str, tuple[str, str]]:
    """model class -> (message name, how it was derived)."""
    pairs: dict[str, tuple[str, str]] = {}
    conflicts: list[str] = []

    def add(model: str, msg: str, how: str) -> None:
        if model not in models or msg not in sc.proto.messages:
            return
        if model in pairs and pairs[model][0] != msg:
            conflicts.append(f"{model}: {pairs[model]} vs ({msg}, {how})")
            return
        pairs.setdefault(model, (msg, how))

    n_table = 0
    for tname in ("SUBSCRIBE_STATES_RESPONSE_TYPES", "LIST_ENTITIES_SERVICES_RESPONSE_TYPES"):
        tab = ctx.sym.resolve_name("model_conversions", tname)
        if not isinstance(tab, dict):
            raise AnalysisError(f"model_conversions.{tname} does not fold to a dict literal")
        for k, v in tab.items():
            if isinstance(k, Ref) and k.kind == "pb" and isinstance(v, Ref) and v.kind == "class":
                add(v.name, k.name, f"table {tname}")
                n_table += 1
            elif isinstance(k, Ref) and v is None:
                continue
            else:
                ctx.ob("C14.R2", f"model_conversions:{tname}", f"{k!r}: {v!r}", False, "table entry is not (api_pb2 class -> model class)")
    ctx.count("C14.R2.tables", n_table, 44, "conversion table entries")

    # from_pb call sites whose argument type is statically evident
    for fn in ctx.repo.all_funcs():
        for n in own_nodes(fn.node):
            if not (isinstance(n, ast.Call) and isinstance(n.func, ast.Attribute) and n.func.attr == "from_pb" and isinstance(n.func.value, ast.Name) and n.args):
                continue
            v = ctx.sym.resolve_name(fn.module.name, n.func.value.id)
            if not (isinstance(v, Ref) and v.kind == "class"):
                continue
            arg = n.args[0]
            if isinstance(arg, ast.Name):
                for p in fn.params():
                    if p.arg == arg.id and isinstance(p.annotation, ast.Name):
                        pv = ctx.sym.resolve_name(fn.module.name, p.annotation.id)
                        if isinstance(pv, Ref) and pv.kind == "pb":
                            add(v.name, pv.name, f"annotated argument of from_pb in {fn.key}")

    def nested() -> None:
        # nested converters follow the wire field type
        for _ in range(4):
            before = len(pairs)
            for mname, (msg, _how) in list(pairs.items()):
                pm = sc.proto.messages[msg]
                wf = {f.name: f for f in pm.fields}
                for f in models[mname].fields:
                    if f.converter is None or f.name not in wf:
                        continue
                    w = wf[f.name]
                    if w.type in sc.proto.messages and isinstance(f.converter, ast.Attribute) and isinstance(f.converter.value, ast.Name):
                        add(f.converter.value.id, w.type, f"nested converter of {mname}.{f.name}")
            if len(pairs) == before:
                break

    nested()
    # name heuristics, then the frozen table (then nested converters of those)
    for mname in models:
        if mname in pairs:
            continue
        if mname in FROZEN_PAIRS:
            add(mname, FROZEN_PAIRS[mname][0], f"frozen: {FROZEN_PAIRS[mname][1]}")
    nested()
    for mname in models:
        if mname in pairs:
            continue
        if mname in sc.proto.messages:
            add(mname, mname, "same name")
        elif f"{mname}Response" in sc.proto.messages:
            add(mname, f"{mname}Response", "name + 'Response'")
    nested()
    for c in conflicts:
        ctx.ob("C14.R2", "model:pairing", c, False, "two derivations pair the model with different messages")
    ctx.analysed["model_pairs"] = {m: f"{w} ({how})" for m, (w, how) in sorted(pairs.items())}
    ctx.analysed["unpaired_models"] = sorted(set(models) - set(pairs))
    return pairs


def r2(ctx: Ctx, sc: Schema, models: dict[str, Model], pairs: dict[str, tuple[str, str]]) -> None:
    ctx.count("C14.R2", len(pairs), 66, "model/message pairs")
    for mname, (msg, how) in sorted(pairs.items()):
        mf = [f.name for f in models[mname].fields]
        wf = sc.proto.messages[msg].field_names()
        missing = [x for x in wf if x not in mf]
        extra = [x for x in mf if x not in wf]
        ctx.ob("C14.R2", f"model:{mname}", f"{mname} <-> {msg}", not missing and not extra, f"wire fields missing in model: {missing}; model fields not on the wire: {extra} [{how}]")
        dup = [x for x in set(mf) if mf.count(x) > 1]
        ctx.ob("C14.R2", f"model:{mname}", f"{mname} field names unique", not dup, f"{dup}")
    # classes that are converted inside the package but have no pairing
    used = set()
    for fn in ctx.repo.all_funcs():
        for n in own_nodes(fn.node):
            if isinstance(n, ast.Attribute) and n.attr in ("from_pb",) and isinstance(n.value, ast.Name):
                v = ctx.sym.resolve_name(fn.module.name, n.value.id)
                if isinstance(v, Ref) and v.kind == "class" and v.name in models:
                    used.add(v.name)
    for u in sorted(used - set(pairs)):
        ctx.ob("C14.R2", f"model:{u}", f"{u} pairing", False, "from_pb is used on this model but no wire message could be paired with it")
    hand = ctx.repo.cls("BluetoothLEAdvertisement")
    fp = hand.methods.get("from_pb")
    if fp is not None:
        wf = set(sc.proto.messages["BluetoothLEAdvertisementResponse"].field_names())
        data_param = fp.param_names()[1] if len(fp.param_names()) > 1 else "data"
        reads = sorted({n.attr for n in own_nodes(fp.node) if isinstance(n, ast.Attribute) and isinstance(n.value, ast.Name) and n.value.id == data_param})
        ctx.ob("C14.R2", fp, "hand-written from_pb reads only wire fields", set(reads) <= wf, f"reads {sorted(set(reads) - wf)} which are not fields of BluetoothLEAdvertisementResponse")
        want = {"address", "rssi", "address_type", "name", "service_uuids", "service_data", "manufacturer_data"}
        ctx.ob("C14.R2", fp, "hand-written from_pb reads every wire field", want <= set(reads), f"never reads {sorted(want - set(reads))}")


# --------------------------------------------------------- converter kinds
def conv_desc(ctx: Ctx, conv: ast.expr | None) -> tuple[str, str]:
    """('enum-convert'|'enum-convert-list'|'float-fix'|'list'|'model-convert-list'|'model-from-pb'|'func'|'none', name)"""
    if conv is None:
        return "none", ""
    if isinstance(conv, ast.Name):
        if conv.id == "list":
            return "list", "list"
        v = ctx.sym.resolve_name("model", conv.id)
        if isinstance(v, Ref) and v.kind == "func" and v.name == "fix_float_single_double_conversion":
            return "float-fix", v.name
        return "func", conv.id
    if isinstance(conv, ast.Attribute) and isinstance(conv.value, ast.Name):
        v = ctx.sym.resolve_name("model", conv.value.id)
        if isinstance(v, Ref) and v.kind == "class":
            if ctx.sym.is_enum_class(v):
                if conv.attr == "convert":
                    return "enum-convert", v.name
                if conv.attr == "convert_list":
                    return "enum-convert-list", v.name
            else:
                if conv.attr == "convert_list":
                    return "model-convert-list", v.name
                if conv.attr == "from_pb":
                    return "model-from-pb", v.name
    return "func", norm(conv)


def r3(ctx: Ctx, sc: Schema, models: dict[str, Model], pairs: dict[str, tuple[str, str]]) -> dict[str, set[tuple[str, str]]]:
    enum_pairs: dict[str, set[tuple[str, str]]] = {}
    n = 0
    for mname, (msg, how) in sorted(pairs.items()):
        wf = {f.name: f for f in sc.proto.messages[msg].fields}
        roundtrip = any(ctx.repo.is_subclass(mname, r) for r in ROUNDTRIP_ROOTS)
        if "from_pb" in models[mname].ci.methods:
            continue  # hand-written conversion, judged by R2 only
        for f in models[mname].fields:
            w = wf.get(f.name)
            if w is None:
                continue
            kind, cname = conv_desc(ctx, f.converter)
            is_enum = w.type in sc.proto.enums
            is_msg = w.type in sc.proto.messages
            rep = w.label == "repeated"
            where = f"model:{f.owner}"
            tag = f"{f.owner}.{f.name} <- {msg}.{w.name} ({'repeated ' if rep else ''}{w.type})"
            n += 1
            if kind in ("enum-convert", "enum-convert-list"):
                ctx.ob("C14.R3", where, tag, is_enum, f"{cname}.{'convert' if kind == 'enum-convert' else 'convert_list'} applied to a wire field that is not an enum")
                ctx.ob("C14.R3", where, f"{tag} arity", (kind == "enum-convert-list") == rep, "convert on a repeated field / convert_list on a singular field")
                if is_enum:
                    enum_pairs.setdefault(cname, set()).add((w.type, f"converter of {f.owner}.{f.name}"))
            elif kind == "float-fix":
                ctx.ob("C14.R3", where, tag, w.type == "float" and not rep, "single-precision rounding applied to a field that is not a singular wire float")
            elif rep and kind == "none":
                # not judged: a protobuf repeated container compares equal to a list, so a missing
                # list() converter does not by itself break a clause of the property
                ctx.note(f"{tag}: repeated field kept as protobuf container (no converter)")
            if is_msg and roundtrip:
                ctx.ob("C14.R3", where, f"{tag} nested converter", kind in ("model-convert-list", "func"), f"message-typed field needs a converter accepting dicts and messages, has {kind}:{cname}")
                if kind == "model-convert-list":
                    cl = ctx.repo.cls(cname).methods.get("convert_list")
                    ctx.ob("C14.R3", where, f"{cname}.convert_list handles dict and message", cl is not None and _dict_and_pb(cl), "convert_list lacks the isinstance(x, dict) -> from_dict / else -> from_pb split")
                elif kind == "func":
                    fn = ctx.repo.try_func("model", cname)
                    ctx.ob("C14.R3", where, f"{cname} handles dict and message", fn is not None and _has_dict_branch(fn), "converter has no isinstance(value, dict) branch")
    ctx.count("C14.R3", n, 300, "paired fields")
    return enum_pairs


def _dict_and_pb(fn: Func) -> bool:
    has_dict = any(isinstance(n, ast.Call) and norm(n.func) == "isinstance" and len(n.args) == 2 and norm(n.args[1]) == "dict" for n in own_nodes(fn.node))
    calls = {n.func.attr for n in own_nodes(fn.node) if isinstance(n, ast.Call) and isinstance(n.func, ast.Attribute)}
    return has_dict and "from_dict" in calls and "from_pb" in calls


def _has_dict_branch(fn: Func) -> bool:
    return any(isinstance(n, ast.Call) and norm(n.func) == "isinstance" and len(n.args) == 2 and norm(n.args[1]) == "dict" for n in own_nodes(fn.node))


# ------------------------------------------------------------------ enums
def r1(ctx: Ctx, sc: Schema, enum_pairs: dict[str, set[tuple[str, str]]]) -> None:
    model_enums: dict[str, Ref] = {}
    for k, ci in ctx.repo.classes.items():
        if ":" not in k:
            continue
        ref = Ref("class", ci.module.name, ci.name)
        if ctx.sym.is_enum_class(ref) and ci.name != "APIIntEnum" and ci.module.name in ("model", "ble_defs"):
            model_enums[ci.name] = ref
    # pairing by annotated command parameters flowing into enum-typed request fields
    for fn in ctx.repo.funcs_in("client"):
        ann: dict[str, str] = {}
        for p in fn.params():
            if p.annotation is None:
                continue
            for x in ast.walk(p.annotation):
                if isinstance(x, ast.Name):
                    v = ctx.sym.resolve_name("client", x.id)
                    if isinstance(v, Ref) and v.kind == "class" and v.name in model_enums:
                        ann[p.arg] = v.name
        if not ann:
            continue
        req_cls: dict[str, str] = {}
        for n in own_nodes(fn.node):
            if isinstance(n, ast.Call) and isinstance(n.func, ast.Name):
                v = ctx.sym.resolve_name("client", n.func.id)
                if isinstance(v, Ref) and v.kind == "pb" and v.name in sc.proto.messages:
                    wf = {f.name: f for f in sc.proto.messages[v.name].fields}
                    for kw in n.keywords:
                        if kw.arg in wf and isinstance(kw.value, ast.Name) and kw.value.id in ann and wf[kw.arg].type in sc.proto.enums:
                            enum_pairs.setdefault(ann[kw.value.id], set()).add((wf[kw.arg].type, f"parameter {kw.value.id} of {fn.key}"))
            if isinstance(n, ast.Assign) and isinstance(n.value, ast.Call) and isinstance(n.value.func, ast.Name) and len(n.targets) == 1 and isinstance(n.targets[0], ast.Name):
                v = ctx.sym.resolve_name("client", n.value.func.id)
                if isinstance(v, Ref) and v.kind == "pb":
                    req_cls[n.targets[0].id] = v.name
        for n in own_nodes(fn.node):
            if isinstance(n, ast.Assign) and len(n.targets) == 1 and isinstance(n.targets[0], ast.Attribute) and isinstance(n.targets[0].value, ast.Name):
                r = n.targets[0].value.id
                if r in req_cls and isinstance(n.value, ast.Name) and n.value.id in ann and req_cls[r] in sc.proto.messages:
                    wf = {f.name: f for f in sc.proto.messages[req_cls[r]].fields}
                    w = wf.get(n.targets[0].attr)
                    if w is not None and w.type in sc.proto.enums:
                        enum_pairs.setdefault(ann[n.value.id], set()).add((w.type, f"parameter {n.value.id} of {fn.key}"))
    for e in model_enums:
        if e in sc.proto.enums:
            enum_pairs.setdefault(e, set()).add((e, "same name"))

    judged = 0
    listed = []
    for ename, ref in sorted(model_enums.items()):
        ws = enum_pairs.get(ename)
        if not ws:
            if ename in NOT_WIRE_ENUMS:
                listed.append(ename)
                continue
            ctx.ob("C14.R1", f"model:{ename}", f"{ename} pairing", False, "model enum is not paired with any wire enum by use or by name (add it to the wire schema or list it)")
            continue
        wires = {w for w, _ in ws}
        ctx.ob("C14.R1", f"model:{ename}", f"{ename} pairs with one wire enum", len(wires) == 1, f"paired with {sorted(wires)}")
        wname = sorted(wires)[0]
        how = sorted(h for w, h in ws if w == wname)[0]
        judged += 1
        members = ctx.sym.enum_members(ref) or {}
        wire = sc.proto.enums[wname].values
        mvals = {}
        for mn, mv in members.items():
            if isinstance(mv, EnumVal):
                mv = mv.value
            if mv is Unknown or not isinstance(mv, int):
                raise AnalysisError(f"cannot fold value of {ename}.{mn}")
            mvals[mn] = mv
        # aliases
        byval: dict[int, list[str]] = {}
        for mn, mv in mvals.items():
            byval.setdefault(mv, []).append(mn)
        for v, names in sorted(byval.items()):
            if len(names) > 1:
                ctx.ob("C14.R1", f"model:{ename}", f"{ename} value {v} aliases {names}", False, f"two members share value {v}: the later one is an alias and its own wire number is lost [{how}]")
        wvals = {num for _, num in wire}
        ctx.ob("C14.R1", f"model:{ename}", f"{ename} values == {wname} values", set(mvals.values()) == wvals, f"model-only {sorted(set(mvals.values()) - wvals)} wire-only {sorted(wvals - set(mvals.values()))} [{how}]")
        # names: wire = prefix + model, one prefix per enum
        wbynum = {num: n for n, num in wire}
        prefixes: dict[str, int] = {}
        for mn, mv in mvals.items():
            wn = wbynum.get(mv)
            if wn is not None and wn.endswith(mn):
                p = wn[: len(wn) - len(mn)]
                prefixes[p] = prefixes.get(p, 0) + 1
        prefix = max(prefixes, key=lambda p: (prefixes[p], -len(p))) if prefixes else ""
        for mn, mv in mvals.items():
            wn = wbynum.get(mv)
            if wn is None or len(byval[mv]) > 1:
                continue
            ctx.ob("C14.R1", f"model:{ename}", f"{ename}.{mn} = {mv}", wn == prefix + mn, f"wire name for {mv} is {wn}, expected {prefix}{mn} [{how}]")
    ctx.analysed["enum_pairs"] = {e: sorted(f"{w} ({h})" for w, h in ws) for e, ws in sorted(enum_pairs.items())}
    ctx.analysed["listed_not_wire_enums"] = listed
    ctx.count("C14.R1", judged, 29, "model/wire enum pairs")


def _field_enumerator(ctx: Ctx, fn: Func, call: ast.Call) -> str:
    """'' when `call` enumerates the dataclass fields of its argument, else the reason it is not recognised."""
    MEMO = ("cache", "functools.cache", "lru_cache", "functools.lru_cache")

    def is_memo(e: ast.expr) -> bool:
        return norm(e) in MEMO or (isinstance(e, ast.Call) and norm(e.func) in MEMO and not e.args)

    def is_fields(e: ast.expr) -> bool:
        return norm(e) in ("fields", "dataclasses.fields")

    f = call.func
    if len(call.args) != 1 or call.keywords:
        return "expected one argument, the class"
    if is_fields(f):
        return ""
    if not isinstance(f, ast.Name):
        return "enumerator not recognised"
    for st in fn.module.tree.body:
        if isinstance(st, ast.Assign) and any(isinstance(t, ast.Name) and t.id == f.id for t in st.targets):
            v = st.value
            if isinstance(v, ast.Call) and is_memo(v.func) and len(v.args) == 1 and is_fields(v.args[0]):
                return ""
            if is_fields(v):
                return ""
            return f"`{f.id} = {norm(v)[:40]}` is not dataclasses.fields under a cache keyed by the class"
        if isinstance(st, (ast.FunctionDef,)) and st.name == f.id:
            if not all(is_memo(d) for d in st.decorator_list):
                return f"decorators of {f.id}"
            par = [a.arg for a in st.args.args]
            rets = [n for n in ast.walk(st) if isinstance(n, ast.Return)]
            body = [b for b in st.body if not (isinstance(b, ast.Expr) and isinstance(b.value, ast.Constant))]
            ok = len(par) == 1 and len(body) == 1 and len(rets) == 1 and rets[0] is body[0] and isinstance(rets[0].value, ast.Call) and (
                (is_fields(rets[0].value.func) and [norm(a) for a in rets[0].value.args] == par)
                or (norm(rets[0].value.func) == "tuple" and len(rets[0].value.args) == 1 and isinstance(rets[0].value.args[0], ast.Call) and is_fields(rets[0].value.args[0].func) and [norm(a) for a in rets[0].value.args[0].args] == par)
            )
            return "" if ok else f"{f.id}() keeps its own memo: the answer for a class may be that of another (an attribute stored on the class is inherited by its subclasses)"
    return f"{f.id} not found at module level"


# ----------------------------------------------------------------- shapes
def shapes(ctx: Ctx) -> None:
    base = ctx.repo.cls("APIIntEnum")
    conv = base.methods.get("convert")
    ctx.require(conv is not None, "APIIntEnum.convert missing")
    assert conv is not None
    ctx.ob("C14.R3", conv, "convert: cls(value), None on ValueError only", _try_shape(conv, returns_none=True), "convert must return cls(value) and map exactly ValueError to None")
    cl = base.methods.get("convert_list")
    ctx.require(cl is not None, "APIIntEnum.convert_list missing")
    assert cl is not None
    okl, whyl = _convert_list_shape(ctx, cl)
    ctx.ob("C14.R3", cl, "convert_list: skip on ValueError only", okl, f"convert_list must append cls(x) for every element and skip exactly the elements that raise ValueError: {whyl}")

    mb = ctx.repo.cls("APIModelBase")
    fp = mb.methods.get("from_pb")
    ctx.require(fp is not None, "APIModelBase.from_pb missing")
    assert fp is not None
    ok = False
    data = fp.param_names()[1] if len(fp.param_names()) > 1 else "data"
    for n in own_nodes(fp.node):
        if isinstance(n, ast.DictComp) and len(n.generators) == 1 and not n.generators[0].ifs:
            g = n.generators[0]
            tv = norm(g.target)
            ok = (
                norm(n.key) == f"{tv}.name"
                and isinstance(n.value, ast.Call)
                and norm(n.value.func) == "getattr"
                and [norm(a) for a in n.value.args] == [data, f"{tv}.name"]
                and "fields" in norm(g.iter)
                and "cls" in norm(g.iter)
            )
    ctx.ob("C14.R3", fp, "from_pb copies every dataclass field by its own name", ok, "expected {f.name: getattr(data, f.name) for f in fields(cls)} with no filter")

    # the field list of a model is that of the class asked about: `dataclasses.fields`, called directly or memoised by
    # a cache keyed by the class object.  (A memo kept as a class attribute is inherited: once a base model has been
    # used, its subclasses would be converted with the base's fields only.)
    enum_bad = []
    n_enum = 0
    for m_ in mb.methods.values():
        for n in own_nodes(m_.node):
            it = n.iter if isinstance(n, (ast.For, ast.comprehension)) else None
            if isinstance(it, ast.Call) and "fields" in norm(it.func):
                n_enum += 1
                why = _field_enumerator(ctx, m_, it)
                if why:
                    enum_bad.append(f"{m_.qualname} L{it.lineno} {norm(it)[:40]}: {why}")
    ctx.ob("C14.R3", mb.key if hasattr(mb, "key") else fp, f"the fields of a model are enumerated by dataclasses.fields of that very class ({n_enum} loops)", not enum_bad and n_enum >= 1, f"{enum_bad[:2]}")

    pi = mb.methods.get("__post_init__")
    ctx.require(pi is not None, "APIModelBase.__post_init__ missing")
    assert pi is not None
    loops = [n for n in own_nodes(pi.node) if isinstance(n, ast.For)]
    ok = False
    if len(loops) == 1 and "fields" in norm(loops[0].iter):
        body = loops[0]
        sets = [n for n in walk_no_nested(body) if isinstance(n, ast.Call) and norm(n.func).endswith("__setattr__")]
        ok = len(sets) == 1 and len(sets[0].args) == 3 and isinstance(sets[0].args[2], ast.Call)
        brk = [n for n in walk_no_nested(body) if isinstance(n, (ast.Break, ast.Return))]
        ok = ok and not brk
    ctx.ob("C14.R3", pi, "__post_init__ applies the converter of every field", ok, "expected one loop over all fields storing converter(value), without break/return")

    fd = mb.methods.get("from_dict")
    if fd is not None:
        ok = False
        for n in own_nodes(fd.node):
            if isinstance(n, ast.DictComp) and len(n.generators) == 1:
                g = n.generators[0]
                tv = norm(g.target)
                ok = norm(n.key) == f"{tv}.name" and norm(n.value).endswith(f"[{tv}.name]") and "fields" in norm(g.iter)
        ctx.ob("C14.R3", fd, "from_dict takes every field by its own name", ok, "expected {f.name: data[f.name] for f in fields(cls) ...}")
        # the filter may depend on key PRESENCE and on ignore_missing only - never on the stored value
        # (None, 0, "", [] are legitimate model values and must survive from_dict(to_dict(x)))
        from ..guard import eval_bool_expr
        import itertools as _it

        for n in own_nodes(fd.node):
            if isinstance(n, ast.DictComp) and len(n.generators) == 1:
                g = n.generators[0]
                tv = norm(g.target)
                dparam = [a for a in fd.param_names() if a not in ("cls", "self")][0]

                def cl(node, tv=tv, dparam=dparam):
                    t = node.ast
                    if isinstance(t, ast.Compare) and len(t.ops) == 1 and norm(t.left) == f"{tv}.name" and norm(t.comparators[0]) == dparam:
                        if isinstance(t.ops[0], ast.In):
                            return ("present", True)
                        if isinstance(t.ops[0], ast.NotIn):
                            return ("present", False)
                    if isinstance(t, ast.Name) and t.id == "ignore_missing":
                        return ("ignore_missing", True)
                    return None

                rows = []
                okf = True
                for present, ign in _it.product([False, True], repeat=2):
                    asg = {"present": present, "ignore_missing": ign}
                    vals = [eval_bool_expr(i, asg, cl) for i in g.ifs]
                    v = None if any(x is None for x in vals) else all(vals)
                    want = present or not ign
                    rows.append(f"present={present},ignore_missing={ign}->{v}")
                    okf = okf and (v is want)
                ctx.ob("C14.R3", fd, "from_dict keeps a field iff its key is present (or missing keys are not ignored)", okf, "; ".join(rows) + " (None = the filter depends on the stored value or on something else: a stored None/0/'' would be replaced by the default)")
    td = mb.methods.get("to_dict")
    if td is not None:
        ok = any(isinstance(n, ast.Return) and isinstance(n.value, ast.Call) and norm(n.value.func).endswith("asdict") and [norm(a) for a in n.value.args] == ["self"] for n in own_nodes(td.node))
        ctx.ob("C14.R3", td, "to_dict is asdict(self)", ok, "to_dict no longer returns dataclasses.asdict(self)")

    ff = ctx.repo.func("util", "fix_float_single_double_conversion")
    p = ff.param_names()[0]
    # truth table over {zero, finite}: the value itself is returned (before any arithmetic) iff zero or not finite
    from ..cfg import cfg_of as _cfg_of
    from ..guard import truth_table as _tt

    gff = _cfg_of(ctx, ff)

    def cl_ff(n):
        t = n.ast
        if isinstance(t, ast.Compare) and len(t.ops) == 1 and norm(t.left) == p and isinstance(t.comparators[0], ast.Constant) and t.comparators[0].value == 0 and isinstance(t.ops[0], (ast.Eq, ast.NotEq)):
            return ("zero", isinstance(t.ops[0], ast.Eq))
        if isinstance(t, ast.Name) and t.id == p:
            return ("zero", False)
        if isinstance(t, ast.Call) and norm(t.func).split(".")[-1] == "isfinite" and [norm(a) for a in t.args] == [p]:
            return ("finite", True)
        return None

    same = [n for n in gff.reachable() if isinstance(n.ast, ast.Return) and n.ast.value is not None and norm(n.ast.value) == p]
    rounded = [n for n in gff.reachable() if isinstance(n.ast, ast.Return) and n.ast.value is not None and norm(n.ast.value) != p]
    ts = _tt(gff, ["zero", "finite"], cl_ff, same)
    trd = _tt(gff, ["zero", "finite"], cl_ff, rounded)
    ok = bool(same) and bool(rounded)
    for (z, f), (may, must) in ts.items():
        want = z or not f
        ok = ok and may == want and (not want or must)
    for (z, f), (may, must) in trd.items():
        ok = ok and may == (not z and f)
    ctx.ob("C14.R3", ff, "zero / inf / NaN returned unchanged before rounding", ok, f"unchanged: {fmt_table(['zero', 'finite'], ts)}; rounded: {fmt_table(['zero', 'finite'], trd)}")
    # every field owns its converter: converter_field() records the converter in the metadata mapping it is given, so a
    # mapping shared between two fields (a module-level dict passed as metadata= at both) ends up with the converter
    # of whichever field was declared last - for both
    shared_md = []
    for mn in ("model",):
        for c in ast.walk(ctx.repo.module(mn).tree):
            if isinstance(c, ast.Call) and norm(c.func).split(".")[-1] == "converter_field":
                for k in c.keywords:
                    if k.arg == "metadata" and not isinstance(k.value, ast.Dict) and not (isinstance(k.value, ast.Call) and norm(k.value.func) in ("dict", "copy", "copy.copy")) and not (isinstance(k.value, ast.Call) and isinstance(k.value.func, ast.Attribute) and k.value.func.attr == "copy"):
                        shared_md.append(f"L{c.lineno} metadata={norm(k.value)[:30]}")
    cf_ = ctx.repo.func("model", "converter_field")
    mutates = any(isinstance(n, ast.Assign) and any(isinstance(t, ast.Subscript) and norm(t.value) == "metadata" for t in n.targets) for n in own_nodes(cf_.node))
    ctx.ob("C14.R3", cf_, "no two fields share the metadata mapping the converter is recorded in", not (mutates and shared_md), f"{shared_md[:3]}: converter_field() writes the converter into that very object; every field given the same object gets the converter of the last one")
    # a memoised conversion answers by *equal* key: 0.0 and -0.0 (and 1 and 1.0 and True) are one cache slot, so what a
    # value converts to would depend on which equal value was converted first
    ctx.ob("C14.R3", ff, "the float conversion is a plain function (not memoised)", not ff.node.decorator_list, f"decorators {[norm(d)[:40] for d in ff.node.decorator_list]}: `unchanged` zero / equal values of different type would share one cached answer")
    # presence decides, not truthiness: a conversion that picks between dictionary entries with `or` treats the valid
    # values 0 / False / "" / enum member 0 as missing
    for mf in ctx.repo.funcs_in("model"):
        if mf.name not in ("convert_list", "from_dict", "from_pb", "convert", "__post_init__"):
            continue
        ors = [n for n in own_nodes(mf.node) if isinstance(n, ast.BoolOp) and isinstance(n.op, ast.Or) and any((isinstance(v, ast.Call) and isinstance(v.func, ast.Attribute) and v.func.attr == "get") or isinstance(v, ast.Subscript) for v in n.values[:-1])]
        if ors:
            ctx.ob("C14.R3", mf, "dictionary entries are chosen by key presence, not by truthiness of the value", False, f"{[norm(o)[:60] for o in ors[:2]]}: a present entry whose value is falsy (0, False, '', the zero member of an enum) is replaced by the fallback", node=ors[0])
    consts = [n.value for n in own_nodes(ff.node) if isinstance(n, ast.Constant) and isinstance(n.value, int) and not isinstance(n.value, bool)]
    ctx.ob("C14.R3", ff, "7 significant digits", 7 in consts, f"integer constants in the function: {sorted(set(consts))}")


def _try_shape(fn: Func, returns_none: bool) -> bool:
    tries = [n for n in own_nodes(fn.node) if isinstance(n, ast.Try)]
    if len(tries) != 1:
        return False
    t = tries[0]
    if len(t.handlers) != 1 or t.handlers[0].type is None or norm(t.handlers[0].type) != "ValueError":
        return False
    calls_cls = [n for st in t.body for n in walk_no_nested(st) if isinstance(n, ast.Call) and norm(n.func) == "cls" and len(n.args) == 1]
    if len(calls_cls) != 1:
        return False
    h = t.handlers[0].body
    if returns_none:
        if len(h) == 1 and isinstance(h[0], ast.Return) and (h[0].value is None or norm(h[0].value) == "None") and isinstance(t.body[0], ast.Return):
            return True
        # single-exit form: `v = cls(value)` / `except ValueError: v = None` / `return v` right after the try
        b0 = t.body[0]
        if len(t.body) == 1 and isinstance(b0, ast.Assign) and len(b0.targets) == 1 and isinstance(b0.targets[0], ast.Name) and b0.value is calls_cls[0] and not t.orelse and not t.finalbody:
            v = b0.targets[0].id
            body = [x for x in fn.node.body if not (isinstance(x, ast.Expr) and isinstance(x.value, ast.Constant)) and not (isinstance(x, ast.AnnAssign) and x.value is None)]
            if len(h) == 1 and isinstance(h[0], ast.Assign) and len(h[0].targets) == 1 and norm(h[0].targets[0]) == v and isinstance(h[0].value, ast.Constant) and h[0].value.value is None:
                return len(body) == 2 and body[0] is t and isinstance(body[1], ast.Return) and norm(body[1].value) == v
        return False
    return len(h) == 1 and isinstance(h[0], (ast.Pass, ast.Continue))


def _convert_list_shape(ctx: Ctx, fn: Func) -> tuple[bool, str]:
    """Per element: cls(x) is evaluated under a handler for exactly ValueError that lies INSIDE the loop (the
    handler continues with the next element), the converted value is appended to the returned list on the
    normal path, and nothing else can end the loop early."""
    from ..cfg import cfg_of, node_calls
    from ..guard import walk

    g = cfg_of(ctx, fn)
    params = [p for p in fn.param_names() if p not in ("cls", "self")]
    loops = [n for n in own_nodes(fn.node) if isinstance(n, ast.For)]
    if not loops and params:
        # second accepted idiom: a comprehension over cls.convert (None exactly on ValueError, checked above) that
        # drops exactly the None results
        rets = [r for r in own_nodes(fn.node) if isinstance(r, ast.Return) and isinstance(r.value, ast.ListComp)]
        if len(rets) == 1 and len(rets[0].value.generators) == 1:
            c = rets[0].value
            g0 = c.generators[0]
            if norm(g0.iter) == params[0] and isinstance(g0.target, ast.Name) and len(g0.ifs) == 1 and isinstance(g0.ifs[0], ast.Compare) and len(g0.ifs[0].ops) == 1 and isinstance(g0.ifs[0].ops[0], ast.IsNot) and isinstance(g0.ifs[0].comparators[0], ast.Constant) and g0.ifs[0].comparators[0].value is None:
                l = g0.ifs[0].left
                if isinstance(l, ast.NamedExpr) and norm(l.value) == f"cls.convert({g0.target.id})" and norm(c.elt) == l.target.id:
                    return True, "comprehension over cls.convert dropping None"
        # third idiom: convert every element first, then drop the None results (two comprehensions, the first possibly
        # held in a local)
        if len(rets) == 1 and len(rets[0].value.generators) == 1:
            c = rets[0].value
            g0 = c.generators[0]
            inner = g0.iter
            if isinstance(inner, ast.Name):
                idefs = [n.value for n in own_nodes(fn.node) if isinstance(n, (ast.Assign, ast.AnnAssign)) and n.value is not None and any(isinstance(t, ast.Name) and t.id == inner.id for t in (n.targets if isinstance(n, ast.Assign) else [n.target]))]
                inner = idefs[0] if len(idefs) == 1 else inner
            drops_none = isinstance(g0.target, ast.Name) and norm(c.elt) == g0.target.id and len(g0.ifs) == 1 and norm(g0.ifs[0]) == f"{g0.target.id} is not None" and not g0.is_async
            if drops_none and isinstance(inner, (ast.ListComp, ast.GeneratorExp)) and len(inner.generators) == 1:
                g1 = inner.generators[0]
                if norm(g1.iter) == params[0] and isinstance(g1.target, ast.Name) and not g1.ifs and not g1.is_async and norm(inner.elt) == f"cls.convert({g1.target.id})":
                    return True, "cls.convert over every element, then the None results dropped"
        return False, "expected one loop over the argument (or a comprehension over cls.convert dropping None)"
    if len(loops) != 1 or not params or norm(loops[0].iter) != params[0] or not isinstance(loops[0].target, ast.Name):
        return False, "expected one loop over the argument"
    lp = loops[0]
    x = lp.target.id
    heads = [n for n in g.reachable() if n.kind == "for" and n.ast is lp]
    conv = [n for n in g.reachable() if any(norm(c.func) == "cls" and [norm(a) for a in c.args] == [x] for c in node_calls(n))]
    if len(heads) != 1 or len(conv) != 1:
        return False, f"{len(conv)} conversion site(s) cls({x})"
    head, cn = heads[0], conv[0]
    exc_t = [s_ for l, s_ in cn.succ if l == "exc"]
    if not exc_t or exc_t[0].kind != "dispatch":
        return False, "cls(x) is not inside a try"
    hs = [s_ for l, s_ in exc_t[0].succ if l == "handler"]
    if len(hs) != 1 or hs[0].handler_type.split(".")[-1] != "ValueError":
        return False, f"handlers {[h.handler_type for h in hs]}"
    # the handler goes on with the next element
    after_handler = walk(g, {}, lambda n: None, start=hs[0])
    if head not in after_handler:
        return False, "the ValueError handler leaves the loop: elements after an unknown number are lost"
    # nothing in the handler itself appends or returns
    hbody = {y for t in own_nodes(fn.node) if isinstance(t, ast.Try) for h in t.handlers for st in h.body for y in ast.walk(st)}
    if any(isinstance(y, (ast.Return, ast.Break, ast.Raise)) for y in hbody) or any(isinstance(y, ast.Call) and norm(y.func).split(".")[-1] == "append" for y in hbody):
        return False, "the handler does more than skip"
    # normal path: the converted value is appended to the returned list before the next iteration
    rets = [r for r in own_nodes(fn.node) if isinstance(r, ast.Return) and r.value is not None]
    if len(rets) != 1 or not isinstance(rets[0].value, ast.Name):
        return False, "expected one return of the result list"
    out = rets[0].value.id
    from ..astutil import bound_name

    call = [c for c in node_calls(cn) if norm(c.func) == "cls"][0]
    val = bound_name(fn.node, call)
    apps = [n for n in g.reachable() if any(isinstance(c.func, ast.Attribute) and c.func.attr == "append" and norm(c.func.value) == out and c.args and (c.args[0] is call or (val is not None and norm(c.args[0]) == val)) for c in node_calls(n))]
    if len(apps) != 1:
        return False, f"{len(apps)} append(s) of the converted value to {out}"
    # from the conversion's normal exit the append is unavoidable before the loop head
    nxt = [s_ for l, s_ in cn.succ if l != "exc"]
    if apps[0] is not cn and not (nxt and nxt[0] is apps[0]):
        avoid = walk(g, {}, lambda n: None, start=nxt[0] if nxt else cn, blocked={apps[0]})
        if head in avoid or g.exit in avoid:
            return False, "a converted value can be dropped"
    if any(isinstance(y, (ast.Break, ast.Return)) for b in lp.body for y in ast.walk(b)):
        return False, "the loop can end early"
    return True, "ok"

