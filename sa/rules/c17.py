"""C17 - one converted callback per subscribed message; camera images reassemble per key."""

from __future__ import annotations

import ast
from typing import Any

from ..cfg import Node, cfg_of, node_calls, walk_own
from ..closed import resolver
from ..flow import disjunctive, occurred_before
from ..guard import fmt_table, truth_table, walk
from ..report import Ctx
from ..src import AnalysisError, Func, norm, own_nodes
from ..sym import Ref, Unknown
from .c02 import inline
from .c16 import fold_types

EXPLANATION = (
    "Static rules on the subscription wrappers. R1: for every subscribe_* method the set of message types registered equals "
    "the set the wrapper handles (conversion-table keys plus explicitly tested types; a wrapper's annotated message type "
    "must be the registered type). R2: a disjunctive count of user-callback calls per path: exactly one on every handled "
    "path (zero on the 'image not complete' path), with a value built from that message. R3: camera key discipline - every "
    "access to the per-subscription stream dict uses the current message's key, the chunk is appended before the done test, "
    "on done the joined parts of that key are emitted with that key and the entry is deleted, and the dict is a fresh {} per "
    "subscription. R4: voice assistant - the start answer is a truth table over {connection present, task cancelled, port "
    "is None}; every remover obtained while subscribing is retained by the returned unsubscribe function, which calls each "
    "and cancels a pending start task; other subscribe_* return the remover of their own registration. Arrival-order "
    "behaviour over all streams is not decided."
    ' Added: the unsubscribe function of the voice assistant is located by role and sees the pending start task at call time.'
    " Also: buffered camera chunks are only dropped with their completed image; the start handler's result is never replaced before the answer."
)
ASSUMPTIONS = ["C12 (each message is delivered once to each registered handler)", "C14.R2 (table entries map a message to the model of its type)"]


def run(ctx: Ctx) -> None:
    res = resolver(ctx)
    client = ctx.repo.cls("APIClient")
    conn = ctx.repo.cls("APIConnection")
    cb = "client_callbacks"

    # ------------------------------------------------------------------ R1 / R2 generic wrappers
    n_subs = 0
    for m in client.methods.values():
        if not m.name.startswith("subscribe_"):
            continue
        regs = [c for c in own_nodes(m.node) if isinstance(c, ast.Call) and isinstance(c.func, ast.Attribute) and c.func.attr in ("send_message_callback_response", "add_message_callback") and any(f.cls is conn for f in res.callees(m, c).funcs)]
        for c in regs:
            callee = [f for f in res.callees(m, c).funcs if f.cls is conn][0]
            b = res.bind_args(callee, c)
            types = fold_types(ctx, m, b["msg_types"])
            handler = b["on_message"]
            n_subs += 1
            if types is None:
                ctx.ob("C17.R1", m, f"{m.name}: registered types fold", False, f"{norm(b['msg_types'])}")
                continue
            wrapper, bound = wrapper_of(ctx, m, handler)
            if wrapper is None:
                # the user's callback is registered directly: one call per message by construction (C12)
                ctx.ob("C17.R1", m, f"{m.name}: user callback registered directly for {types}", isinstance(handler, ast.Name) and handler.id in m.param_names() and len(types) == 1, f"handler {norm(handler)[:40]}")
                continue
            handled = handled_types(ctx, wrapper)
            ctx.ob("C17.R1", m, f"{m.name}: registered types = types handled by {wrapper.name}", handled is not None and set(types) == set(handled), f"registered-only {sorted(set(types) - set(handled or []))[:4]} handled-only {sorted(set(handled or []) - set(types))[:4]}")
            if wrapper.name != "_on_voice_assistant_request":  # its two paths are decided by the truth tables of R4
                callback_counts(ctx, wrapper, bound)
    ctx.count("C17.R1", n_subs, 10, "subscription registrations")

    # ------------------------------------------------------------------ R3 camera
    osm = ctx.repo.func(cb, "on_state_msg")
    ps = osm.param_names()
    ctx.require(len(ps) == 3, "on_state_msg signature changed")
    cbp, stream, msgp = ps
    g = cfg_of(ctx, osm)
    key_expr = f"{msgp}.key"
    accesses = []
    for n in own_nodes(osm.node):
        if isinstance(n, ast.Subscript) and norm(n.value) == stream:
            accesses.append(("subscript", n.slice, n))
        if isinstance(n, ast.Call) and isinstance(n.func, ast.Attribute) and norm(n.func.value) == stream and n.args:
            accesses.append((n.func.attr, n.args[0], n))
    ctx.count("C17.R3", len(accesses), 3, "accesses to the image stream dict")
    for kind, k, node in accesses:
        ctx.ob("C17.R3", osm, f"stream {kind} keyed by the current message's key", norm(inline(osm, k)) == key_expr, f"key {norm(inline(osm, k))}", node=node)
    # the list the chunk is appended to is the one stored under that key
    apps = [c for c in own_nodes(osm.node) if isinstance(c, ast.Call) and isinstance(c.func, ast.Attribute) and c.func.attr == "append" and c.args and norm(c.args[0]) == f"{msgp}.data"]
    ctx.ob("C17.R3", osm, "each chunk's data is appended exactly once", len(apps) == 1, f"{len(apps)}")
    # buffered chunks leave the stream only with their completed image: nothing clears, truncates or pops a key's list
    # on the strength of a chunk's content (a "new frame started" heuristic would cut real images that contain the marker)
    parts_names = {norm(c.func.value) for c in apps}
    losers = [f"L{c.lineno} {norm(c)[:40]}" for c in own_nodes(osm.node) if isinstance(c, ast.Call) and isinstance(c.func, ast.Attribute) and c.func.attr in ("clear", "pop", "remove") and (norm(c.func.value) in parts_names or (norm(c.func.value) == stream and c.func.attr == "clear"))]
    losers += [f"L{n.lineno} del {norm(t)[:30]}" for n in own_nodes(osm.node) if isinstance(n, ast.Delete) for t in n.targets if isinstance(t, ast.Subscript) and norm(t.value) in parts_names]
    ctx.ob("C17.R3", osm, "buffered chunks are only ever dropped together with their completed image", not losers, f"{losers[:3]}")
    if len(apps) == 1:
        lst = norm(apps[0].func.value)
        srcs = [n for n in own_nodes(osm.node) if isinstance(n, (ast.Assign, ast.AnnAssign)) and norm(n.targets[0] if isinstance(n, ast.Assign) else n.target) == lst]
        got = any(isinstance(s.value, ast.Call) and norm(s.value.func) == f"{stream}.get" for s in srcs)
        stored = any(isinstance(n, ast.Assign) and isinstance(n.targets[0], ast.Subscript) and norm(n.targets[0].value) == stream and norm(n.value) == lst for n in own_nodes(osm.node))
        ctx.ob("C17.R3", osm, "chunks accumulate in the list stored under the key", got and stored, f"list {lst}: looked up={got} stored on miss={stored}")
        app_nodes = [n for n in g.reachable() if n.ast is not None and any(x is apps[0] for x in walk_own(n.ast))]
        done_conds = [n for n in g.reachable() if n.kind == "cond" and norm(n.ast) == f"{msgp}.done"]
        bf = occurred_before(g, lambda n: ["appended"] if n in app_nodes else [])
        ctx.ob("C17.R3", osm, "chunk appended before the done test (the last chunk belongs to the image)", len(done_conds) == 1 and "appended" in bf.get(done_conds[0], frozenset()), "")
        joins = [c for c in own_nodes(osm.node) if isinstance(c, ast.Call) and isinstance(c.func, ast.Attribute) and c.func.attr == "join"]
        okj = len(joins) == 1 and isinstance(joins[0].func.value, ast.Constant) and joins[0].func.value.value == b"" and [norm(a) for a in joins[0].args] == [lst]
        ctx.ob("C17.R3", osm, "completed image = concatenation of that key's chunks", okj, f"{[norm(j) for j in joins]}")
        dels = [n for n in g.reachable() if n.kind == "stmt" and isinstance(n.ast, ast.Delete) and any(isinstance(t, ast.Subscript) and norm(t.value) == stream for t in n.ast.targets)] + [n for n in g.reachable() if any(isinstance(c.func, ast.Attribute) and c.func.attr == "pop" and norm(c.func.value) == stream for c in node_calls(n))]
        emits = [n for n in g.reachable() if any(isinstance(c.func, ast.Name) and c.func.id == cbp and c.args and isinstance(c.args[0], ast.Call) and norm(c.args[0].func) == "CameraState" for c in node_calls(n))]

        def cl(n: Node):
            if norm(n.ast) == f"{msgp}.done":
                return ("done", True)
            t = n.ast
            if isinstance(t, ast.Compare) and len(t.ops) == 1 and "CameraImageResponse" in norm(t) and isinstance(t.ops[0], (ast.Is, ast.Eq, ast.IsNot, ast.NotEq)):
                return ("is_camera", isinstance(t.ops[0], (ast.Is, ast.Eq)))
            tl = table_lookup_atom(osm, n)
            if tl is not None:
                return ("in_table", tl)
            return None

        td = truth_table(g, ["in_table", "is_camera", "done"], cl, dels)
        te = truth_table(g, ["in_table", "is_camera", "done"], cl, emits)
        want = lambda k: (not k[0]) and k[1] and k[2]  # noqa: E731
        ctx.ob("C17.R3", osm, "finished image: entry deleted exactly when done", bool(dels) and all(td[k] == (want(k), want(k)) for k in td), fmt_table(["in_table", "is_camera", "done"], td)[:300])
        ctx.ob("C17.R3", osm, "finished image: emitted exactly when done", len(emits) == 1 and all(te[k] == (want(k), want(k)) for k in te), fmt_table(["in_table", "is_camera", "done"], te)[:300])
        if len(emits) == 1:
            c = [c for c in node_calls(emits[0]) if isinstance(c.func, ast.Name) and c.func.id == cbp][0]
            kws = {kw.arg: norm(inline(osm, kw.value)) for kw in c.args[0].keywords}
            ctx.ob("C17.R3", osm, "emitted CameraState carries the message's key and the joined data", kws.get("key") == key_expr and kws.get("data") == norm(inline(osm, joins[0])) if joins else False, f"{kws}")
    ss = client.methods["subscribe_states"]
    parts = [c for c in own_nodes(ss.node) if isinstance(c, ast.Call) and norm(c.func).endswith("partial") and c.args and norm(c.args[0]) == "on_state_msg"]
    ctx.ob("C17.R3", ss, "each subscription gets a fresh, empty stream dict and the caller's callback", len(parts) == 1 and [norm(a) for a in parts[0].args[1:]] == [ss.param_names()[1], "{}"], f"{[norm(a) for p in parts for a in p.args[1:]]}")
    # table path: converted with the model the table names, from this message
    tcalls = [c for c in own_nodes(osm.node) if isinstance(c, ast.Call) and isinstance(c.func, ast.Name) and c.func.id == cbp and c.args and isinstance(c.args[0], ast.Call) and norm(c.args[0].func).endswith(".from_pb")]
    okt = False
    if len(tcalls) == 1:
        cls_var = norm(tcalls[0].args[0].func.value)
        src = [n for n in own_nodes(osm.node) if (isinstance(n, ast.NamedExpr) and n.target.id == cls_var) or (isinstance(n, ast.Assign) and any(isinstance(t, ast.Name) and t.id == cls_var for t in n.targets))]
        okt = len(src) == 1 and norm(inline(osm, src[0].value)) in (f"SUBSCRIBE_STATES_RESPONSE_TYPES.get(type({msgp}))",) and [norm(a) for a in tcalls[0].args[0].args] == [msgp]
    ctx.ob("C17.R2", osm, "state message converted with the model its own type maps to", okt, "")

    # ------------------------------------------------------------------ R4 voice assistant
    sva = client.methods["subscribe_voice_assistant"]
    # the completion callback of the start task, located by role: what is registered with add_done_callback inside
    # the subscription (a nested closure today; a private method is the same thing)
    res_ = resolver(ctx) if "resolver" in globals() else None
    if res_ is None:
        from ..closed import resolver as _resolver

        res_ = _resolver(ctx)
    started = None
    for fnn in ctx.repo.funcs_in("client"):
        if fnn.qualname.startswith("APIClient.subscribe_voice_assistant"):
            for c in own_nodes(fnn.node):
                if isinstance(c, ast.Call) and isinstance(c.func, ast.Attribute) and c.func.attr == "add_done_callback" and c.args and "start_task" in norm(c.func.value):
                    cv = res_._callable_value(fnn, c.args[0])
                    if cv is not None and len(cv.funcs) == 1:
                        started = cv.funcs[0]
    ctx.require(started is not None, "completion callback of the voice-assistant start task not found (add_done_callback on start_task)")
    started_name = started.name
    gs = cfg_of(ctx, started)
    fp = [a for a in started.param_names() if a != "self"][0]
    port_var = None
    for n in own_nodes(started.node):
        if isinstance(n, ast.Assign) and norm(n.value) == f"{fp}.result()":
            port_var = norm(n.targets[0])

    if port_var:
        rebinds = [x.lineno for x in own_nodes(started.node) if isinstance(x, (ast.Assign, ast.AugAssign, ast.AnnAssign, ast.NamedExpr)) and any(isinstance(t_, ast.Name) and t_.id == port_var for t_ in (x.targets if isinstance(x, ast.Assign) else [x.target])) and not (isinstance(x, ast.Assign) and norm(x.value) == f"{fp}.result()")]
        ctx.ob("C17.R4", started, "what the start handler returned is what the answer is decided on (never replaced by a default)", not rebinds, f"`{port_var}` reassigned at line(s) {rebinds}: a handler that returned none would be answered with that value instead of the error response")

    def clv(n: Node):
        t = n.ast
        if isinstance(t, ast.Compare) and len(t.ops) == 1 and isinstance(t.comparators[0], ast.Constant) and t.comparators[0].value is None:
            l = norm(t.left)
            pos = isinstance(t.ops[0], (ast.IsNot, ast.NotEq))
            if l == "self._connection":
                return ("conn", pos)
            if port_var and l == port_var:
                return ("port_none", not pos)
        if isinstance(t, ast.Call) and norm(t.func) == f"{fp}.cancelled":
            return ("cancelled", True)
        return None

    sends = {"port": [], "error": []}
    for n in gs.reachable():
        for c in node_calls(n):
            if norm(c.func).endswith("send_message") and c.args and isinstance(c.args[0], ast.Call) and norm(c.args[0].func) == "VoiceAssistantResponse":
                kws = {kw.arg: norm(kw.value) for kw in c.args[0].keywords}
                if kws == {"port": port_var}:
                    sends["port"].append(n)
                elif kws == {"error": "True"}:
                    sends["error"].append(n)
                else:
                    sends.setdefault("other", []).append(n)
    variables = ["conn", "cancelled", "port_none"]
    tp = truth_table(gs, variables, clv, sends["port"])
    te = truth_table(gs, variables, clv, sends["error"])
    wp = lambda k: k[0] and not k[1] and not k[2]  # noqa: E731
    we = lambda k: k[0] and not k[1] and k[2]  # noqa: E731
    ctx.ob("C17.R4", started, "start answered with the port iff connected, not cancelled and a port was returned", len(sends["port"]) == 1 and all(tp[k] == (wp(k), wp(k)) for k in tp) and not sends.get("other"), fmt_table(variables, tp)[:300])
    ctx.ob("C17.R4", started, "start answered with an error iff connected, not cancelled and no port was returned", len(sends["error"]) == 1 and all(te[k] == (we(k), we(k)) for k in te), fmt_table(variables, te)[:300])
    # the result is read only when not cancelled
    res_nodes = [n for n in gs.reachable() if any(norm(c.func) == f"{fp}.result" for c in node_calls(n))]
    tr = truth_table(gs, variables, clv, res_nodes)
    ctx.ob("C17.R4", started, "a cancelled start is never read (no CancelledError out of the done-callback)", all(not tr[k][0] for k in tr if k[1]), "")
    # request handler: start -> start task + done callback; else -> stop(True)
    rq = ctx.repo.func("client", "APIClient.subscribe_voice_assistant._on_voice_assistant_request")
    gr = cfg_of(ctx, rq)

    def clr(n: Node):
        if norm(n.ast).endswith(".start"):
            return ("start", True)
        return None

    hs = [n for n in gr.reachable() if any(isinstance(x, ast.Call) and norm(x.func) == "handle_start" for x in walk_own(n.ast) if n.ast is not None)]
    hp = [n for n in gr.reachable() if any(isinstance(x, ast.Call) and norm(x.func) == "handle_stop" for x in walk_own(n.ast) if n.ast is not None)]
    dc = [n for n in gr.reachable() if any(isinstance(c.func, ast.Attribute) and c.func.attr == "add_done_callback" and [norm(a).split(".")[-1] for a in c.args] == [started_name] for c in node_calls(n))]
    t1 = truth_table(gr, ["start"], clr, hs)
    t2 = truth_table(gr, ["start"], clr, hp)
    t3 = truth_table(gr, ["start"], clr, dc)
    ctx.ob("C17.R4", rq, "start request -> handle_start exactly once, its completion answered", len(hs) == 1 and t1[(True,)] == (True, True) and not t1[(False,)][0] and t3[(True,)] == (True, True), fmt_table(["start"], t1))
    ctx.ob("C17.R4", rq, "stop request -> handle_stop exactly once", len(hp) == 1 and t2[(False,)] == (True, True) and not t2[(True,)][0], fmt_table(["start"], t2))
    # removers
    adds = [c for c in own_nodes(sva.node) if isinstance(c, ast.Call) and isinstance(c.func, ast.Attribute) and c.func.attr == "add_message_callback"]
    appended = [c.args[0] for c in own_nodes(sva.node) if isinstance(c, ast.Call) and isinstance(c.func, ast.Attribute) and c.func.attr == "append" and c.args]
    lists = {norm(c.func.value) for c in own_nodes(sva.node) if isinstance(c, ast.Call) and isinstance(c.func, ast.Attribute) and c.func.attr == "append" and c.args and c.args[0] in adds}
    ctx.count("C17.R4", len(adds), 3, "voice-assistant handler registrations")
    ctx.ob("C17.R4", sva, "every remover obtained while subscribing is retained", all(any(a is x for x in appended) for a in adds) and len(lists) == 1, f"{len(adds)} registrations, {sum(1 for a in adds if any(a is x for x in appended))} retained in {sorted(lists)}")
    # the unsubscribe function is located by role: what subscribe_voice_assistant returns - a nested function (closure
    # over the removers and the pending-start slot) or a method with values bound by partial()
    rets_u = [n for n in own_nodes(sva.node) if isinstance(n, ast.Return) and n.value is not None]
    ctx.require(len(rets_u) == 1, "subscribe_voice_assistant: single return expected")
    rvu = rets_u[0].value
    slot_in_unsub = "start_task"
    bound_map: dict[str, str] = {}
    if isinstance(rvu, ast.Name):
        unsub = next((f for f in ctx.repo.funcs_in("client") if f.qualname == f"APIClient.subscribe_voice_assistant.{rvu.id}"), None)
    elif isinstance(rvu, ast.Call) and norm(rvu.func).split(".")[-1] == "partial" and rvu.args:
        cvu = res._callable_value(sva, rvu.args[0])
        unsub = cvu.funcs[0] if cvu is not None and len(cvu.funcs) == 1 else None
        if unsub is not None:
            ups = [p for p in unsub.param_names() if p != "self"]
            bound_map = {p: norm(a) for p, a in zip(ups, rvu.args[1:])}
            slot_in_unsub = next((p for p, a in bound_map.items() if a == "start_task"), "start_task")
    else:
        unsub = None
    ctx.require(unsub is not None, f"subscribe_voice_assistant: returned unsubscribe function not identified ({norm(rvu)[:50]})")
    by_value = [a for a in bound_map.values() if a == "start_task"]
    ctx.ob("C17.R4", sva, "the unsubscribe function sees the start task that is pending when it is called (the slot is rebound by every start request)", not by_value, "the slot is handed over by value when subscribing - None at that moment: a handler still running at unsubscribe time is not cancelled and answers afterwards")
    lists_u = {next((p for p, a in bound_map.items() if a == l), l) for l in lists}
    loops = [n for n in own_nodes(unsub.node) if isinstance(n, ast.For)]
    oku = len(loops) == 1 and {norm(loops[0].iter)} == lists_u and any(isinstance(c, ast.Call) and isinstance(c.func, ast.Name) and c.func.id == norm(loops[0].target) for b in loops[0].body for c in ast.walk(b))
    ctx.ob("C17.R4", unsub, "unsubscribe calls every retained remover", oku, "")
    # the slot that unsub cancels always holds the task started last: it is written only where a start task is
    # created (a completion callback that clears it would wipe a NEWER task started meanwhile)
    slot_writes = []
    for fnn in ctx.repo.funcs_in("client"):
        if fnn.qualname.startswith("APIClient.subscribe_voice_assistant"):
            for x in own_nodes(fnn.node):
                if isinstance(x, (ast.Assign, ast.AnnAssign)):
                    tg = x.targets if isinstance(x, ast.Assign) else [x.target]
                    if any(isinstance(t, ast.Name) and t.id == "start_task" for t in tg):
                        slot_writes.append((fnn, x))
    bad_sw = [(fnn.qualname, norm(x)[:50]) for fnn, x in slot_writes if not (fnn.qualname == "APIClient.subscribe_voice_assistant" and (x.value is None or (isinstance(x.value, ast.Constant) and x.value.value is None))) and not (isinstance(x.value, ast.Call) and norm(x.value.func).split(".")[-1] in ("create_eager_task", "create_task", "ensure_future"))]
    ctx.ob("C17.R4", sva, "the pending-start slot is only written where a start task is created", not bad_sw and len(slot_writes) >= 2, f"{bad_sw}: with two overlapping start requests the slot would no longer hold the running task and unsub() could not cancel it")
    cancels = [c for c in own_nodes(unsub.node) if isinstance(c, ast.Call) and isinstance(c.func, ast.Attribute) and c.func.attr == "cancel" and norm(c.func.value) == slot_in_unsub]
    ctx.ob("C17.R4", unsub, "unsubscribe cancels a pending start task", len(cancels) == 1, "")
    # ... and nobody else does: a start task cancelled by anything but the unsubscribe function (a newer request, a
    # stop message) completes as cancelled, and the completion callback answers a cancelled start with nothing at all
    other_cancels = []
    for fnn in ctx.repo.funcs_in("client"):
        if fnn.qualname.startswith("APIClient.subscribe_voice_assistant") and fnn is not unsub:
            for c in own_nodes(fnn.node):
                if isinstance(c, ast.Call) and isinstance(c.func, ast.Attribute) and c.func.attr == "cancel" and isinstance(c.func.value, ast.Name) and c.func.value.id == "start_task":
                    other_cancels.append(f"{fnn.qualname} L{c.lineno}")
    ctx.ob("C17.R4", sva, "only the unsubscribe function cancels a start task", not other_cancels, f"{other_cancels}: the cancelled start request is never answered - neither with a port nor with an error")
    us = [c for c in own_nodes(unsub.node) if isinstance(c, ast.Call) and norm(c.func).endswith("send_message") and c.args and isinstance(c.args[0], ast.Call)]
    ctx.ob("C17.R4", unsub, "unsubscribe tells the device (subscribe=False)", len(us) == 1 and {kw.arg: norm(kw.value) for kw in us[0].args[0].keywords} == {"subscribe": "False"} and norm(us[0].args[0].func) == "SubscribeVoiceAssistantRequest", "")
    rets = [n for n in own_nodes(sva.node) if isinstance(n, ast.Return)]
    ctx.ob("C17.R4", sva, "the unsubscribe function is what is returned", len(rets) == 1, f"{[norm(r.value)[:50] for r in rets]}")
    # the request handler is registered after the subscribe request is sent in the same turn (no await in between) - sync function
    ctx.ob("C17.R4", sva, "subscribing is synchronous (nothing can arrive between request and registration)", not sva.is_async and not any(isinstance(n, ast.Await) for n in own_nodes(sva.node)), "")
    # flags: API_AUDIO iff an audio handler is given
    # other subscribe_* that promise a remover return the one from their own registration
    for name in ("subscribe_bluetooth_le_advertisements", "subscribe_bluetooth_le_raw_advertisements"):
        m = client.methods[name]
        from ..astutil import bound_name

        reg = [n for n in own_nodes(m.node) if isinstance(n, ast.Call) and isinstance(n.func, ast.Attribute) and n.func.attr == "send_message_callback_response"]
        rets = [n for n in own_nodes(m.node) if isinstance(n, ast.Return) and isinstance(n.value, ast.Call)]
        okr = False
        if len(reg) == 1 and len(rets) == 1 and norm(rets[0].value.func).endswith("partial") and len(rets[0].value.args) == 2:
            a0, a1 = rets[0].value.args
            rv = bound_name(m.node, reg[0])
            okr = norm(a0) == "self._unsub_bluetooth_advertisements" and (a1 is reg[0] or (rv is not None and isinstance(a1, ast.Name) and a1.id == rv))
        ctx.ob("C17.R4", m, f"{name}: returned unsubscribe wraps the remover of its own registration", okr, "")
    ub = client.methods["_unsub_bluetooth_advertisements"]
    gu = cfg_of(ctx, ub)
    up = ub.param_names()[1]
    un = [n for n in gu.reachable() if any(isinstance(c.func, ast.Name) and c.func.id == up for c in node_calls(n))]

    def clc(n: Node):
        t = n.ast
        if isinstance(t, ast.Compare) and norm(t.left) == "self._connection" and isinstance(t.comparators[0], ast.Constant) and t.comparators[0].value is None:
            return ("conn", isinstance(t.ops[0], (ast.IsNot, ast.NotEq)))
        return None

    tu = truth_table(gu, ["conn"], clc, un)
    ctx.ob("C17.R4", ub, "advertisement unsubscribe removes the handler whenever a connection exists", len(un) == 1 and tu[(True,)] == (True, True), fmt_table(["conn"], tu))
    m = client.methods["subscribe_bluetooth_connections_free"]
    rets = [n for n in own_nodes(m.node) if isinstance(n, ast.Return)]
    ctx.ob("C17.R4", m, "connections-free: returns the remover of its own registration", len(rets) == 1 and isinstance(rets[0].value, ast.Call) and isinstance(rets[0].value.func, ast.Attribute) and rets[0].value.func.attr == "send_message_callback_response", "")


def wrapper_of(ctx: Ctx, fn: Func, handler: ast.expr) -> tuple[Func | None, list[str]]:
    res = resolver(ctx)
    if isinstance(handler, ast.Call) and norm(handler.func).endswith("partial") and handler.args:
        cv = res._callable_value(fn, handler.args[0])
        if cv and len(cv.funcs) == 1:
            return cv.funcs[0], [norm(a) for a in handler.args[1:]]
    if isinstance(handler, ast.Name) and handler.id not in fn.param_names():
        cv = res._callable_value(fn, handler)
        if cv and len(cv.funcs) == 1:
            return cv.funcs[0], []
    return None, []


def handled_types(ctx: Ctx, w: Func) -> list[str] | None:
    """Types a wrapper handles: keys of a conversion table it looks up plus types it tests for; else its
    annotated message type."""
    out: list[str] = []
    for n in own_nodes(w.node):
        if isinstance(n, ast.Call) and isinstance(n.func, ast.Attribute) and n.func.attr == "get" and isinstance(n.func.value, ast.Name):
            v = ctx.sym.resolve_name(w.module.name, n.func.value.id)
            if isinstance(v, dict) and all(isinstance(k, Ref) and k.kind == "pb" for k in v):
                out += [k.name for k in v]
        if isinstance(n, ast.Compare) and isinstance(n.ops[0], (ast.Is, ast.Eq, ast.IsNot, ast.NotEq)):
            v = ctx.sym.eval(n.comparators[0], w.module.name)
            if isinstance(v, Ref) and v.kind == "pb":
                out.append(v.name)
    if out:
        return out
    msg_param = w.params()[-1] if w.params() else None
    if msg_param is not None and isinstance(msg_param.annotation, ast.Name):
        v = ctx.sym.resolve_name(w.module.name, msg_param.annotation.id)
        if isinstance(v, Ref) and v.kind == "pb":
            return [v.name]
    return None


def callback_counts(ctx: Ctx, w: Func, bound: list[str]) -> None:
    """Number of user-callback calls per normal path of a wrapper."""
    res = resolver(ctx)
    g = cfg_of(ctx, w)
    params = w.param_names()
    cands = list(params[:-1])
    if w.parent is not None:
        cands += [p for p in w.parent.param_names() if p != "self"]
    cbs = [p for p in cands if any(isinstance(c, ast.Call) and isinstance(c.func, ast.Name) and c.func.id == p for c in own_nodes(w.node))]
    if not cbs:
        ctx.ob("C17.R2", w, f"{w.name} calls a user callback", False, "no parameter of the wrapper is called")
        return

    def step(n: Node, s: frozenset, label: str):
        if label == "exc":
            return None
        k = sum(1 for c in node_calls(n) if isinstance(c.func, ast.Name) and c.func.id in cbs)
        if k:
            cur = max([int(x[2:]) for x in s if x.startswith("n=")] or [0])
            s = frozenset(x for x in s if not x.startswith("n=")) | {f"n={min(2, cur + k)}"}
        if n.kind == "cond" and n.ast is not None and label in ("true", "false"):
            t = norm(n.ast)
            if t.endswith(".done") or t.endswith(".done()"):
                s = s | {f"done={'T' if label == 'true' else 'F'}"}
            tl = table_lookup_atom(w, n) if w.name == "on_state_msg" else None
            if tl is not None:
                s = s | {f"table={'T' if (label == 'true') == tl else 'F'}"}
            if "CameraImageResponse" in t:
                neg = isinstance(n.ast, ast.Compare) and len(n.ast.ops) == 1 and isinstance(n.ast.ops[0], (ast.IsNot, ast.NotEq))
                s = s | {f"camera={'T' if (label == 'true') != neg else 'F'}"}
        return s

    facts = disjunctive(g, frozenset(), step)
    bad = []
    for s in facts.get(g.exit, frozenset()):
        cnt = max([int(x[2:]) for x in s if x.startswith("n=")] or [0])
        if w.name == "on_state_msg":
            incomplete = "camera=T" in s and "done=F" in s
            unhandled = "table=F" in s and "camera=F" in s
            want = 0 if (incomplete or unhandled) else 1
        else:
            want = 1
        if cnt != want:
            bad.append((sorted(s), cnt, want))
    ctx.ob("C17.R2", w, f"{w.name}: exactly one user callback per handled message", not bad, f"{bad[:2]}")


def table_lookup_atom(fn: Func, n: Node, table: str = "SUBSCRIBE_STATES_RESPONSE_TYPES"):
    """Polarity of a condition that tests the result of `<table>.get(...)` - as a walrus, as a local bound
    first, or as an explicit `is (not) None` comparison.  Returns True/False (found / not found branch = true) or None."""
    from ..astutil import bound_name

    gets = [c for c in own_nodes(fn.node) if isinstance(c, ast.Call) and isinstance(c.func, ast.Attribute) and c.func.attr == "get" and table in norm(c.func.value)]
    if not gets:
        return None
    var = bound_name(fn.node, gets[0])
    t = n.ast
    if isinstance(t, ast.NamedExpr) and t.value is gets[0]:
        return True
    if isinstance(t, ast.Call) and t is gets[0]:
        return True
    if var and isinstance(t, ast.Name) and t.id == var:
        return True
    if var and isinstance(t, ast.Compare) and len(t.ops) == 1 and isinstance(t.left, ast.Name) and t.left.id == var and isinstance(t.comparators[0], ast.Constant) and t.comparators[0].value is None:
        return isinstance(t.ops[0], (ast.IsNot, ast.NotEq))
    return None
