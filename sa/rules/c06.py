"""C06 - sessions only with a compatible, correctly named, authenticated device."""

from __future__ import annotations

import ast
from typing import Any
import copy

from ..astutil import attr_writes, call_arg
from ..cfg import Node, cfg_of, node_calls, walk_own
from ..closed import find_roles, resolver
from ..flow import occurred_before
from ..guard import fmt_table, truth_table, walk
from ..report import Ctx
from ..src import AnalysisError, Func, norm, own_nodes
from ..sym import Inst, Ref, Unknown
from .c02 import inline, inline_except
from .c05 import one_shot

EXPLANATION = (
    "Static rules on the hello/login phase. R1 (must-pass-through): the hello request (and, iff login, the connect request) "
    "is what is sent, all responses of the expected types are collected until the last expected type, the first response "
    "goes to the version/name verdict on every path and, iff login, the next one to the password verdict, before the "
    "keepalive starts and the state becomes CONNECTED. R2: verdict guards - the version comparison is evaluated for every "
    "major number 0..300 and must reject exactly major > 2; the name verdict's guards are a truth table over {name "
    "announced, expected set, names equal}; the password verdict rejects iff invalid_password. R3: error classes "
    "(APIConnectionError exactly, BadNameAPIError carrying the received name, InvalidAuthAPIError). R4: verdict failures "
    "propagate (no handler between verdict and phase wrapper) and every exceptional exit of the phase passes the closer "
    "(with C07.R2 the stop callback cannot fire). Behaviour under response order/chunking is not decided."
    " Added: after the responses arrived nothing ends the exchange before each verdict; R5 the parameter object the verdicts read is the client's live one (bound once, by reference, updated in place); the client passes the caller's login flag through unchanged."
    ' Also: the login flag is never rebound on its way to the exchange.'
)
ASSUMPTIONS = ["C07.R2 (stop callback gated on was-connected)", "C11 (the collector returns the responses in arrival order)"]


def run(ctx: Ctx) -> None:
    res = resolver(ctx)
    roles = find_roles(ctx)
    conn = roles.conn
    hl = conn.methods["_connect_hello_login"]
    ph = conn.methods["_process_hello_resp"]
    pl = conn.methods.get("_process_login_response")  # may have been inlined into the exchange function by a maintainer
    dfc = conn.methods["_do_finish_connect"]
    fin = conn.methods["finish_connection"]
    cx = conn.methods["send_messages_await_response_complex"]
    g = cfg_of(ctx, hl)
    lp = [p for p in hl.param_names() if p != "self"][0]

    # ------------------------------------------------------------------ R1
    def cl(n: Node):
        if isinstance(n.ast, ast.Name) and n.ast.id == lp:
            return ("login", True)
        return None

    hello_nodes = [n for n in g.reachable() if any(ph in res.callees(hl, c).funcs for c in node_calls(n))]
    if pl is not None:
        login_nodes = [n for n in g.reachable() if any(pl in res.callees(hl, c).funcs for c in node_calls(n))]
    else:
        login_nodes = [n for n in g.reachable() if n.kind == "cond" and any(isinstance(x, ast.Attribute) and x.attr == "invalid_password" for x in ast.walk(n.ast))]
    th = truth_table(g, ["login"], cl, hello_nodes)
    tl = truth_table(g, ["login"], cl, login_nodes)
    ctx.ob("C06.R1", hl, "hello response always goes through the version/name verdict", th.get((True,)) == (True, True) and th.get((False,)) == (True, True), fmt_table(["login"], th))
    ctx.ob("C06.R1", hl, "connect response goes through the password verdict iff login", tl.get((True,)) == (True, True) and tl.get((False,), (True, True))[0] is False, fmt_table(["login"], tl))
    # what is sent / collected
    calls = [c for c in own_nodes(hl.node) if isinstance(c, ast.Call) and cx in res.callees(hl, c).funcs]
    ctx.require(len(calls) == 1, "_connect_hello_login: request call not unique")
    # once the responses are in, nothing but the verdicts decides how the phase ends (the specific error, not some
    # other one, is what the caller sees when the device's answer is unacceptable)
    reqn = [n for n in g.reachable() if any(c is calls[0] for c in node_calls(n))]
    for login_v, targets, what in ((True, hello_nodes, "hello verdict"), (False, hello_nodes, "hello verdict"), (True, login_nodes, "password verdict")):
        early = []
        for rn in reqn:
            for lab, s0 in rn.succ:
                if lab == "exc" or s0 in targets:
                    continue
                seen_ = walk(g, {"login": login_v}, cl, start=s0, blocked=set(targets))
                early += [n for n in seen_ if n.kind == "stmt" and isinstance(n.ast, (ast.Raise, ast.Return))]
                if g.exit in seen_ and not any(isinstance(n.ast, ast.Return) for n in seen_ if n.kind == "stmt"):
                    early.append(g.exit)
        ctx.ob("C06.R1", hl, f"after the responses arrived nothing ends the exchange before the {what} (login={login_v})", not early, f"leaves at {[(n.lineno, n.text(50)) for n in early[:3]]}: an unacceptable answer would be reported as some other error, or accepted")
    b = res.bind_args(cx, calls[0])
    msgs_v = _strip_tuple(b.get("messages"))
    types_v = _strip_tuple(b.get("msg_types"))
    ctx.ob("C06.R1", hl, "all responses of the expected types are accepted", norm(b.get("do_append")) == "None", f"do_append = {norm(b.get('do_append'))}")
    # what the request call receives, for login on and off: the statements before the call are folded by a small
    # sequence interpreter (list/tuple displays, append, tuple(), branches on the login flag) - any way of building the
    # two sequences gives the same result
    mk = ctx.repo.func("connection", "_make_hello_request")
    mc = conn.methods["_make_connect_request"]

    def role(e: ast.expr) -> str:
        if isinstance(e, ast.Call):
            fs = res.callees(hl, e).funcs
            if mk in fs:
                return "hello-request"
            if mc in fs:
                return "connect-request"
        v = ctx.sym.eval(e, "connection")
        if isinstance(v, Ref) and v.kind == "pb":
            return v.name
        return f"?{norm(e)[:30]}"

    def fold(login: bool) -> dict[str, Any]:
        env: dict[str, Any] = {}

        def ev(e: ast.expr) -> Any:
            if isinstance(e, (ast.List, ast.Tuple)):
                out: list[Any] = []
                for x in e.elts:
                    if isinstance(x, ast.Starred):
                        v = ev(x.value)
                        if not isinstance(v, list):
                            return None
                        out.extend(v)
                    else:
                        v = ev(x)
                        out.append(v if isinstance(v, str) else role(x))
                return out
            if isinstance(e, ast.Name):
                return env.get(e.id, role(e) if e.id not in env else None)
            if isinstance(e, ast.Call) and norm(e.func) in ("tuple", "list") and len(e.args) == 1:
                return ev(e.args[0])
            if isinstance(e, ast.Subscript) and isinstance(e.slice, (ast.Constant, ast.UnaryOp)):
                base = ev(e.value)
                idx = e.slice.value if isinstance(e.slice, ast.Constant) else (-e.slice.operand.value if isinstance(e.slice.operand, ast.Constant) else None)
                if isinstance(base, list) and isinstance(idx, int) and -len(base) <= idx < len(base):
                    return base[idx]
                return None
            return role(e)

        def run(body: list[ast.stmt]) -> bool:
            for st in body:
                if any(x is calls[0] for x in ast.walk(st)):
                    return True
                if isinstance(st, (ast.Assign, ast.AnnAssign)) and getattr(st, "value", None) is not None:
                    t = st.targets[0] if isinstance(st, ast.Assign) else st.target
                    if isinstance(t, ast.Name):
                        env[t.id] = ev(st.value)
                elif isinstance(st, ast.Expr) and isinstance(st.value, ast.Call) and isinstance(st.value.func, ast.Attribute) and st.value.func.attr == "append" and isinstance(st.value.func.value, ast.Name) and st.value.args:
                    cur = env.get(st.value.func.value.id)
                    if isinstance(cur, list):
                        v = ev(st.value.args[0])
                        cur.append(v if isinstance(v, str) else role(st.value.args[0]))
                elif isinstance(st, ast.If):
                    c_ = cl(type("N", (), {"ast": st.test, "kind": "cond"})())
                    neg_ = False
                    t_ = st.test
                    if c_ is None and isinstance(t_, ast.UnaryOp) and isinstance(t_.op, ast.Not):
                        c_ = cl(type("N", (), {"ast": t_.operand, "kind": "cond"})())
                        neg_ = True
                    if c_ is not None:
                        taken = (login == c_[1]) != neg_
                        if run(st.body if taken else st.orelse):
                            return True
                    # other conditions (debug logging ...) do not build the sequences
            return False

        run(hl.node.body)
        out = {}
        for pname in ("messages", "msg_types"):
            a = b.get(pname)
            out[pname] = ev(a) if a is not None else None
        stop_ = b.get("do_stop")
        if isinstance(stop_, ast.Lambda) and isinstance(stop_.body, ast.Compare) and len(stop_.body.ops) == 1 and isinstance(stop_.body.ops[0], (ast.Is, ast.Eq)) and norm(stop_.body.left) == f"type({stop_.args.args[0].arg})":
            out["stop"] = ev(stop_.body.comparators[0])
        elif isinstance(stop_, ast.Lambda) and isinstance(stop_.body, ast.Call) and norm(stop_.body.func) == "isinstance" and len(stop_.body.args) == 2:
            out["stop"] = ev(stop_.body.args[1])
        else:
            out["stop"] = None
        return out

    seq_t, seq_f = fold(True), fold(False)
    ctx.ob("C06.R1", hl, "the wait ends with the last expected response type", seq_t["stop"] == "ConnectResponse" and seq_f["stop"] == "HelloResponse", f"login: stops at {seq_t['stop']}; no login: stops at {seq_f['stop']}")
    ctx.ob("C06.R1", hl, "first message sent is the hello request", bool(seq_t["messages"]) and bool(seq_f["messages"]) and seq_t["messages"][0] == seq_f["messages"][0] == "hello-request", f"login {seq_t['messages']}, no login {seq_f['messages']}")
    ctx.ob("C06.R1", hl, "first expected response is HelloResponse", bool(seq_t["msg_types"]) and bool(seq_f["msg_types"]) and seq_t["msg_types"][0] == seq_f["msg_types"][0] == "HelloResponse", f"login {seq_t['msg_types']}, no login {seq_f['msg_types']}")
    ctx.ob("C06.R1", hl, "connect request added iff login", seq_t["messages"] == ["hello-request", "connect-request"] and seq_f["messages"] == ["hello-request"], f"login {seq_t['messages']}, no login {seq_f['messages']}")
    ctx.ob("C06.R1", hl, "ConnectResponse added iff login", seq_t["msg_types"] == ["HelloResponse", "ConnectResponse"] and seq_f["msg_types"] == ["HelloResponse"], f"login {seq_t['msg_types']}, no login {seq_f['msg_types']}")
    ctx.note("request sequences are folded up to the request call: the list is complete before it is sent")
    # responses are taken in order
    rv = None
    for n in own_nodes(hl.node):
        if isinstance(n, ast.Assign) and isinstance(n.value, ast.Await) and n.value.value is calls[0]:
            rv = norm(n.targets[0])
    keep = {rv} if rv else set()
    hello_arg = [norm(inline_except(hl, c.args[0], keep)) for n in hello_nodes for c in node_calls(n) if ph in res.callees(hl, c).funcs and c.args]
    if pl is not None:
        login_arg = [norm(inline_except(hl, c.args[0], keep)) for n in login_nodes for c in node_calls(n) if pl in res.callees(hl, c).funcs and c.args]
    else:
        login_arg = [norm(inline_except(hl, x.value, keep)) for n in login_nodes for x in ast.walk(n.ast) if isinstance(x, ast.Attribute) and x.attr == "invalid_password"]
    ctx.ob("C06.R1", hl, "verdicts take the responses in arrival order", hello_arg == [f"{rv}.pop(0)"] and login_arg == [f"{rv}.pop(0)"] and bool(hello_nodes) and bool(login_nodes) and all(h.id < l.id for h in hello_nodes for l in login_nodes), f"hello <- {hello_arg}, login <- {login_arg}")
    # connect request carries the configured password
    mc = conn.methods["_make_connect_request"]
    rets = [n for n in own_nodes(mc.node) if isinstance(n, ast.Return)]
    pw = [r for r in rets if isinstance(r.value, ast.Call) and any(kw.arg == "password" and norm(kw.value) == "self._params.password" for kw in r.value.keywords)]
    ctx.ob("C06.R1", mc, "connect request carries the configured password", len(pw) == 1, f"{[norm(r.value)[:50] for r in rets]}")
    # phase order
    gd = cfg_of(ctx, dfc)
    ev = lambda n: (["verdicts"] if any(hl in res.callees(dfc, c).funcs for c in node_calls(n)) else [])  # noqa: E731
    bd = occurred_before(gd, ev)
    ctx.ob("C06.R1", dfc, "the connect phase cannot complete without the hello/login exchange", "verdicts" in bd.get(gd.exit, frozenset()), "")
    hc = [c for c in own_nodes(dfc.node) if isinstance(c, ast.Call) and hl in res.callees(dfc, c).funcs]
    dp = [p for p in dfc.param_names() if p != "self"][0]
    ctx.ob("C06.R1", dfc, "login flag handed through unchanged", len(hc) == 1 and [norm(a) for a in hc[0].args] == [dp], f"{[norm(a) for c in hc for a in c.args]}")
    fc = [c for c in own_nodes(fin.node) if isinstance(c, ast.Call) and dfc in res.callees(fin, c).funcs]
    fp = [p for p in fin.param_names() if p != "self"][0]
    ctx.ob("C06.R1", fin, "finish_connection hands its login flag through", len(fc) == 1 and [norm(a) for a in fc[0].args] == [fp], f"{[norm(a) for c in fc for a in c.args]}")
    for f_ in (hl, dfc, fin):
        lp_ = [p for p in f_.param_names() if p != "self"][:1]
        rb = [n.lineno for n in own_nodes(f_.node) if isinstance(n, ast.Name) and lp_ and n.id == lp_[0] and isinstance(n.ctx, ast.Store)]
        ctx.ob("C06.R1", f_, f"{f_.name}: the login flag is never rebound", not rb, f"`{lp_[0] if lp_ else '?'}` reassigned at line(s) {rb}: whether the password verdict is awaited no longer follows the caller's request alone")
    # ... and so does the client on top of it: "when login is requested" is the caller's decision alone
    cli = ctx.repo.cls("APIClient")
    cfin = cli.methods["finish_connection"]
    cconn = cli.methods["connect"]
    for outer, inner in ((cfin, fin), (cconn, cfin)):
        lp_ = [p for p in outer.param_names() if p == "login"]
        calls_ = [c for c in own_nodes(outer.node) if isinstance(c, ast.Call) and inner in res.callees(outer, c).funcs]
        passed = [res.bind_args(inner, c).get("login") for c in calls_]
        rebound_ = [n.lineno for n in own_nodes(outer.node) if isinstance(n, ast.Name) and n.id == "login" and isinstance(n.ctx, ast.Store)]
        ctx.ob("C06.R1", outer, f"APIClient.{outer.name} hands the caller's login flag through unchanged", bool(lp_) and len(calls_) == 1 and isinstance(passed[0], ast.Name) and passed[0].id == "login" and not rebound_, f"passes {[norm(p) if p is not None else None for p in passed]}; login reassigned at lines {rebound_}")
    gf = cfg_of(ctx, fin)
    connected = [n for n in gf.reachable() if any(roles.setter in res.callees(fin, c).funcs for c in node_calls(n))]
    bf = occurred_before(gf, lambda n: ["phase-done"] if any(dfc in res.callees(fin, c).funcs for c in node_calls(n)) else [])
    ctx.ob("C06.R1", fin, "CONNECTED only after the verdict phase returned normally", bool(connected) and all("phase-done" in bf.get(n, frozenset()) for n in connected), "")

    # ------------------------------------------------------------------ R2 / R3
    rp = [p for p in ph.param_names() if p != "self"][0]
    gp = cfg_of(ctx, ph)
    raises = [n for n in gp.reachable() if isinstance(n.ast, ast.Raise)]
    by_cls = {}
    for r in raises:
        v = ctx.sym.eval(r.ast.exc.func, "connection") if isinstance(r.ast.exc, ast.Call) else None
        by_cls.setdefault(v.name if isinstance(v, Ref) else "?", []).append(r)
    ctx.ob("C06.R3", ph, "hello verdict raises exactly APIConnectionError (version) and BadNameAPIError (name)", set(by_cls) == {"APIConnectionError", "BadNameAPIError"} and all(len(v) == 1 for v in by_cls.values()), f"{ {k: len(v) for k, v in by_cls.items()} }")
    # version guard
    vconds = [n for n in gp.reachable() if n.kind == "cond" and isinstance(n.ast, ast.Compare) and ("major" in norm(inline(ph, n.ast)))]
    if "APIConnectionError" in by_cls:
        # general form: the condition the version raise hangs on, evaluated over (major, minor) pairs with
        # APIVersion modelled as the ordered pair its dataclass(order=True) comparison uses
        version_guard_general(ctx, ph, gp, rp, by_cls["APIConnectionError"][0])
    elif len(vconds) == 1 and "APIConnectionError" in by_cls:
        c = vconds[0]
        t = copy.deepcopy(c.ast)
        full = inline(ph, t.left)
        is_major = norm(full) in (f"APIVersion({rp}.api_version_major, {rp}.api_version_minor).major", f"{rp}.api_version_major")
        t.left = ast.Name(id="M", ctx=ast.Load())
        ast.fix_missing_locations(t)
        rejected = set()
        for m in range(0, 301):
            v = ctx.sym.eval(t, "connection", {"M": m})
            if v is Unknown:
                raise AnalysisError(f"cannot evaluate version guard {norm(c.ast)}")
            # which edge leads to the raise?
            tgt_true = [s for l, s in c.succ if l == "true"]
            raise_on_true = by_cls["APIConnectionError"][0] in walk(gp, {}, lambda n: None, start=tgt_true[0]) if tgt_true else False
            if bool(v) == raise_on_true:
                rejected.add(m)
        want = set(range(3, 301))
        ctx.ob("C06.R2", ph, "version rejected exactly for major > 2 (evaluated for 0..300)", is_major and rejected == want, f"compares {norm(full)}; rejected majors: {_fmt_set(rejected)}; specified 3..300")
        # nothing else guards the version raise
        tv = truth_table(gp, ["bad"], lambda n: ("bad", True) if n is c and raise_on_true else (("bad", False) if n is c else None), by_cls["APIConnectionError"])
        ctx.ob("C06.R2", ph, "an incompatible version always raises", tv.get((True,)) == (True, True) and tv.get((False,), (True, True))[0] is False, fmt_table(["bad"], tv))
    else:
        ctx.ob("C06.R2", ph, "version guard located", False, f"{len(vconds)} comparisons on the major version")
    # name guard
    name_local = None
    for n in own_nodes(ph.node):
        if isinstance(n, ast.NamedExpr) and norm(n.value) == f"{rp}.name":
            name_local = n.target.id
        if isinstance(n, ast.Assign) and norm(n.value) == f"{rp}.name":
            name_local = norm(n.targets[0])

    def cln(n: Node):
        t = n.ast
        if isinstance(t, ast.NamedExpr):
            t = t.value
        txt = norm(inline(ph, t)) if isinstance(t, ast.expr) else ""
        if txt == f"{rp}.name" or (name_local and norm(n.ast) == name_local):
            return ("announced", True)
        if isinstance(t, ast.Compare) and len(t.ops) == 1 and isinstance(t.ops[0], (ast.Eq, ast.NotEq, ast.Is, ast.IsNot)):
            l, r = norm(inline(ph, t.left)), norm(inline(ph, t.comparators[0]))
            l = l.replace(f"({name_local} := {rp}.name)", f"{rp}.name") if name_local else l
            eq = isinstance(t.ops[0], (ast.Eq, ast.Is))
            names = {l, r}
            nm = {f"{rp}.name"} | ({name_local} if name_local else set())
            if names == {"self._params.expected_name", "None"}:
                return ("expected_set", not eq)
            if "self._params.expected_name" in names and (names - {"self._params.expected_name"}) <= nm:
                return ("names_equal", eq)
        return None

    variables = ["announced", "expected_set", "names_equal"]
    if "BadNameAPIError" in by_cls:
        tn = truth_table(gp, variables, cln, by_cls["BadNameAPIError"])
        ok = True
        for vals, (may, must) in tn.items():
            d = dict(zip(variables, vals))
            spec = d["announced"] and d["expected_set"] and not d["names_equal"]
            ok = ok and may == spec and must == spec
        ctx.ob("C06.R2", ph, "name rejected iff announced, expected configured and different", ok, fmt_table(variables, tn))
        be = by_cls["BadNameAPIError"][0].ast.exc
        second = norm(inline(ph, call_arg(be, 1, "received_name"))) if call_arg(be, 1, "received_name") is not None else None
        ctx.ob("C06.R3", ph, "bad-name error carries the received name", second in (f"{rp}.name", name_local, f"({name_local} := {rp}.name)"), f"second argument {second}")
    # the version check precedes the name check? not required; but api_version must be stored on success
    stores = [n for n in gp.reachable() if n.kind == "stmt" and isinstance(n.ast, ast.Assign) and any(norm(t) == "self.api_version" for t in n.ast.targets)]
    ctx.ob("C06.R2", ph, "negotiated version is recorded on every accepted hello", bool(stores) and gp.exit not in walk(gp, {}, lambda n: None, blocked=set(stores)), "")
    if stores:
        ctx.ob("C06.R2", ph, "the recorded version is the device's (major, minor)", norm(inline(ph, stores[0].ast.value)) == f"APIVersion({rp}.api_version_major, {rp}.api_version_minor)", norm(inline(ph, stores[0].ast.value)))
    # password verdict
    plf = pl if pl is not None else hl
    gl = cfg_of(ctx, plf)
    if pl is not None:
        lpn = [p for p in pl.param_names() if p != "self"][0]
        lr = [n for n in gl.reachable() if isinstance(n.ast, ast.Raise)]
    else:
        lpn = None
        lr = [n for n in gl.reachable() if isinstance(n.ast, ast.Raise) and isinstance(n.ast.exc, ast.Call) and isinstance(ctx.sym.eval(n.ast.exc.func, "connection"), Ref) and ctx.sym.eval(n.ast.exc.func, "connection").name == "InvalidAuthAPIError"]

    def clp(n: Node):
        t = n.ast
        if isinstance(t, ast.Attribute) and t.attr == "invalid_password" and (lpn is None or norm(t.value) == lpn):
            return ("invalid", True)
        if lpn is None:
            return cl(n)
        return None

    if pl is not None:
        tp = truth_table(gl, ["invalid"], clp, lr)
        okp = len(lr) == 1 and tp.get((True,)) == (True, True) and tp.get((False,), (True, True))[0] is False
        txt = fmt_table(["invalid"], tp)
    else:
        tp2 = truth_table(gl, ["login", "invalid"], clp, lr)
        okp = len(lr) == 1 and tp2.get((True, True)) == (True, True) and all(not tp2[k][0] for k in tp2 if k != (True, True))
        txt = fmt_table(["login", "invalid"], tp2)
    ctx.ob("C06.R2", plf, "login rejected iff the device flags the password invalid", okp, txt)
    if lr:
        v = ctx.sym.eval(lr[0].ast.exc.func, "connection") if isinstance(lr[0].ast.exc, ast.Call) else None
        ctx.ob("C06.R3", plf, "invalid password -> InvalidAuthAPIError", isinstance(v, Ref) and v.name == "InvalidAuthAPIError", f"{v!r}")

    # ------------------------------------------------------------------ R4
    for fn in (hl, dfc):
        tries = [n for n in own_nodes(fn.node) if isinstance(n, ast.Try)]
        ctx.ob("C06.R4", fn, "verdict failures propagate (no handler between verdict and phase wrapper)", not tries, f"{len(tries)} try statement(s)")
    one_shot_c06(ctx, roles, fin)
    live_configuration(ctx)
    # the request constants: protocol version the client announces
    hr = ctx.repo.func("connection", "_make_hello_request")
    kws = {kw.arg: ctx.sym.eval(kw.value, "connection") for n in own_nodes(hr.node) if isinstance(n, ast.Call) and norm(n.func) == "HelloRequest" for kw in n.keywords}
    ctx.ob("C06.R1", hr, "hello announces API major 1 with the client info", kws.get("api_version_major") == 1 and "client_info" in kws, f"{ {k: str(v) for k, v in kws.items()} }")


def live_configuration(ctx: Ctx) -> None:
    """"... equal to the expected name whenever one is configured": the verdicts read the connection's parameter
    object, so what the application configures on the client (also between the two connect phases, and on a client
    that reconnects) has to be that very object - bound once on each side, handed over by reference, updated in place."""
    res = resolver(ctx)
    cli = ctx.repo.cls("APIClient")
    conn = ctx.repo.cls("APIConnection")

    def binders(cls_, attr: str):
        return [(f, st, val) for f in ctx.repo.all_funcs() if f.cls is not None and f.cls.key == cls_.key for st, tgt, val in attr_writes(f, attr) if norm(tgt.value) == "self"]

    cattr = None
    ci = conn.methods["__init__"]
    cparams = [p for p in ci.param_names() if p != "self"]
    for f, st, val in binders(conn, "_params"):
        cattr = "_params"
    ctx.require(cattr is not None and bool(cparams), "APIConnection: parameter object attribute not found")
    bw = binders(conn, "_params")
    ctx.ob("C06.R5", conn.methods["__init__"], "the connection binds its parameter object once, in __init__, to the object it was given", len(bw) == 1 and bw[0][0] is ci and isinstance(bw[0][2], ast.Name) and bw[0][2].id == cparams[0], f"{[(f.qualname, norm(v) if v is not None else None) for f, st, v in bw]}")
    made = [(f, c) for f in ctx.repo.all_funcs() if f.cls is not None and f.cls.key == cli.key for c in own_nodes(f.node) if isinstance(c, ast.Call) and any(g.cls is conn and g.name == "__init__" for g in res.callees(f, c).funcs)]
    ctx.ob("C06.R5", "client:APIClient", "connections are created from the client's own parameter object (by reference)", bool(made) and all(call_arg(c, 0, "params") is not None and norm(call_arg(c, 0, "params")) == "self._params" for f, c in made), f"{[(f.qualname, norm(call_arg(c, 0, 'params')) if call_arg(c, 0, 'params') is not None else None) for f, c in made]}")
    cw = binders(cli, "_params")
    ctx.ob("C06.R5", cli.methods["__init__"], "the client binds its parameter object once, in __init__ (later configuration changes update it in place)", bool(cw) and all(f.name == "__init__" for f, st, v in cw), f"rebound in {[f.qualname for f, st, v in cw if f.name != '__init__']}: a connection created earlier keeps checking the old object")
    setters = [f for f in ctx.repo.all_funcs() if f.cls is cli and f.name == "expected_name" and any(norm(d).endswith(".setter") for d in f.node.decorator_list)]
    ctx.ob("C06.R5", "client:APIClient.expected_name", "expected_name setter located", len(setters) == 1, f"{len(setters)}")
    for f in setters:
        vp = [p for p in f.param_names() if p != "self"][0]
        ws = [(st, tgt, val) for st, tgt, val in attr_writes(f) if tgt.attr == "expected_name"]
        ctx.ob("C06.R5", f, "the setter stores the new expected name into the shared parameter object", len(ws) == 1 and norm(ws[0][1].value) == "self._params" and ws[0][2] is not None and norm(ws[0][2]) == vp, f"{[(norm(t), norm(v) if v is not None else None) for st, t, v in ws]}")
    # frozen / copied parameter objects cannot be updated in place
    pcls = ctx.repo.cls("ConnectionParams")
    frozen = any(isinstance(d, ast.Call) and any(k.arg == "frozen" and isinstance(k.value, ast.Constant) and k.value.value for k in d.keywords) for d in pcls.node.decorator_list)
    ctx.ob("C06.R5", "connection:ConnectionParams", "the parameter object is mutable (not a frozen dataclass / tuple)", not frozen and not any(b.split(".")[-1] in ("NamedTuple", "tuple") for b in pcls.base_names), f"bases {pcls.base_names}")


def one_shot_c06(ctx: Ctx, roles, fin: Func) -> None:
    """Every exceptional exit of the phase passes the closer (re-uses C05.R3's analysis under this rule id)."""
    n0 = len(ctx.obligations)
    one_shot(ctx, roles, fin, "SOCKET_OPENED")
    for o in ctx.obligations[n0:]:
        o.rule = "C06.R4"


def _strip_tuple(e: ast.expr | None) -> str | None:
    if isinstance(e, ast.Call) and norm(e.func) == "tuple" and len(e.args) == 1:
        return norm(e.args[0])
    return norm(e) if e is not None else None


def _fmt_set(s: set[int]) -> str:
    if not s:
        return "{}"
    xs = sorted(s)
    return f"{xs[0]}..{xs[-1]} ({len(xs)} values)" if xs == list(range(xs[0], xs[-1] + 1)) else str(xs[:12])


def version_guard_general(ctx: Ctx, ph: Func, gp, rp: str, raise_node: Node) -> None:
    # the cond node with a branch that leads straight (no further test) to the version raise
    cands = []
    for n in gp.reachable():
        if n.kind != "cond":
            continue
        for l, s_ in n.succ:
            if l in ("true", "false"):
                cur = s_
                hops = 0
                while cur is not raise_node and cur.kind in ("stmt", "join") and hops < 8 and len([x for x in cur.succ if x[0] != "exc"]) == 1:
                    cur = [x[1] for x in cur.succ if x[0] != "exc"][0]
                    hops += 1
                if cur is raise_node:
                    cands.append((n, l))
    if len(cands) != 1:
        ctx.ob("C06.R2", ph, "version guard located", False, f"{len(cands)} conditions lead straight to the incompatible-version error")
        return
    c, bad_label = cands[0]
    fields_ok = _apiversion_is_ordered_pair(ctx)
    majors = list(range(0, 301))
    minors = list(range(0, 13)) + [99, 1000]
    wrong = []
    for M in majors:
        for m in minors:
            v = _vval(ctx, ph, c.ast, {f"{rp}.api_version_major": M, f"{rp}.api_version_minor": m}, 0)
            if not isinstance(v, bool):
                raise AnalysisError(f"cannot evaluate version guard {norm(c.ast)} for version {M}.{m}")
            rejected = v == (bad_label == "true")
            if rejected != (M > 2):
                wrong.append(f"{M}.{m} {'rejected' if rejected else 'accepted'}")
    tv = truth_table(gp, ["bad"], lambda n: ("bad", bad_label == "true") if n is c else None, [raise_node])
    ctx.ob("C06.R2", ph, "an incompatible version always raises", tv.get((True,)) == (True, True) and tv.get((False,), (True, True))[0] is False, fmt_table(["bad"], tv))
    ctx.ob("C06.R2", ph, "version rejected exactly for major > 2 (evaluated over major x minor pairs)", fields_ok and not wrong, f"guard {norm(c.ast)}; wrong verdicts: {wrong[:6]}" + ("" if fields_ok else "; APIVersion is not an ordered (major, minor) dataclass"))


def _apiversion_is_ordered_pair(ctx: Ctx) -> bool:
    ci = ctx.repo.try_cls("APIVersion")
    if ci is None:
        return False
    deco = [norm(d) for d in ci.node.decorator_list]
    ordered = any("order=True" in d for d in deco)
    flds = [st.target.id for st in ci.node.body if isinstance(st, ast.AnnAssign) and isinstance(st.target, ast.Name)]
    return ordered and flds == ["major", "minor"]


def _vval(ctx: Ctx, fn: Func, e: ast.expr, env: dict, depth: int):
    """Evaluate an expression over API versions: APIVersion(a, b) is the pair (a, b)."""
    if depth > 10 or e is None:
        return Unknown
    t = norm(e)
    if t in env:
        return env[t]
    if isinstance(e, ast.Constant):
        return e.value
    if isinstance(e, ast.Name):
        assigns = [n for n in own_nodes(fn.node) if isinstance(n, ast.Assign) and any(isinstance(x, ast.Name) and x.id == e.id for x in n.targets)]
        if len(assigns) == 1:
            return _vval(ctx, fn, assigns[0].value, env, depth + 1)
        tab = ctx.sym.table(fn.module.name).get(e.id)
        if tab and tab[0] == "assign" and len(tab[1]) == 1 and tab[1][0] is not None:
            return _vval(ctx, fn, tab[1][0], env, depth + 1)
        v = ctx.sym.resolve_name(fn.module.name, e.id)
        return v if isinstance(v, (int, float)) else Unknown
    if isinstance(e, ast.Call) and norm(e.func).split(".")[-1] == "APIVersion" and len(e.args) == 2 and not e.keywords:
        a, b = _vval(ctx, fn, e.args[0], env, depth + 1), _vval(ctx, fn, e.args[1], env, depth + 1)
        return (a, b) if isinstance(a, int) and isinstance(b, int) else Unknown
    if isinstance(e, ast.Attribute) and e.attr in ("major", "minor"):
        base = _vval(ctx, fn, e.value, env, depth + 1)
        if isinstance(base, tuple) and len(base) == 2:
            return base[0] if e.attr == "major" else base[1]
        return Unknown
    if isinstance(e, ast.Tuple):
        vals = [_vval(ctx, fn, x, env, depth + 1) for x in e.elts]
        return tuple(vals) if all(isinstance(v, int) for v in vals) else Unknown
    if isinstance(e, ast.UnaryOp) and isinstance(e.op, ast.Not):
        v = _vval(ctx, fn, e.operand, env, depth + 1)
        return (not v) if isinstance(v, bool) else Unknown
    if isinstance(e, ast.BoolOp):
        vals = [_vval(ctx, fn, x, env, depth + 1) for x in e.values]
        if not all(isinstance(v, bool) for v in vals):
            return Unknown
        return all(vals) if isinstance(e.op, ast.And) else any(vals)
    if isinstance(e, ast.Compare) and len(e.ops) == 1:
        a, b = _vval(ctx, fn, e.left, env, depth + 1), _vval(ctx, fn, e.comparators[0], env, depth + 1)
        if a is Unknown or b is Unknown or type(a) is not type(b) or isinstance(a, bool):
            return Unknown
        op = e.ops[0]
        table = {ast.Gt: a > b, ast.GtE: a >= b, ast.Lt: a < b, ast.LtE: a <= b, ast.Eq: a == b, ast.NotEq: a != b}
        return table.get(type(op), Unknown)
    if isinstance(e, ast.BinOp) and isinstance(e.op, (ast.Add, ast.Sub)):
        a, b = _vval(ctx, fn, e.left, env, depth + 1), _vval(ctx, fn, e.right, env, depth + 1)
        if isinstance(a, int) and isinstance(b, int):
            return a + b if isinstance(e.op, ast.Add) else a - b
    return Unknown

