"""C05 - connection state only moves forward; closed is final; one connect per object."""

from __future__ import annotations

import ast

from ..astutil import attr_writes, is_none
from ..cfg import CFG, Node, cfg_of, node_calls, walk_own
from ..closed import OK, ClosedFlow, find_roles, resolver, state_member
from ..flow import fmt_path, occurred_before, paths_avoiding
from ..guard import walk
from ..report import Ctx
from ..src import AnalysisError, Func, norm, own_nodes, walk_no_nested
from ..sym import EnumVal, Ref, Unknown

EXPLANATION = (
    "Path-sensitive static rules over connection.py under the asyncio execution model of DESIGN.md section 2. "
    "R1: the lifecycle attributes have a single writer (package-wide sweep of every attribute store). "
    "R2: the derived flags are evaluated symbolically for each of the five states. "
    "R3: every non-CLOSED state write has a constant argument, is reachable only from an entry point that starts with a "
    "raise-unless-state-is-P guard with P strictly earlier, the chain INITIALIZED < SOCKET_OPENED < HANDSHAKE_COMPLETE < "
    "CONNECTED is respected, and every exit of a guarded phase either advanced the state or passed through the closer "
    "(one-shot). R4: interprocedural MUST dataflow with summaries (fixpoint over the resolved call graph): at every "
    "non-CLOSED state write the fact 'known not CLOSED since the last primitive suspension point / call that may close and "
    "return' must hold - this enumerates suspension points, not schedules, so it covers same-loop-turn interleavings. "
    "R5: the closer returns at once when CLOSED, otherwise sets CLOSED on every path before any call that can re-enter "
    "the package. Under M1-M5 these clauses are the safety statement of the property."
    " R6: disconnect(), force_disconnect() and report_fatal_error() reach the closer on every normal path, and a transport write error reaches send_messages' reporting handler as a class it catches."
    ' The set of visible states is exactly the five of the statement.'
)
ASSUMPTIONS = [
    "M1-M5 of DESIGN.md section 2 (run-to-completion between suspension points; completion != resumption; eager tasks; registered callbacks are entry points)",
    "library calls (asyncio, socket, logging, protobuf) never synchronously re-enter the package; callable values of unknown origin may",
    "no dynamic attribute writes (setattr/__dict__) on the connection object - their presence in the class is itself reported",
]

ORDER = ["INITIALIZED", "SOCKET_OPENED", "HANDSHAKE_COMPLETE", "CONNECTED"]
LIFECYCLE_ATTRS = ("connection_state", "is_connected", "_handshake_complete")


def flow(ctx: Ctx) -> ClosedFlow:
    return ctx.service("closedflow", lambda: ClosedFlow(ctx))


def run(ctx: Ctx) -> None:
    roles = find_roles(ctx)
    r1(ctx, roles)
    r2(ctx, roles)
    r3(ctx, roles)
    r4(ctx, roles)
    r5(ctx, roles)
    r6(ctx, roles)


# ----------------------------------------------------------------------- R1
def lifecycle_writes(repo_funcs, allowed: set[str]) -> list[tuple[Func, ast.AST, str]]:
    out = []
    for fn in repo_funcs:
        for st, tgt, val in attr_writes(fn):
            if tgt.attr in LIFECYCLE_ATTRS and fn.key not in allowed:
                out.append((fn, st, tgt.attr))
        for n in own_nodes(fn.node):
            if isinstance(n, ast.Call) and norm(n.func) in ("setattr", "object.__setattr__") and len(n.args) >= 2:
                a = n.args[1]
                if isinstance(a, ast.Constant) and a.value in LIFECYCLE_ATTRS and fn.key not in allowed:
                    out.append((fn, n, str(a.value)))
    return out


def r1(ctx: Ctx, roles) -> None:
    init = roles.conn.methods.get("__init__")
    ctx.require(init is not None, "APIConnection.__init__ missing")
    allowed = {init.key, roles.setter.key}
    funcs = ctx.repo.all_funcs()
    n_writes = 0
    for fn in funcs:
        for st, tgt, val in attr_writes(fn):
            if tgt.attr in LIFECYCLE_ATTRS:
                n_writes += 1
    ctx.count("C05.R1", n_writes, 6, "writes of the lifecycle attributes")
    offenders = lifecycle_writes(funcs, allowed)
    for fn, st, attr in offenders:
        ctx.ob("C05.R1", fn, st, False, f"{attr} is written outside __init__ and the state setter {roles.setter.qualname}")
    ctx.ob("C05.R1", "connection:APIConnection", "single writer of connection_state/is_connected/_handshake_complete", not offenders, f"{len(offenders)} foreign writer(s)")
    # dynamic attribute writes inside the class defeat who-may-write rules
    dyn = []
    for m in roles.conn.methods.values():
        for n in own_nodes(m.node):
            if isinstance(n, ast.Call) and norm(n.func) in ("setattr", "object.__setattr__"):
                dyn.append((m, n))
            if isinstance(n, ast.Attribute) and n.attr == "__dict__":
                dyn.append((m, n))
    for m, n in dyn:
        ctx.ob("C05.R1", m, n, False, "dynamic attribute write in APIConnection defeats the single-writer argument")
    # zero-expected rule: prove the matcher still matches a positive example
    import textwrap

    from ..src import Module, Func as F

    snippet = textwrap.dedent(
        """
        class X:
            def force(self):
                self.connection_state = 1
                setattr(self, "is_connected", True)
        """
    )
    tree = ast.parse(snippet)
    fnode = tree.body[0].body[0]  # type: ignore[attr-defined]
    fake = F(roles.setter.module, "X.force", fnode, None)
    hits = lifecycle_writes([fake], set())
    ctx.require(len(hits) == 2, "C05.R1 self-check: the who-may-write matcher no longer matches its positive example")
    # __init__ starts in the initial state with both flags false
    iw = {tgt.attr: val for st, tgt, val in attr_writes(init) if tgt.attr in LIFECYCLE_ATTRS}
    v = state_member(ctx, init, iw.get("connection_state"), roles.state_enum) if "connection_state" in iw else None
    ctx.ob("C05.R1", init, "initial state", v == "INITIALIZED", f"__init__ sets connection_state to {v}")
    for a in ("is_connected", "_handshake_complete"):
        ctx.ob("C05.R1", init, f"initial {a}", a in iw and isinstance(iw[a], ast.Constant) and iw[a].value is False, f"__init__ sets {a} to {norm(iw.get(a))}")


# ----------------------------------------------------------------------- R2
def r2(ctx: Ctx, roles) -> None:
    setter = roles.setter
    p = [q for q in setter.param_names() if q != "self"][0]
    members = ctx.sym.enum_members(Ref("class", "connection", roles.state_enum)) or {}
    same_states = set(ORDER + ["CLOSED"]) == set(members)
    ctx.ob("C05.R2", f"connection:{roles.state_enum}", "the visible states are exactly initialized, socket opened, handshake complete, connected, closed", same_states, f"members {sorted(members)}: the property's state machine has these five states; a further visible state (with its own connected / handshake-complete flags) is a lifecycle the statement does not allow")
    if not same_states:
        return
    writes = {tgt.attr: val for st, tgt, val in attr_writes(setter) if norm(tgt.value) == "self"}
    g = cfg_of(ctx, setter)
    done = occurred_before(g, lambda n: [t.attr for st, t, v in _node_attr_writes(n)])
    at_exit = done.get(g.exit, frozenset())
    for a in LIFECYCLE_ATTRS:
        ctx.ob("C05.R2", setter, f"{a} written on every path", a in at_exit, "the setter has a path that leaves this attribute stale")
    sv = writes.get("connection_state")
    ctx.ob("C05.R2", setter, "connection_state = <parameter>", isinstance(sv, ast.Name) and sv.id == p, f"assigned {norm(sv)}")
    want = {"is_connected": {"CONNECTED"}, "_handshake_complete": {"HANDSHAKE_COMPLETE", "CONNECTED"}}
    for attr, truthy in want.items():
        e = writes.get(attr)
        for mname in ORDER + ["CLOSED"]:
            val = ctx.sym.eval(e, setter.module.name, {p: EnumVal(roles.state_enum, mname, members[mname])}) if e is not None else Unknown
            if val is Unknown:
                # the value may be prepared in locals (and in branches) before it is stored: run the setter's straight-line
                # / if-else body on this state
                val = _run_setter(ctx, setter, {p: EnumVal(roles.state_enum, mname, members[mname])}).get(attr, Unknown)
            if val is Unknown:
                raise AnalysisError(f"cannot evaluate {attr} expression {norm(e)} for state {mname}")
            ctx.ob("C05.R2", setter, f"{attr} @ {mname}", bool(val) == (mname in truthy), f"{norm(e)} evaluates to {val!r}, specified {mname in truthy}")


def _run_setter(ctx: Ctx, setter: Func, env0: dict) -> dict:
    """Final values of the `self.<attr>` stores of a setter whose body is assignments and if/else on foldable tests."""
    env = dict(env0)
    out: dict = {}

    def run(body) -> bool:
        for st in body:
            if isinstance(st, ast.Expr):
                continue  # logging and the like
            if isinstance(st, (ast.Assign, ast.AnnAssign)):
                tgts = st.targets if isinstance(st, ast.Assign) else [st.target]
                if st.value is None:
                    continue
                v = ctx.sym.eval(st.value, setter.module.name, env)
                for t in tgts:
                    if isinstance(t, ast.Name):
                        env[t.id] = v
                    elif isinstance(t, ast.Attribute) and norm(t.value) == "self":
                        out[t.attr] = v
                    else:
                        return False
                continue
            if isinstance(st, ast.If):
                c = ctx.sym.eval(st.test, setter.module.name, env)
                if c is Unknown:
                    # a test the evaluator cannot fold (debug logging, say) must not write what we are after
                    if any(isinstance(x, (ast.Attribute, ast.Name)) and isinstance(x.ctx, ast.Store) for b in st.body + st.orelse for x in ast.walk(b)):
                        return False
                    continue
                if not run(st.body if c else st.orelse):
                    return False
                continue
            if isinstance(st, ast.Return):
                return True
            return False
        return True

    body = [b for b in setter.node.body if not (isinstance(b, ast.Expr) and isinstance(b.value, ast.Constant))]
    if not run(body):
        return {}
    return out


def _node_attr_writes(n: Node):
    if n.ast is None or n.kind != "stmt":
        return []
    out = []
    for x in walk_own(n.ast):
        if isinstance(x, ast.Attribute) and isinstance(x.ctx, ast.Store):
            out.append((n.ast, x, None))
    return out


# ----------------------------------------------------------------------- R3
def entry_guard(ctx: Ctx, roles, fn: Func) -> tuple[str | None, str]:
    """The state P such that fn raises unless state == P, tested before any effect."""
    g = cfg_of(ctx, fn)
    n = g.entry
    seen = 0
    while seen < 6:
        seen += 1
        nxt = [s for l, s in n.succ if l != "exc"]
        if len(nxt) != 1 and n.kind != "cond":
            return None, "entry is not a straight line into a guard"
        if n.kind == "cond":
            t = n.ast
            if isinstance(t, ast.Compare) and len(t.ops) == 1 and isinstance(t.left, ast.Attribute) and t.left.attr == roles.state_attr and norm(t.left.value) == "self":
                mem = state_member(ctx, fn, t.comparators[0], roles.state_enum)
                if mem is None:
                    return None, f"guard compares with non-constant {norm(t.comparators[0])}"
                ne = isinstance(t.ops[0], (ast.IsNot, ast.NotEq))
                eq = isinstance(t.ops[0], (ast.Is, ast.Eq))
                bad_label = "true" if ne else "false" if eq else None
                if bad_label is None:
                    return None, "guard is not an (in)equality"
                bad = [s for l, s in n.succ if l == bad_label]
                if len(bad) == 1 and isinstance(bad[0].ast, ast.Raise):
                    return mem, ""
                return None, "the mismatch branch does not raise"
            # an in-progress marker tested together with the state (`self.X is not None -> raise`): the
            # operand order of the guard is free, step over it along its passing branch
            mk_bad = None
            if isinstance(t, ast.Compare) and len(t.ops) == 1 and isinstance(t.left, ast.Attribute) and norm(t.left.value) == "self" and isinstance(t.comparators[0], ast.Constant) and t.comparators[0].value is None:
                mk_bad = "true" if isinstance(t.ops[0], (ast.IsNot, ast.NotEq)) else "false"
            elif isinstance(t, ast.Attribute) and norm(t.value) == "self":
                mk_bad = "true"
            if mk_bad is not None:
                bad = [s for l, s in n.succ if l == mk_bad]
                good = [s for l, s in n.succ if l not in (mk_bad, "exc")]
                if len(bad) == 1 and isinstance(bad[0].ast, ast.Raise) and len(good) == 1:
                    n = good[0]
                    continue
            return None, f"first test is not a state guard: {norm(t)}"
        if n.kind == "stmt" and not (isinstance(n.ast, ast.Expr) and isinstance(n.ast.value, ast.Constant)):
            return None, f"effect before the guard: {n.text(50)}"
        n = nxt[0]
    return None, "no guard found"


def r3(ctx: Ctx, roles) -> None:
    res = resolver(ctx)
    ctx.count("C05.R3", len(roles.setter_calls), 4, "state-setter call sites")
    # call graph inside the connection class
    callers: dict[str, set[Func]] = {}
    for m in roles.conn.methods.values():
        for n in own_nodes(m.node):
            if isinstance(n, ast.Call):
                for c in res.callees(m, n).funcs:
                    callers.setdefault(c.key, set()).add(m)
    flowobj = flow(ctx)
    per_entry: dict[str, list[str]] = {}
    for fn, call, mem in roles.setter_calls:
        if mem.startswith("?"):
            ctx.ob("C05.R3", fn, call, False, "state-setter argument is not a ConnectionState constant")
            continue
        if mem == "CLOSED":
            continue
        ctx.ob("C05.R3", fn, call, mem != "INITIALIZED", "the initial state must never be re-entered")
        # entry points from which the site is reachable
        seen = {fn.key}
        todo = [fn]
        entries = []
        while todo:
            f = todo.pop()
            cs = callers.get(f.key, set())
            if f.key in flowobj.entry_points or not cs:
                entries.append(f)
            for c in cs:
                if c.key not in seen:
                    seen.add(c.key)
                    todo.append(c)
        for e in entries:
            P, why = entry_guard(ctx, roles, e)
            ok = P is not None and P in ORDER and mem in ORDER and ORDER.index(P) < ORDER.index(mem)
            ctx.ob("C05.R3", fn, f"{norm(call)} reachable from {e.qualname}", ok, f"entry guard of {e.qualname}: {P or why}; a write of {mem} needs a guard on a strictly earlier state")
            per_entry.setdefault(e.key, []).append(mem)
    guards = {}
    for ekey, mems in sorted(per_entry.items()):
        e = ctx.repo.funcs[ekey]
        P, _ = entry_guard(ctx, roles, e)
        guards[e.qualname] = (P, mems)
        if P is not None:
            one_shot(ctx, roles, e, P)
            reentry_closed(ctx, roles, e, P)
    ctx.analysed["phase_guards"] = {k: {"guard": v[0], "sets": v[1]} for k, v in guards.items()}
    # the two public phases chain: start guards INITIALIZED, finish guards exactly what start leaves
    st = guards.get("APIConnection.start_connection")
    fi = guards.get("APIConnection.finish_connection")
    ctx.require(st is not None and fi is not None, "start_connection / finish_connection are no longer the guarded phase entry points")
    ctx.ob("C05.R3", "connection:APIConnection.start_connection", "guard is INITIALIZED", st[0] == "INITIALIZED", f"guard {st[0]}")
    ctx.ob("C05.R3", "connection:APIConnection.finish_connection", "guard is what start_connection leaves", fi[0] == "SOCKET_OPENED" and "SOCKET_OPENED" in st[1], f"finish guards {fi[0]}, start sets {st[1]}")
    ctx.ob("C05.R3", "connection:APIConnection.finish_connection", "ends CONNECTED", "CONNECTED" in fi[1], f"sets {fi[1]}")


def one_shot(ctx: Ctx, roles, e: Func, P: str | None) -> None:
    """Every exit of a guarded phase advanced the state or went through the closer."""
    res = resolver(ctx)
    g = cfg_of(ctx, e)

    def ev(n: Node):
        out = []
        for c in node_calls(n):
            cs = res.callees(e, c)
            if roles.setter in cs.funcs:
                out.append("advanced")
            if roles.closer in cs.funcs:
                out.append("closed")
        return out

    facts = occurred_before(g, ev)
    at_exit = facts.get(g.exit)
    if at_exit is not None:
        ctx.ob("C05.R3", e, "normal exit advanced the state", "advanced" in at_exit or "closed" in at_exit, "a phase can return without leaving its guard state: it could be run twice")
    # exceptional exits whose origin is an await / package call (not the guard's own raise)
    guard_raises = set()
    n = g.entry
    for node in g.nodes:
        if node.kind == "cond" and isinstance(node.ast, ast.Compare) and roles.state_attr in norm(node.ast):
            for l, s in node.succ:
                if isinstance(s.ast, ast.Raise):
                    guard_raises.add(s)
    risky_sources = [x for x in g.reachable() if x not in guard_raises and any(l == "exc" for l, _ in x.succ) and (_risky(ctx, e, x) or isinstance(x.ast, ast.Raise))]

    def closes(x: Node) -> bool:
        return "closed" in ev(x)

    for src in risky_sources:
        if "closed" in facts.get(src, frozenset()) or closes(src):
            continue  # an exception out of the closer itself: CLOSED is set before anything that can raise (R5)
        path = paths_avoiding(g, src, {g.raise_exit}, closes, follow=lambda a, l, b: not (a is src and l != "exc"))
        if path is not None:
            ctx.ob("C05.R3", e, f"exceptional exit from {src.text(50)} passes the closer", False, "an exception can leave the phase with the guard state intact and nothing released", path=fmt_path(path))
            return
    ctx.ob("C05.R3", e, "every exceptional exit passes the closer", True, "")


def reentry_closed(ctx: Ctx, roles, e: Func, P: str) -> None:
    """The one-shot guard must already refuse a second caller when the phase first loses control:
    between the guard and the first suspension point either the state leaves P or an in-progress
    marker that the guard also tests (`self.X is not None -> raise`) is set.  Otherwise two
    overlapping calls both pass the guard: two connect attempts on one object."""
    from ..effects import effects

    eff = effects(ctx)
    res = resolver(ctx)
    g = cfg_of(ctx, e)
    # the guard's raise node and the marker attributes tested together with the state
    raise_nodes = set()
    for node in g.nodes:
        if node.kind == "cond" and isinstance(node.ast, ast.Compare) and isinstance(node.ast.left, ast.Attribute) and node.ast.left.attr == roles.state_attr:
            for l, s_ in node.succ:
                if isinstance(s_.ast, ast.Raise):
                    raise_nodes.add(s_)
    markers = set()
    for node in g.nodes:
        if node.kind != "cond":
            continue
        t = node.ast
        attr = None
        bad = None
        if isinstance(t, ast.Compare) and len(t.ops) == 1 and isinstance(t.left, ast.Attribute) and norm(t.left.value) == "self" and isinstance(t.comparators[0], ast.Constant) and t.comparators[0].value is None:
            attr = t.left.attr
            bad = "true" if isinstance(t.ops[0], (ast.IsNot, ast.NotEq)) else "false"
        elif isinstance(t, ast.Attribute) and norm(t.value) == "self":
            attr, bad = t.attr, "true"
        if attr and any(l == bad and s_ in raise_nodes for l, s_ in node.succ):
            markers.add(attr)

    def sets_marker(fn: Func, n: Node, depth: int = 0) -> bool:
        if n.kind == "stmt" and isinstance(n.ast, (ast.Assign, ast.AnnAssign)):
            tg = n.ast.targets if isinstance(n.ast, ast.Assign) else [n.ast.target]
            v = n.ast.value
            if any(isinstance(t, ast.Attribute) and norm(t.value) == "self" and t.attr in markers for t in tg) and v is not None and not (isinstance(v, ast.Constant) and v.value is None):
                return True
        return False

    def gk(n: Node, f: frozenset, label: str) -> frozenset:
        if label == "exc":
            return f
        if sets_marker(e, n):
            return f | {"closed-to-reentry"}
        for c in node_calls(n):
            cs = res.callees(e, c).funcs
            if roles.setter in cs or roles.closer in cs:
                return f | {"closed-to-reentry"}
        return f

    from ..cfg import must_forward

    facts = must_forward(g, gk)
    # first suspension points: reachable from the entry without passing another suspension point
    firsts = []
    seen = {g.entry}
    todo = [g.entry]
    while todo:
        n = todo.pop()
        if n is not g.entry and eff.node_suspends(e, n):
            firsts.append(n)
            continue
        for l, s_ in n.succ:
            if l == "exc" or s_ in seen:
                continue
            seen.add(s_)
            todo.append(s_)
    bad = [n for n in firsts if "closed-to-reentry" not in facts.get(n, frozenset())]
    ctx.ob(
        "C05.R3", e, "the one-shot guard refuses a second caller before the phase first suspends", bool(firsts) and not bad,
        f"guard state {P}, in-progress markers tested by the guard: {sorted(markers) or 'none'}; at {[n.text(50) for n in bad[:2]]} control is lost while a second call would still pass the guard: "
        "two overlapping calls run two connect attempts on one connection object",
    )


def _risky(ctx: Ctx, fn: Func, n: Node) -> bool:
    from ..effects import effects

    return effects(ctx).node_raises(fn, n)


# ----------------------------------------------------------------------- R4
def r4(ctx: Ctx, roles) -> None:
    f = flow(ctx)
    n = 0
    for fn, call, mem in roles.setter_calls:
        if mem == "CLOSED":
            continue
        n += 1
        fact = f.fact_at(fn, call)
        ctx.ob("C05.R4", fn, call, fact == OK, f"state may already be CLOSED here and would be overwritten: {fact}")
    ctx.count("C05.R4", n, 3, "non-CLOSED state writes")
    ctx.analysed["entry_points"] = len(f.entry_points)
    ctx.analysed["functions_summarised"] = len(f.summary)
    ctx.analysed["may_close_functions"] = sorted(k for k, (a, b) in f.summary.items() if a not in (OK, None) and ("closed by" in a or "may close" in a))[:40]
    ctx.analysed["timer_callbacks_validated_by_cleanup_cancel"] = roles.timer_callbacks


# ----------------------------------------------------------------------- R5
def r5(ctx: Ctx, roles) -> None:
    res = resolver(ctx)
    closer = roles.closer
    g = cfg_of(ctx, closer)
    # (a) immediate return when CLOSED: follow the CLOSED branch of state tests, nothing else may execute
    n = g.entry
    steps = 0
    ok = False
    why = "no early return"
    while steps < 10:
        steps += 1
        if n is g.exit:
            ok = True
            break
        if n.kind == "cond":
            t = n.ast
            if isinstance(t, ast.Compare) and len(t.ops) == 1 and isinstance(t.left, ast.Attribute) and t.left.attr == roles.state_attr:
                mem = state_member(ctx, closer, t.comparators[0], roles.state_enum)
                eq = isinstance(t.ops[0], (ast.Is, ast.Eq))
                truth = (mem == "CLOSED") == eq
                nxt = [s for l, s in n.succ if l == ("true" if truth else "false")]
                if len(nxt) != 1:
                    why = "cannot follow the CLOSED branch"
                    break
                n = nxt[0]
                continue
            why = f"test before the CLOSED guard: {norm(t)}"
            break
        if n.kind == "stmt" and isinstance(n.ast, ast.Return):
            n = g.exit
            continue
        if n.kind == "stmt" and not (isinstance(n.ast, ast.Expr) and isinstance(n.ast.value, ast.Constant)):
            why = f"effect executed although already CLOSED: {n.text(60)}"
            break
        nxt = [s for l, s in n.succ if l != "exc"]
        if len(nxt) != 1:
            break
        n = nxt[0]
    ctx.ob("C05.R5", closer, "returns at once when already CLOSED", ok, why)

    def is_set_closed(x: Node) -> bool:
        for c in node_calls(x):
            if roles.setter in res.callees(closer, c).funcs:
                return True
        return False

    def ev(x: Node):
        out = []
        if is_set_closed(x):
            out.append("closed-set")
        if x.ast is not None and x.kind in ("stmt", "cond"):
            for y in walk_own(x.ast):
                if isinstance(y, ast.Attribute) and y.attr == "is_connected" and isinstance(y.ctx, ast.Load):
                    out.append("read-connected")
        return out

    facts = occurred_before(g, ev)
    setters = [x for x in g.reachable() if is_set_closed(x)]
    ctx.ob("C05.R5", closer, "the closer sets the state to CLOSED", roles.closer_sets_closed and len(setters) >= 1, "no function sets the connection state to CLOSED any more: closing would not be final")
    for s in setters:
        ctx.ob("C05.R5", closer, "is_connected read before CLOSED is set", "read-connected" in facts.get(s, frozenset()), "the stop-callback gate would read the flag after it was cleared")
    # every call that may synchronously re-enter the package happens after CLOSED is set
    n_re = 0
    for x in g.reachable():
        for c in node_calls(x):
            cs = res.callees(closer, c)
            if cs.kind in ("value", "unknown"):
                n_re += 1
                ctx.ob("C05.R5", closer, c, "closed-set" in facts.get(x, frozenset()), "a callable that may re-enter the package runs before CLOSED is set (a re-entrant close would run the cleanup twice)")
    ctx.count("C05.R5", n_re, 1, "re-entrant calls in the closer")
    # past the guard, CLOSED is set on every path to the normal exit
    guard_exit_ok = True
    for l, p in g.exit.pred:
        f = facts.get(p, frozenset()) | frozenset(ev(p))
        if "closed-set" not in f:
            # allowed only for the early return of the guard
            if not (isinstance(p.ast, ast.Return) and any(pp.kind == "cond" and roles.state_attr in norm(pp.ast) for _, pp in p.pred)):
                guard_exit_ok = False
    ctx.ob("C05.R5", closer, "CLOSED set on every path past the guard", guard_exit_ok, "a path through the closer returns without marking the connection CLOSED")


# ----------------------------------------------------------------------- R6
def r6(ctx: Ctx, roles) -> None:
    """"a disconnect or fatal error that has taken effect is never undone" presupposes that it takes effect: the
    three close causes of the public surface - disconnect(), force_disconnect(), report_fatal_error() - reach the
    closer on every normal path, whatever the state and whatever was recorded before (an early return for "nothing
    to tear down yet" or "an error is already recorded" lets a connect phase carry the object on to CONNECTED)."""
    res = resolver(ctx)
    for name in ("disconnect", "force_disconnect", "report_fatal_error"):
        fn = roles.conn.methods.get(name)
        ctx.require(fn is not None, f"APIConnection.{name} missing")
        g = cfg_of(ctx, fn)
        closing = {n for n in g.reachable() if any(roles.closer in res.callees(fn, c).funcs for c in node_calls(n))}
        avoid = walk(g, {}, lambda n: None, blocked=closing) if closing else {g.exit}
        esc = [n for n in avoid if n.kind == "stmt" and isinstance(n.ast, ast.Return)]
        ctx.ob("C05.R6", fn, f"{name}() reaches the closer on every normal path", bool(closing) and g.exit not in avoid, f"can return without closing at {[(n.lineno, n.text(40)) for n in esc[:3]] or 'the end of the function'}: the close request is dropped and a connect phase in flight carries the object on")
    from .c09 import write_path_unconverted

    write_path_unconverted(ctx, "C05.R6")
