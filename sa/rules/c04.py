"""C04 - encrypted transport fails closed with a specific error; no forged delivery."""

from __future__ import annotations

import ast
from typing import Any

from ..astutil import attr_writes, call_arg
from ..cfg import Node, cfg_of, node_calls, walk_own
from ..closed import resolver
from ..flow import fmt_path, occurred_before, paths_avoiding
from ..guard import fmt_table, truth_table, walk
from ..report import Ctx
from ..src import AnalysisError, Func, norm, own_nodes
from ..sym import Ref, Unknown
from .c02 import inline, nonce_rule

EXPLANATION = (
    "Static error-discipline rules on the frame helpers. R1: each deviation site is located by its guard (not by position) "
    "and the error class it constructs is compared with the specified one (13 sites: wrong marker, empty hello, unknown "
    "protocol byte, name mismatch with the received name, handshake error frame with/without 'Handshake MAC failure', "
    "InvalidTag, reset during hello, frame after close, plaintext preamble 0x01 / other, key not base64 / not 32 bytes). "
    "R2: from every detection site the handler leaves without writing a non-CLOSED state, signalling readiness, consuming a "
    "further read or reaching delivery; _handle_error_and_close reports then closes; _handle_error fails the readiness "
    "future and reports the same (mapped) exception on every path; frames after close are reported and never delivered. "
    "R3: the configured key is validated in __init__ before anything can be written. R4: decrypt-side nonce discipline "
    "(advances only after a successful decrypt), shared analysis with C02.R4. That delivered messages are a byte-exact "
    "prefix rests on AEAD authenticity (a cryptographic fact) and is not decided; the static part is that every failed "
    "check stops delivery."
    ' Added: a Noise frame is consumed only after its handler returned; no exit of the READY handler avoids the decrypt; nothing on the report/close path writes the receive buffer; any other error is reported unchanged.'
    ' Also: reporting an error cannot raise by itself (expression totality); a handler that can catch InvalidTag keeps its mapping to the invalid-key error.'
)
ASSUMPTIONS = ["AEAD decrypt raises InvalidTag for any altered, replayed or reordered frame given the nonce discipline", "asyncio calls connection_lost with the exception raised by data_received"]


def err_class(ctx: Ctx, fn: Func, e: ast.expr | None) -> str | None:
    if isinstance(e, ast.Call):
        v = ctx.sym.eval(e.func, fn.module.name)
        if isinstance(v, Ref) and v.kind == "class":
            return v.name
    if isinstance(e, ast.Name):
        # local bound to an error constructed on each branch
        return None
    return None


def error_sites(ctx: Ctx, fn: Func) -> list[tuple[ast.If | None, bool, ast.Call | ast.Raise, str | None, ast.expr | None]]:
    """(enclosing If, in-body?, site, constructed class, constructor call) for every report/raise in fn."""
    out = []

    def visit(stmts: list[ast.stmt], encl: ast.If | ast.ExceptHandler | None, in_body: bool) -> None:
        for st in stmts:
            if isinstance(st, ast.If):
                visit(st.body, st, True)
                visit(st.orelse, st, False)
                continue
            if isinstance(st, ast.Try):
                visit(st.body, encl, in_body)
                for h in st.handlers:
                    visit(h.body, h, True)  # type: ignore[arg-type]
                continue
            if isinstance(st, (ast.For, ast.While, ast.With)):
                visit(st.body, encl, in_body)
                continue
            if isinstance(st, ast.Raise) and st.exc is not None:
                out.append((encl, in_body, st, err_class(ctx, fn, st.exc), st.exc))
            for c in [x for x in ast.walk(st) if isinstance(x, ast.Call)]:
                if isinstance(c.func, ast.Attribute) and c.func.attr in ("_handle_error_and_close", "_handle_error") and norm(c.func.value) in ("self", "super()") and c.args:
                    out.append((encl, in_body, c, err_class(ctx, fn, c.args[0]), c.args[0]))
            if isinstance(st, ast.Assign) and isinstance(st.value, ast.Call) and err_class(ctx, fn, st.value) and ctx.repo.is_subclass(err_class(ctx, fn, st.value) or "", "APIConnectionError"):
                out.append((encl, in_body, st.value, err_class(ctx, fn, st.value), st.value))

    visit(fn.node.body, None, True)
    return out


def test_text(fn: Func, encl: Any) -> str:
    if isinstance(encl, ast.If):
        return norm(inline(fn, encl.test))
    if isinstance(encl, ast.ExceptHandler):
        return f"except {norm(encl.type)}"
    return "<unconditional>"


REPORT_FUNCS = ("_handle_error_and_close", "_handle_error")


def reported_under(ctx: Ctx, fn: Func, asg: dict[str, bool], classify, extra_report=None, start: Node | None = None) -> tuple[set[str], bool, bool, list[ast.expr]]:
    """Walk fn's CFG under an assignment of its guard atoms: which error classes are handed to a report call
    (or raised, or to a callee named by extra_report), is a report reachable (may), is it unavoidable (must),
    and the constructor expressions involved.  Errors built into a local on a branch and reported after the
    join are followed through the assignments reachable under the same assignment."""
    g = cfg_of(ctx, fn)
    reach = walk(g, asg, classify, start)
    rep_nodes: list[Node] = []
    exprs: list[ast.expr] = []
    for n in g.reachable():
        if n not in reach or n.ast is None or n.kind not in ("stmt", "cond"):
            continue
        hit = False
        if isinstance(n.ast, ast.Raise) and n.ast.exc is not None:
            exprs.append(n.ast.exc)
            hit = True
        for c in node_calls(n):
            if isinstance(c.func, ast.Attribute) and c.func.attr in REPORT_FUNCS and norm(c.func.value) in ("self", "super()") and c.args:
                exprs.append(c.args[0])
                hit = True
            elif extra_report is not None and extra_report(c):
                hit = True
        if hit:
            rep_nodes.append(n)
    classes: set[str] = set()
    ctors: list[ast.expr] = []

    def add(e: ast.expr, depth: int = 0) -> None:
        k = err_class(ctx, fn, e)
        if k is not None:
            classes.add(k)
            ctors.append(e)
            return
        if isinstance(e, ast.IfExp):
            add(e.body, depth + 1)
            add(e.orelse, depth + 1)
            return
        if isinstance(e, ast.Name) and depth < 4:
            defs = []
            for m in g.reachable():
                if m in reach and m.kind == "stmt" and isinstance(m.ast, (ast.Assign, ast.AnnAssign)):
                    tg = m.ast.targets if isinstance(m.ast, ast.Assign) else [m.ast.target]
                    if any(isinstance(t, ast.Name) and t.id == e.id for t in tg) and m.ast.value is not None:
                        defs.append(m)
            nonnull = [m for m in defs if not (isinstance(m.ast.value, ast.Constant) and m.ast.value.value is None)]
            for m in (nonnull or defs):
                # a `x = None` initialisation next to real definitions is the "nothing selected" case, which the
                # path-sensitive walk keeps away from the use
                add(m.ast.value, depth + 1)
            if e.id in fn.param_names():
                # the parameter itself still reaches a report on a path that passes none of the re-definitions
                free = walk(g, asg, classify, start, blocked=set(defs))
                if any(r in free for r in rep_nodes):
                    classes.add(f"<param {e.id}>")
            elif not defs:
                classes.add(f"<{e.id}>")
            return
        classes.add(f"<{norm(e)[:30]}>")

    for e in exprs:
        add(e)
    may = bool(rep_nodes)
    avoid = walk(g, asg, classify, start, blocked=set(rep_nodes))
    must = may and g.exit not in avoid
    return classes, may, must, ctors


def run(ctx: Ctx) -> None:
    res = resolver(ctx)
    noise = ctx.repo.cls("APINoiseFrameHelper")
    plain = ctx.repo.cls("APIPlaintextFrameHelper")
    base = ctx.repo.cls("APIFrameHelper")
    n_sites = 0

    def expect(fn: Func, what: str, pred, want: str, in_body: bool | None = True, extra=None) -> None:
        """Find the site whose enclosing guard satisfies pred (on the inlined test text)."""
        nonlocal n_sites
        sites = [(e, b, s, k, ctor) for e, b, s, k, ctor in error_sites(ctx, fn) if pred(test_text(fn, e)) and (in_body is None or b == in_body)]
        if len(sites) != 1:
            ctx.ob("C04.R1", fn, what, False, f"deviation site not found uniquely by its guard ({len(sites)} candidates): the check it encodes was removed or rewritten beyond recognition")
            return
        n_sites += 1
        e, b, s, k, ctor = sites[0]
        ok = k == want
        detail = f"constructs {k}, specified {want} [guard: {test_text(fn, e)[:70]}]"
        if ok and extra is not None:
            ok2, d2 = extra(ctor)
            ok = ok and ok2
            detail += f"; {d2}"
        ctx.ob("C04.R1", fn, what, ok, detail, node=s if isinstance(s, ast.AST) else None)

    def site(fn: Func, what: str, classify, deviation: dict[str, bool], want: str, normal: dict[str, bool] | None = None, extra=None, start: Node | None = None, must: bool = True) -> None:
        """A deviation site given semantically: under the atom assignment `deviation` exactly the class `want` is
        reported, on every path; under `normal` (if given) nothing is reported.  Any spelling of the guards
        (==/!= with swapped branches, De Morgan, early return, a named condition, an error built into a local on
        a branch) yields the same table."""
        nonlocal n_sites
        classes, may, mst, ctors = reported_under(ctx, fn, deviation, classify, start=start)
        ok = may and (mst or not must) and classes == {want}
        detail = f"under {deviation}: reports {sorted(classes) or 'nothing'}{'' if mst or not must else ' (not on every path)'}, specified {want}"
        if ok and extra is not None and ctors:
            ok2, d2 = extra(ctors[0])
            ok = ok and ok2
            detail += f"; {d2}"
        if ok and normal is not None:
            c2, may2, _, _ = reported_under(ctx, fn, normal, classify, start=start)
            ok = not may2
            if may2:
                detail = f"under {normal} (no deviation) an error is still reported: {sorted(c2)}"
        if may:
            n_sites += 1
        ctx.ob("C04.R1", fn, what, ok, detail)

    from ..astutil import bound_name

    # -- Noise receive loop: marker byte
    dr = noise.methods["data_received"]
    hdr_reads = [c for c in own_nodes(dr.node) if isinstance(c, ast.Call) and norm(c.func) == "self._read" and c.args and isinstance(c.args[0], ast.Constant)]
    hv = (bound_name(dr.node, hdr_reads[0]) if hdr_reads else None) or "header"
    from .c02 import inline_except

    def cl_marker(n: Node):
        t = n.ast
        if isinstance(t, ast.Compare) and len(t.ops) == 1 and isinstance(t.ops[0], (ast.Eq, ast.NotEq)) and isinstance(t.comparators[0], ast.Constant) and t.comparators[0].value == 1:
            if norm(inline_except(dr, t.left, {hv})) == f"{hv}[0]":
                return ("marker_ok", isinstance(t.ops[0], ast.Eq))
        if isinstance(t, ast.Compare) and len(t.ops) == 1 and isinstance(t.ops[0], (ast.Is, ast.IsNot)) and norm(t.left) == hv and isinstance(t.comparators[0], ast.Constant) and t.comparators[0].value is None:
            return ("header_complete", isinstance(t.ops[0], ast.IsNot))
        return None

    gdr = cfg_of(ctx, dr)
    hc_nodes = [n for n in gdr.reachable() if n.kind == "cond" and (cl_marker(n) or ("", 0))[0] == "header_complete"]
    site(dr, "marker byte != 0x01 -> protocol error", cl_marker, {"header_complete": True, "marker_ok": False}, "ProtocolAPIError", start=hc_nodes[0] if hc_nodes else None)
    # -- hello
    hh = noise.methods["_handle_hello"]
    hp = [p for p in hh.param_names() if p != "self"][0]
    from .c03 import hello_classifier

    cl_hello, name_expr, _idx = hello_classifier(ctx, hh)
    site(hh, "empty server hello -> handshake error", cl_hello, {"nonempty": False}, "HandshakeAPIError")
    site(hh, "unknown protocol byte -> handshake error", cl_hello, {"nonempty": True, "proto_ok": False}, "HandshakeAPIError")
    site(
        hh, "device name mismatch -> bad name carrying the received name", cl_hello,
        {"nonempty": True, "proto_ok": True, "name_present": True, "expected_set": True, "names_equal": False}, "BadNameAPIError",
        normal={"nonempty": True, "proto_ok": True, "name_present": True, "expected_set": True, "names_equal": True},
        extra=lambda c: (isinstance(c, ast.Call) and call_arg(c, 1, "received_name") is not None and norm(call_arg(c, 1, "received_name")) == name_expr, f"received_name argument {norm(call_arg(c, 1, 'received_name')) if isinstance(c, ast.Call) and call_arg(c, 1, 'received_name') is not None else None}"),
    )
    # -- handshake error frame
    hs = noise.methods["_handle_handshake"]
    mp = [p for p in hs.param_names() if p != "self"][0]
    eip = noise.methods.get("_error_on_incorrect_preamble")
    eip_inlined = eip is None  # a maintainer may have folded the error-frame handler into the handshake handler
    if eip_inlined:
        eip = hs
    ghs = cfg_of(ctx, hs)
    conds = [n for n in ghs.reachable() if n.kind == "cond" and norm(n.ast).replace(" ", "") in (f"{mp}[0]!=0", f"{mp}[0]==0")]
    ok = False
    start_e: Node | None = None
    if len(conds) == 1:
        bad_label = "true" if "!=" in norm(conds[0].ast) else "false"
        tgt = [s for l, s in conds[0].succ if l == bad_label]
        if eip_inlined:
            start_e = tgt[0] if tgt else None
            ok = start_e is not None
        else:
            ok = bool(tgt) and any(eip in res.callees(hs, c).funcs for c in node_calls(tgt[0]))
        n_sites += 1
    ctx.ob("C04.R1", hs, "handshake status byte != 0 -> error-frame handler", ok, f"{[norm(c.ast) for c in conds]}")
    ep = mp if eip_inlined else [p for p in eip.param_names() if p != "self"][0]
    def cl_mac(n: Node):
        t = n.ast
        if isinstance(t, ast.Compare) and len(t.ops) == 1 and isinstance(t.ops[0], (ast.Eq, ast.NotEq)):
            for a, b in ((t.left, t.comparators[0]), (t.comparators[0], t.left)):
                if isinstance(b, ast.Constant) and b.value == "Handshake MAC failure":
                    return ("mac_failure", isinstance(t.ops[0], ast.Eq))
        return None

    site(eip, "error frame 'Handshake MAC failure' -> invalid encryption key", cl_mac, {"mac_failure": True}, "InvalidEncryptionKeyAPIError", start=start_e)
    site(eip, "other error frame -> handshake error", cl_mac, {"mac_failure": False}, "HandshakeAPIError", start=start_e)
    expl = [n for n in own_nodes(eip.node) if isinstance(n, ast.Assign) and isinstance(n.value, ast.Call) and isinstance(n.value.func, ast.Attribute) and n.value.func.attr == "decode"]
    ctx.ob("C04.R1", eip, "explanation = error frame without its status byte", len(expl) == 1 and norm(expl[0].value) == f"{ep}[1:].decode()", f"{[norm(e.value) for e in expl]}")
    rep = [c for c in own_nodes(eip.node) if isinstance(c, ast.Call) and isinstance(c.func, ast.Attribute) and c.func.attr == "_handle_error_and_close"]
    geip = cfg_of(ctx, eip)
    rep_nodes_e = [n for n in geip.reachable() if any(c in rep for c in node_calls(n))]
    ctx.ob("C04.R2", eip, "error frame is reported and the helper closed on every path", bool(rep_nodes_e) and geip.exit not in walk(geip, {}, lambda n: None, start=start_e, blocked=set(rep_nodes_e)), f"{len(rep)} report call(s)")
    # -- _handle_error mapping
    he = noise.methods["_handle_error"]
    xp = [p for p in he.param_names() if p != "self"][0]
    hello_c = ctx.sym.resolve_name("_frame_helper.noise", "NOISE_STATE_HELLO")

    def cl_he(n: Node):
        t = n.ast
        if isinstance(t, ast.Call) and norm(t.func) == "isinstance" and len(t.args) == 2 and norm(t.args[0]) == xp:
            k = norm(t.args[1]).split(".")[-1]
            if k == "InvalidTag":
                return ("invalid_tag", True)
            if k == "ConnectionResetError":
                return ("reset", True)
        if isinstance(t, ast.Compare) and len(t.ops) == 1 and norm(t.left) == "self._state" and isinstance(t.ops[0], (ast.Eq, ast.NotEq, ast.Is, ast.IsNot)):
            if ctx.sym.eval(t.comparators[0], he.module.name) == hello_c and hello_c is not Unknown:
                return ("in_hello", isinstance(t.ops[0], (ast.Eq, ast.Is)))
        return None

    site(he, "InvalidTag -> invalid encryption key", cl_he, {"invalid_tag": True, "reset": False}, "InvalidEncryptionKeyAPIError")
    site(he, "reset while still in HELLO -> handshake error", cl_he, {"invalid_tag": False, "reset": True, "in_hello": True}, "HandshakeAPIError")
    for asg, what in (({"invalid_tag": False, "reset": True, "in_hello": False}, "a reset after the hello"), ({"invalid_tag": False, "reset": False}, "any other error")):
        classes, may, mst, _ = reported_under(ctx, he, asg, cl_he)
        ctx.ob("C04.R1", he, f"... only while the state is HELLO: {what} is reported unchanged", classes == {f"<param {xp}>"} and mst, f"reports {sorted(classes)}")
    causes = [n for n in own_nodes(he.node) if isinstance(n, ast.Assign) and any(norm(t).endswith(".__cause__") for t in n.targets)]
    # every mapped (newly constructed) error gets the original as its cause: on each mapping path a __cause__ store
    ghe = cfg_of(ctx, he)
    cause_nodes = [n for n in ghe.reachable() if n.ast in causes]
    okc = bool(causes) and all(isinstance(c.value, ast.Name) for c in causes)
    for asg in ({"invalid_tag": True, "reset": False}, {"invalid_tag": False, "reset": True, "in_hello": True}):
        avoid = walk(ghe, asg, cl_he, blocked=set(cause_nodes))
        okc = okc and ghe.exit not in avoid
    ctx.ob("C04.R1", he, "mapped errors keep their cause", okc, f"{len(causes)} __cause__ assignments")
    sup = [c for c in own_nodes(he.node) if isinstance(c, ast.Call) and isinstance(c.func, ast.Attribute) and c.func.attr == "_handle_error" and norm(c.func.value) == "super()"]
    ctx.ob("C04.R2", he, "the base handler is called once, with one exception, on every path (which one: R1 by paths)", len(sup) == 1 and len(sup[0].args) == 1 and not sup[0].keywords and _on_every_path(ctx, he, sup[0]), f"{[norm(a) for c in sup for a in c.args]}")
    classes_o, may_o, mst_o, _ = reported_under(ctx, he, {"invalid_tag": False, "reset": False}, cl_he)
    ctx.ob("C04.R1", he, "any other error is reported unchanged", classes_o == {f"<param {xp}>"} and mst_o, f"reports {sorted(classes_o)}")
    # -- closed
    hc = noise.methods["_handle_closed"]
    expect(hc, "frame after close -> protocol error", lambda t: t == "<unconditional>", "ProtocolAPIError")
    ctx.ob("C04.R2", hc, "frames after close are never delivered", not any(isinstance(c, ast.Call) and any(f.name in ("process_packet", "_handle_frame") for f in res.callees(hc, c).funcs) for c in own_nodes(hc.node)), "")
    # -- plaintext preamble
    pe = plain.methods["_error_on_incorrect_preamble"]
    pp = [p for p in pe.param_names() if p != "self"][0]
    def cl_pre(n: Node):
        t = n.ast
        if isinstance(t, ast.Compare) and len(t.ops) == 1 and isinstance(t.ops[0], (ast.Eq, ast.NotEq)) and norm(t.left) == pp and isinstance(t.comparators[0], ast.Constant) and t.comparators[0].value == 1:
            return ("is_one", isinstance(t.ops[0], ast.Eq))
        return None

    site(pe, "plaintext preamble 0x01 -> requires encryption", cl_pre, {"is_one": True}, "RequiresEncryptionAPIError")
    site(pe, "other plaintext preamble -> protocol error", cl_pre, {"is_one": False}, "ProtocolAPIError")
    pdr = plain.methods["data_received"]
    gp = cfg_of(ctx, pdr)
    # the first varint read of an iteration is the preamble; its comparison with 0 routes to the handler
    first_reads = [c for c in own_nodes(pdr.node) if isinstance(c, ast.Call) and norm(c.func) == "self._read_varuint"]
    first_reads.sort(key=lambda c: (c.lineno, c.col_offset))
    pv = bound_name(pdr.node, first_reads[0]) if first_reads else None

    def cl_pdr(n: Node):
        t = n.ast
        if isinstance(t, ast.Compare) and len(t.ops) == 1 and isinstance(t.ops[0], (ast.Eq, ast.NotEq)) and isinstance(t.comparators[0], ast.Constant) and t.comparators[0].value == 0 and not isinstance(t.comparators[0].value, bool):
            l = t.left.value if isinstance(t.left, ast.NamedExpr) else t.left
            if (pv and norm(l) == pv) or (first_reads and l is first_reads[0]):
                return ("preamble_ok", isinstance(t.ops[0], ast.Eq))
        return None

    hnodes = [n for n in gp.reachable() if any(pe in res.callees(pdr, c).funcs for c in node_calls(n))]
    from ..guard import truth_table as _tt

    loops_p = [n for n in own_nodes(pdr.node) if isinstance(n, ast.While)]
    heads_p = [n for n in gp.reachable() if n.kind == "join" and loops_p and n.ast is loops_p[0]]
    tabp = _tt(gp, ["preamble_ok"], cl_pdr, hnodes, start=heads_p[0] if heads_p else None)
    okp = bool(hnodes) and tabp[(False,)][0] and not tabp[(True,)][0]
    if okp:
        # and with a wrong preamble nothing else happens: the handler is unavoidable before the next read / exit
        avoid = walk(gp, {"preamble_ok": False}, cl_pdr, start=heads_p[0] if heads_p else None, blocked=set(hnodes))
        later_reads = [n for n in avoid if n not in hnodes and any(c in first_reads[1:] for c in node_calls(n))]
        okp = not later_reads
    ctx.ob("C04.R1", pdr, "plaintext preamble != 0x00 -> preamble error handler", okp, fmt_table(["preamble_ok"], tabp))
    for hn in hnodes:
        for c in node_calls(hn):
            if pe in res.callees(pdr, c).funcs:
                ctx.ob("C04.R1", pdr, "the preamble handler receives the byte that was read", bool(c.args) and (norm(c.args[0]) == pv or (isinstance(c.args[0], ast.Name) and pv is None)), f"{[norm(a) for a in c.args]}")
    early = preamble_before_giveup(ctx, pdr)
    ctx.ob("C04.R1", pdr, "the framing marker is examined before the receive loop can give up", not early, f"the loop can return at {early[:2]} with bytes buffered whose first byte was never examined: a device speaking the other framing is diagnosed late (or only as a socket error)")
    # -- key validation
    dk = noise.methods["_decode_noise_psk"]
    # the conversion of the decoder's ValueError may sit in the decoding function or around its call in the set-up function
    sp_ = noise.methods["_setup_proto"]
    conv_in_caller = any(isinstance(t, ast.Try) and any(isinstance(c, ast.Call) and dk in res.callees(sp_, c).funcs for b in t.body for c in ast.walk(b)) and any(h.type is not None and norm(h.type) == "ValueError" for h in t.handlers) for t in own_nodes(sp_.node))
    has_own = any(test_text(dk, e) == "except ValueError" for e, b, s_, k, ctor in error_sites(ctx, dk))
    expect(sp_ if (conv_in_caller and not has_own) else dk, "key not base64 -> invalid encryption key", lambda t: t == "except ValueError", "InvalidEncryptionKeyAPIError")
    def cl_len(n: Node):
        t = n.ast
        if isinstance(t, ast.Compare) and len(t.ops) == 1 and isinstance(t.ops[0], (ast.Eq, ast.NotEq)):
            for a, b in ((t.left, t.comparators[0]), (t.comparators[0], t.left)):
                if isinstance(a, ast.Call) and norm(a.func) == "len" and isinstance(b, ast.Constant) and b.value == 32:
                    return ("len_ok", isinstance(t.ops[0], ast.Eq))
        return None

    site(dk, "key not 32 bytes -> invalid encryption key", cl_len, {"len_ok": False}, "InvalidEncryptionKeyAPIError", normal={"len_ok": True})
    dec = [c for c in own_nodes(dk.node) if isinstance(c, ast.Call) and norm(c.func) in ("binascii.a2b_base64", "base64.b64decode")]
    ctx.ob("C04.R1", dk, "the configured key is what gets decoded and returned", len(dec) == 1 and norm(inline(dk, dec[0].args[0])) == "self._noise_psk" and any(isinstance(n, ast.Return) and norm(inline(dk, n.value)) == norm(inline(dk, dec[0])) for n in own_nodes(dk.node)), "")
    ctx.count("C04.R1", n_sites, 13, "deviation sites")

    # ------------------------------------------------------------------ R2
    for fn in (dr, hh, hs, pdr):
        g = cfg_of(ctx, fn)
        for n in g.reachable():
            is_err = any(any(f.name in ("_handle_error_and_close", "_error_on_incorrect_preamble") for f in res.callees(fn, c).funcs) for c in node_calls(n))
            if not is_err:
                continue
            after = set()
            for l, s in n.succ:
                if l != "exc":
                    after |= walk(g, {}, lambda x: None, start=s)
            bad = []
            for m in after:
                if m.ast is None or m.kind not in ("stmt", "cond", "for-init"):
                    continue
                if m.kind == "stmt" and isinstance(m.ast, ast.Assign) and any(norm(t) == "self._state" for t in m.ast.targets):
                    bad.append(m)
                for c in node_calls(m):
                    names = {f.name for f in res.callees(fn, c).funcs}
                    if names & {"process_packet", "_handle_frame", "_handle_hello", "_handle_handshake", "_read", "_read_varuint", "_remove_from_buffer", "read_message"} or (isinstance(c.func, ast.Attribute) and c.func.attr in ("set_result", "read_message")):
                        bad.append(m)
            ctx.ob("C04.R2", fn, f"after the error at L{n.lineno} the handler leaves without state change, readiness or delivery", not bad and g.exit in after, f"continues into {[b.text(40) for b in bad[:2]]}", node=n.ast)
    hec = base.methods["_handle_error_and_close"]
    gh = cfg_of(ctx, hec)
    b = occurred_before(gh, lambda n: (["reported"] if any(f.name == "_handle_error" for c in node_calls(n) for f in res.callees(hec, c).funcs) else []) + (["closed"] if any(f.name == "close" for c in node_calls(n) for f in res.callees(hec, c).funcs) else []))
    fe = b.get(gh.exit, frozenset())
    ctx.ob("C04.R2", hec, "_handle_error_and_close = report, then close, on every path", {"reported", "closed"} <= fe, f"{sorted(fe)}")
    closen = [n for n in gh.reachable() if any(f.name == "close" for c in node_calls(n) for f in res.callees(hec, c).funcs)]
    ctx.ob("C04.R2", hec, "... report first (the first cause is the specific error, not the close)", all("reported" in b.get(n, frozenset()) for n in closen), "")
    bhe = base.methods["_handle_error"]
    gb = cfg_of(ctx, bhe)
    xp = [p for p in bhe.param_names() if p != "self"][0]

    def evb(n: Node):
        out = []
        for c in node_calls(n):
            if any(f.name == "_set_ready_future_exception" for f in res.callees(bhe, c).funcs) and [norm(a) for a in c.args] == [xp]:
                out.append("ready-failed")
            if any(f.name == "report_fatal_error" for f in res.callees(bhe, c).funcs) and [norm(a) for a in c.args] == [xp]:
                out.append("reported")
        return out

    fb = occurred_before(gb, evb).get(gb.exit, frozenset())
    ctx.ob("C04.R2", bhe, "_handle_error fails the readiness wait and reports the same exception on every path", {"ready-failed", "reported"} <= fb, f"{sorted(fb)}")
    srf = base.methods["_set_ready_future_exception"]
    gs = cfg_of(ctx, srf)
    sx = [n for n in gs.reachable() if any(isinstance(c.func, ast.Attribute) and c.func.attr == "set_exception" for c in node_calls(n))]

    def cl(n: Node):
        t = n.ast
        if isinstance(t, ast.Call) and isinstance(t.func, ast.Attribute) and t.func.attr == "done":
            return ("done", True)
        return None

    tt = truth_table(gs, ["done"], cl, sx)
    ctx.ob("C04.R2", srf, "readiness future failed iff still pending", tt[(False,)] == (True, True) and tt[(True,)][0] is False, fmt_table(["done"], tt))
    for m in (base.methods["connection_lost"], base.methods["eof_received"]):
        cs = [c for c in own_nodes(m.node) if isinstance(c, ast.Call) and any(f.name == "_handle_error" for f in res.callees(m, c).funcs)]
        ctx.ob("C04.R2", m, f"{m.name} reports an error on every path", len(cs) == 1 and _on_every_path(ctx, m, cs[0]), "")
    cl_ = base.methods["connection_lost"]
    cs = [c for c in own_nodes(cl_.node) if isinstance(c, ast.Call) and any(f.name == "_handle_error" for f in res.callees(cl_, c).funcs)]
    if cs and cs[0].args:
        a = cs[0].args[0]
        ep = [p for p in cl_.param_names() if p != "self"][0]
        ctx.ob("C04.R2", cl_, "connection_lost passes on the transport's exception (InvalidTag from decrypt reaches the mapping)", isinstance(a, ast.BoolOp) and isinstance(a.op, ast.Or) and norm(a.values[0]) == ep, norm(a)[:60])

    hf = noise.methods["_handle_frame"]
    hsf = noise.methods["_handle_handshake"]
    for fn, callee_names in ((hf, {"decrypt"}), (hsf, {"read_message"}), (dr, {"_handle_frame", "_handle_hello", "_handle_handshake"})):
        for t in [n for n in own_nodes(fn.node) if isinstance(n, ast.Try)]:
            inside = [c for b in t.body for c in ast.walk(b) if isinstance(c, ast.Call) and ((isinstance(c.func, ast.Attribute) and c.func.attr in callee_names))]
            if not inside:
                continue
            for h in t.handlers:
                rep_calls = [c for b in h.body for c in ast.walk(b) if isinstance(c, ast.Call) and isinstance(c.func, ast.Attribute) and c.func.attr in ("_handle_error", "_handle_error_and_close")]
                reports = bool(rep_calls)
                reraises = isinstance(h.body[-1], ast.Raise)
                ctx.ob("C04.R2", fn, f"except {norm(h.type)} around {sorted(callee_names)} reports or re-raises", reports or reraises, "a frame that fails authentication would be dropped silently and the session would go on", node=h)
                # a handler that can catch the authentication failure (InvalidTag, or anything broader) must hand THAT
                # exception to the mapping (or build the invalid-key error itself): a fixed other class loses the mapping
                catches_tag = h.type is None or any(x in norm(h.type) for x in ("InvalidTag", "Exception", "BaseException"))
                if catches_tag and reports:
                    okm = all(c.args and ((isinstance(c.args[0], ast.Name) and c.args[0].id == h.name) or err_class(ctx, fn, c.args[0]) == "InvalidEncryptionKeyAPIError") for c in rep_calls)
                    ctx.ob("C04.R2", fn, f"except {norm(h.type) if h.type is not None else ''} around {sorted(callee_names)}: an authentication failure keeps its mapping to the invalid-key error", okm, f"reports {[norm(c.args[0])[:40] if c.args else None for c in rep_calls]}: InvalidTag caught here is reported as that class, not as InvalidEncryptionKeyAPIError", node=h)
    # every frame that reaches the READY handler is authenticated: no normal exit of the handler avoids the decrypt
    # (a shortcut for some frames - empty ones, say - lets an inserted frame pass without ending the session)
    ghf = cfg_of(ctx, hf)
    dec_nodes = {n for n in ghf.reachable() if any(isinstance(c.func, ast.Attribute) and c.func.attr == "decrypt" for c in node_calls(n))}
    ctx.ob("C04.R2", hf, "every frame handed to the READY handler goes through decrypt (no exit before it)", bool(dec_nodes) and ghf.exit not in walk(ghf, {}, lambda n: None, blocked=dec_nodes), "a frame can leave the handler unauthenticated and the session goes on")
    # A frame that fails authentication raises out of its handler while the state is still READY / HANDSHAKE; until
    # connection_lost() arrives the only thing that keeps later reads from being delivered is that the failing frame
    # is still at the head of the buffer (it fails again).  So: within one iteration of the receive loop the frame is
    # consumed only after its handler returned, unless every authenticating call in the handlers is handled locally.
    gdr = cfg_of(ctx, dr)
    hnames = {"_handle_frame", "_handle_hello", "_handle_handshake"}
    hnodes = {n for n in gdr.reachable() if any(f.name in hnames for c in node_calls(n) for f in res.callees(dr, c).funcs)}
    cnodes = [n for n in gdr.reachable() if any(f.name == "_remove_from_buffer" for c in node_calls(n) for f in res.callees(dr, c).funcs)]
    loops_dr = [x for x in own_nodes(dr.node) if isinstance(x, ast.While)]
    ctx.require(len(loops_dr) == 1 and hnodes and cnodes, "noise data_received: receive loop, handler dispatch or consume step not found")
    heads = {n for n in gdr.reachable() if n.kind == "join" and n.ast is loops_dr[0]}

    def _escaping_auth(h: Func) -> list[str]:
        out = []
        tries = [t for t in own_nodes(h.node) if isinstance(t, ast.Try)]
        for c in own_nodes(h.node):
            if isinstance(c, ast.Call) and isinstance(c.func, ast.Attribute) and c.func.attr in ("decrypt", "read_message"):
                local = any(any(c in set(ast.walk(b)) for b in t.body) and t.handlers and not any(isinstance(hd.body[-1], ast.Raise) for hd in t.handlers) for t in tries)
                if not local:
                    out.append(f"{h.name}:{norm(c)[:40]}")
        return out

    esc = [e for hn_ in sorted(hnames) if hn_ in noise.methods for e in _escaping_auth(noise.methods[hn_])]
    witness = None
    for cn_ in cnodes:
        witness = witness or paths_avoiding(gdr, cn_, hnodes, lambda n: n in heads)
    ctx.ob(
        "C04.R2",
        dr,
        "a frame is consumed only after its handler returned (a frame that fails authentication stays at the head of the buffer and fails again until connection_lost arrives)",
        witness is None or not esc,
        f"consumed before dispatch on {fmt_path(witness) if witness else []}; authentication failures escaping the handlers: {esc}",
    )

    # the error path cannot fail itself: mapping and reporting an error evaluates nothing that can raise (a dereference
    # of state that only exists after the handshake, a lookup): otherwise the readiness wait is never failed and nothing
    # is reported - the connect attempt ends in a timeout instead of the specific error
    from ..totality import risky

    for f_ in [noise.methods["_handle_error"], base.methods["_handle_error"], base.methods["_handle_error_and_close"], base.methods["_set_ready_future_exception"]]:
        rk = risky(ctx, res, f_, f_.node.body)
        ctx.ob("C04.R2", f_, f"reporting an error cannot raise by itself ({f_.name})", not rk, f"{rk[:3]}")
    # The plaintext helper has no closed state of its own: after a wrong marker was reported it stays fail-closed
    # because the rejected byte is still at the head of the buffer (every later read fails the marker test again).
    # So nothing on the report/close path may touch the receive buffer.
    close_path: list[Func] = []
    todo_c = [base.methods["_handle_error_and_close"], base.methods["close"], base.methods["_handle_error"]] + [m for k in ("close",) for m in [plain.methods.get(k)] if m is not None]
    while todo_c:
        f_ = todo_c.pop()
        if f_ in close_path:
            continue
        close_path.append(f_)
        for c in own_nodes(f_.node):
            if isinstance(c, ast.Call):
                todo_c += [x for x in res.callees(f_, c).funcs if x.module.name.startswith("_frame_helper") and x.cls is not None and x.cls.name != noise.name]
    touched = [(f_.qualname, tgt.attr) for f_ in close_path for st_, tgt, val in attr_writes(f_) if tgt.attr in ("_buffer", "_buffer_len", "_pos")]
    ctx.ob("C04.R2", base.methods["close"], f"reporting an error / closing the helper leaves the receive buffer alone ({len(close_path)} functions on that path)", not touched, f"{touched}: with the rejected bytes gone, data that arrives later is parsed and delivered as if nothing had happened (the plaintext helper has no closed state)")

    # ------------------------------------------------------------------ R3
    init = noise.methods["__init__"]
    sp = noise.methods["_setup_proto"]
    gi = cfg_of(ctx, init)
    f = occurred_before(gi, lambda n: ["setup"] if any(sp in res.callees(init, c).funcs for c in node_calls(n)) else []).get(gi.exit, frozenset())
    ctx.ob("C04.R3", init, "key is decoded and validated in __init__ on every path", "setup" in f, "a malformed key would only be noticed after the hello was sent")
    ctx.ob("C04.R3", sp, "setup decodes the key", any(isinstance(c, ast.Call) and dk in res.callees(sp, c).funcs for c in own_nodes(sp.node)), "")
    callers = sorted({fn.key for fn in ctx.repo.all_funcs() for c in own_nodes(fn.node) if isinstance(c, ast.Call) and sp in res.callees(fn, c).funcs})
    ctx.ob("C04.R3", sp, "setup runs only from __init__", callers == [init.key], f"{callers}")
    writers = sorted({fn.qualname for fn in ctx.repo.all_funcs() if fn.cls is not None and fn.cls.name == noise.name for c in own_nodes(fn.node) if isinstance(c, ast.Call) and isinstance(c.func, ast.Attribute) and c.func.attr == "_write_bytes"})
    ctx.ob("C04.R3", "_frame_helper.noise:APINoiseFrameHelper", "bytes are written only from connection_made's hello and write_packets", set(writers) <= {"APINoiseFrameHelper._send_hello_handshake", "APINoiseFrameHelper.write_packets"}, f"{writers}")

    # ------------------------------------------------------------------ R4
    dc = ctx.repo.cls("DecryptCipher")
    nonce_rule(ctx, dc, dc.methods["decrypt"], "_decrypt", "C04.R4")
    # the only freshness the initiator of NNpsk0 contributes is its ephemeral key: generated by the Noise library for
    # every handshake.  The package neither supplies key pairs nor replaces the key agreement of the backend.
    fixed_keys = []
    for f_ in ctx.repo.all_funcs():
        if f_.name == "generate_keypair":
            fixed_keys.append(f"{f_.qualname} overrides key generation")
        for x in own_nodes(f_.node):
            if isinstance(x, ast.Call) and isinstance(x.func, ast.Attribute) and x.func.attr.startswith("set_keypair_from"):
                fixed_keys.append(f"{f_.qualname} L{x.lineno} {norm(x.func)}")
            if isinstance(x, ast.Subscript) and isinstance(x.ctx, ast.Store) and isinstance(x.value, ast.Attribute) and x.value.attr in ("diffie_hellmans", "keypairs"):
                fixed_keys.append(f"{f_.qualname} L{x.lineno} registers {norm(x)[:50]}")
    ctx.ob("C04.R4", sp, "the ephemeral key of a session is the Noise library's own, generated per handshake", not fixed_keys, f"{fixed_keys[:3]}: with a key pair that outlives the session the client hello repeats, the same transport keys are derived again and a recorded session authenticates when played back to a later one")


def _mac_body(eip: Func) -> bool:
    """Is the MAC-failure class constructed in the body (True) or the else branch (False) of the explanation test?"""
    for n in own_nodes(eip.node):
        if isinstance(n, ast.If) and "Handshake MAC failure" in norm(n.test):
            cmp_ = [x for x in ast.walk(n.test) if isinstance(x, ast.Compare)]
            if cmp_ and isinstance(cmp_[0].ops[0], ast.Eq):
                return True
            return False
    return True


def _on_every_path(ctx: Ctx, fn: Func, call: ast.Call) -> bool:
    g = cfg_of(ctx, fn)
    nodes = [n for n in g.reachable() if n.ast is not None and n.kind in ("stmt", "cond") and any(x is call for x in walk_own(n.ast))]
    if not nodes:
        return False
    return g.exit not in walk(g, {}, lambda n: None, blocked=set(nodes))


def preamble_before_giveup(ctx: Ctx, pdr: Func) -> list[str]:
    """Plaintext receive loop: the loop runs only while bytes are buffered, so the first byte (the
    preamble) is always available; every `return` inside an iteration must therefore come after the
    preamble comparison.  Returns the offending return sites."""
    from ..flow import fmt_path, occurred_before, paths_avoiding

    gp = cfg_of(ctx, pdr)
    loops = [n for n in own_nodes(pdr.node) if isinstance(n, ast.While)]
    if len(loops) != 1:
        return ["<receive loop not unique>"]
    inside = {x for b in loops[0].body for x in ast.walk(b)}
    heads = [n for n in gp.reachable() if n.kind == "join" and n.ast is loops[0]]
    # the preamble comparison: the first condition that involves the first varint read
    first_read_var = None
    pre_conds: list[Node] = []
    for n in gp.reachable():
        if n.kind != "cond" or n.ast not in inside:
            continue
        if any(isinstance(x, ast.Call) and norm(x.func) == "self._read_varuint" for x in ast.walk(n.ast)):
            pre_conds = [n]
            break
    if not pre_conds:
        # read bound by a plain assignment first: take the first condition on that variable
        for n in gp.reachable():
            if n.kind == "stmt" and n.ast in inside and isinstance(n.ast, ast.Assign) and isinstance(n.ast.value, ast.Call) and norm(n.ast.value.func) == "self._read_varuint" and isinstance(n.ast.targets[0], ast.Name):
                first_read_var = n.ast.targets[0].id
                break
        if first_read_var:
            pre_conds = [n for n in gp.reachable() if n.kind == "cond" and any(isinstance(x, ast.Name) and x.id == first_read_var for x in ast.walk(n.ast))][:1]
    if not pre_conds:
        return ["<preamble comparison not found>"]

    def ev(n: Node):
        return ["preamble-tested"] if n in pre_conds else []

    facts = occurred_before(gp, ev)
    # the fact must be re-established in every iteration: check returns using a per-iteration analysis
    from ..cfg import must_forward

    def gk(n: Node, f: frozenset, label: str) -> frozenset:
        if n in heads:
            return frozenset()
        if n in pre_conds:
            return f | {"preamble-tested"}
        return f

    per_iter = must_forward(gp, gk)
    bad = []
    for n in gp.reachable():
        if n.kind == "stmt" and isinstance(n.ast, ast.Return) and n.ast in inside and not n.copy_of:
            if "preamble-tested" not in per_iter.get(n, frozenset()):
                bad.append(f"L{n.lineno}: {n.text(40)}")
    return bad

