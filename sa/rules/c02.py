"""C02 - everything the client writes conforms to the documented wire format."""

from __future__ import annotations

import ast
import copy
from typing import Any

from ..astutil import attr_writes
from ..cfg import Node, cfg_of, node_calls, walk_own
from ..closed import resolver
from ..flow import disjunctive, occurred_before
from ..report import Ctx
from ..src import AnalysisError, Func, norm, own_nodes
from ..sym import Ref, Unknown

EXPLANATION = (
    "Static rules on the two write paths. R1: a disjunctive count shows exactly one _write_bytes per write_packets on every "
    "normal path (outside the packet loop), one writer call per _write_bytes, one write_packets per send_messages. R2: the "
    "plaintext per-packet append sequence is normalised (single-assignment locals inlined) and classified by role: zero "
    "byte, varint(len(payload)), varint(type), payload, with type and payload the two components of the same packet, joined "
    "with an empty separator; the varint writer is minimal (fast path bound = mask, loop while value, continuation bit iff "
    "more groups follow). R3: the Noise writer's byte expressions are normalised to hi/lo roles and compared with the "
    "reader's big-endian reconstructions (marker constant, header length, size bytes, type bytes, payload offset). R4: nonce "
    "discipline of both cipher wrappers (nonce passed as is to the AEAD call, incremented exactly once afterwards on every "
    "normal path and never on the exceptional one, no other writer; one encrypt per packet; PACK_NONCE layout). R5: each "
    "packet is (id of type(m), m serialised) for the same m over the caller's messages in order. Byte-exact decodability for "
    "all payload values is not decided."
    " Added: every store to the writer slot is the transport's write or None; the bytes handed to _write_bytes are never rebound."
    ' Also: outside the frame helpers exactly one call site reaches EncryptCipher.encrypt; a batch walked more than once is declared re-iterable; an encoder not in a recognised loop form is rejected.'
)
ASSUMPTIONS = ["bytes(), b''.join and struct.Struct('<LQ') have their documented semantics", "the AEAD primitive is ChaCha20-Poly1305 as provided by the library"]


def inline(fn: Func, e: ast.expr, depth: int = 0) -> ast.expr:
    """Replace loads of locals that are assigned exactly once (simple statements) by their value."""
    if depth > 6:
        return e
    assigns: dict[str, list[ast.expr]] = {}
    for n in own_nodes(fn.node):
        if isinstance(n, ast.Assign):
            for t in n.targets:
                if isinstance(t, ast.Name):
                    assigns.setdefault(t.id, []).append(n.value)
        elif isinstance(n, ast.AnnAssign) and isinstance(n.target, ast.Name) and n.value is not None:
            assigns.setdefault(n.target.id, []).append(n.value)
        elif isinstance(n, (ast.AugAssign, ast.NamedExpr)) and isinstance(n.target, ast.Name):
            assigns.setdefault(n.target.id, []).extend([n.value, n.value])
        elif isinstance(n, (ast.For,)):
            for x in ast.walk(n.target):
                if isinstance(x, ast.Name):
                    assigns.setdefault(x.id, []).extend([n.iter, n.iter])

    class T(ast.NodeTransformer):
        def visit_Lambda(self, node: ast.Lambda) -> Any:  # noqa: N802
            return node  # parameters of a lambda shadow locals: leave its body alone

        def visit_Name(self, node: ast.Name) -> Any:  # noqa: N802
            if (
                isinstance(node.ctx, ast.Load)
                and len(assigns.get(node.id, [])) == 1
                and node.id not in fn.param_names()
                and not isinstance(assigns[node.id][0], (ast.List, ast.Dict, ast.Set, ast.ListComp, ast.DictComp, ast.SetComp))
            ):
                return inline(fn, copy.deepcopy(assigns[node.id][0]), depth + 1)
            return node

    return T().visit(copy.deepcopy(e))


def byte_role(e: ast.expr) -> tuple[str, str]:
    """('hi', X) for (X >> 8) & 0xFF, ('lo', X) for X & 0xFF, ('const', v)."""
    if isinstance(e, ast.Constant) and isinstance(e.value, int):
        return ("const", str(e.value))
    if isinstance(e, ast.BinOp) and isinstance(e.op, ast.BitAnd):
        for a, b in ((e.left, e.right), (e.right, e.left)):
            if isinstance(b, ast.Constant) and b.value == 0xFF:
                if isinstance(a, ast.BinOp) and isinstance(a.op, ast.RShift) and isinstance(a.right, ast.Constant) and a.right.value == 8:
                    return ("hi", norm(a.left))
                return ("lo", norm(a))
    return ("?", norm(e))


def be16(e: ast.expr) -> tuple[str, str, int, int] | None:
    """('be16', base, i, j) for (base[i] << 8) | base[j]."""
    if isinstance(e, ast.BinOp) and isinstance(e.op, ast.BitOr):
        for a, b in ((e.left, e.right), (e.right, e.left)):
            if isinstance(a, ast.BinOp) and isinstance(a.op, ast.LShift) and isinstance(a.right, ast.Constant) and a.right.value == 8 and isinstance(a.left, ast.Subscript) and isinstance(b, ast.Subscript):
                if isinstance(a.left.slice, ast.Constant) and isinstance(b.slice, ast.Constant) and norm(a.left.value) == norm(b.value):
                    return ("be16", norm(a.left.value), a.left.slice.value, b.slice.value)
    return None


def bytes_tuple(e: ast.expr) -> list[ast.expr] | None:
    if isinstance(e, ast.Call) and norm(e.func) == "bytes" and len(e.args) == 1 and isinstance(e.args[0], (ast.Tuple, ast.List)):
        return list(e.args[0].elts)
    return None


def count_states(ctx: Ctx, fn: Func, is_event) -> tuple[set[int], bool]:
    """Possible numbers of event executions (capped at 2) at the normal exit; and whether an event sits in a loop."""
    g = cfg_of(ctx, fn)

    def step(n: Node, s: frozenset, label: str):
        if label == "exc":
            return None
        k = sum(1 for c in node_calls(n) if is_event(c))
        if k:
            cur = max([int(x[1:]) for x in s if x.startswith("c")] or [0])
            s = frozenset(x for x in s if not x.startswith("c")) | {f"c{min(2, cur + k)}"}
        return s

    facts = disjunctive(g, frozenset(), step)
    counts = set()
    for s in facts.get(g.exit, frozenset()):
        counts.add(max([int(x[1:]) for x in s if x.startswith("c")] or [0]))
    in_loop = False
    for lp in [n for n in own_nodes(fn.node) if isinstance(n, (ast.For, ast.While))]:
        for b in lp.body:
            for x in ast.walk(b):
                if isinstance(x, ast.Call) and is_event(x):
                    in_loop = True
    return counts, in_loop


def run(ctx: Ctx) -> None:
    res = resolver(ctx)
    base = ctx.repo.cls("APIFrameHelper")
    plain = ctx.repo.cls("APIPlaintextFrameHelper")
    noise = ctx.repo.cls("APINoiseFrameHelper")
    wb = base.methods["_write_bytes"]

    # ------------------------------------------------------------------ R1
    for cls in (plain, noise):
        wp = cls.methods.get("write_packets")
        ctx.require(wp is not None, f"{cls.name}.write_packets missing")
        counts, in_loop = count_states(ctx, wp, lambda c, wp=wp: wb in res.callees(wp, c).funcs)
        ctx.ob("C02.R1", wp, "exactly one transport write per batch", counts == {1} and not in_loop, f"possible write counts on normal exits: {sorted(counts)}; inside the packet loop: {in_loop}")
    counts, in_loop = count_states(ctx, wb, lambda c: isinstance(c.func, ast.Attribute) and c.func.attr == "_writer")
    ctx.ob("C02.R1", wb, "_write_bytes hands the bytes to the transport exactly once", counts == {1} and not in_loop, f"{sorted(counts)}")
    wcall = [c for c in own_nodes(wb.node) if isinstance(c, ast.Call) and isinstance(c.func, ast.Attribute) and c.func.attr == "_writer"]
    if wcall:
        dp = [p for p in wb.param_names() if p != "self"][0]
        ctx.ob("C02.R1", wb, "... unchanged", [norm(a) for a in wcall[0].args] == [dp], f"writes {[norm(a) for a in wcall[0].args]}")
        rebinds = [n for n in own_nodes(wb.node) if isinstance(n, ast.Name) and n.id == dp and isinstance(n.ctx, (ast.Store, ast.Del))]
        ctx.ob("C02.R1", wb, "... and the bytes handed in are never rebound before the write", not rebinds, f"`{dp}` is reassigned at line(s) {[n.lineno for n in rebinds]}: what is written is no longer what the caller encoded (e.g. a copy truncated for logging)")
    cm = base.methods["connection_made"]
    wsrc = [val for st, tgt, val in attr_writes(cm, "_writer")]
    ctx.ob("C02.R1", cm, "the writer is the transport's write", len(wsrc) == 1 and norm(wsrc[0]) in ("self._transport.write", "transport.write"), f"{[norm(w) for w in wsrc]}")
    # ... everywhere: the writer slot only ever holds the transport's own write (or None once closed) - never a queue,
    # a wrapper or another sink that could hold back, reorder or duplicate what write_packets hands over
    others = [(f, val) for f in ctx.repo.all_funcs() for st, tgt, val in attr_writes(f, "_writer") if not (val is None or (isinstance(val, ast.Constant) and val.value is None) or (isinstance(val, ast.Attribute) and val.attr == "write" and "transport" in norm(val.value)))]
    ctx.ob("C02.R1", "_frame_helper.base:APIFrameHelper", "the writer slot holds the transport's write or None, nothing else", not others, f"{[(f.qualname, norm(v)[:40]) for f, v in others]}: writes would go somewhere else than straight to the transport (held back, reordered, dropped)")
    sm = ctx.repo.func("connection", "APIConnection.send_messages")
    wps = {c.methods["write_packets"] for c in (plain, noise)}
    counts, in_loop = count_states(ctx, sm, lambda c: bool(wps & set(res.callees(sm, c).funcs)))
    ctx.ob("C02.R1", sm, "one write_packets per send_messages", counts == {1} and not in_loop, f"{sorted(counts)}")

    # ------------------------------------------------------------------ R2
    wp = plain.methods["write_packets"]
    loops = [n for n in own_nodes(wp.node) if isinstance(n, ast.For)]
    ctx.require(len(loops) == 1, "plaintext write_packets: packet loop not unique")
    lp = loops[0]
    pk = norm(lp.target)
    packets_param = [p for p in wp.param_names() if p != "self"][0]
    ctx.ob("C02.R2", wp, "loop covers the caller's packets in order", norm(lp.iter) == packets_param, f"iterates {norm(lp.iter)}")
    appends = [s.value for s in lp.body if isinstance(s, ast.Expr) and isinstance(s.value, ast.Call) and isinstance(s.value.func, ast.Attribute) and s.value.func.attr == "append"]
    other = [s for s in lp.body if not (isinstance(s, (ast.Assign, ast.AnnAssign)) or (isinstance(s, ast.Expr) and isinstance(s.value, ast.Call) and isinstance(s.value.func, ast.Attribute) and s.value.func.attr == "append"))]
    ctx.ob("C02.R2", wp, "packet loop body is straight-line appends", not other, f"{[norm(s)[:40] for s in other]}")
    outs = {norm(a.func.value) for a in appends}
    vfn = ctx.repo.func("_frame_helper.plain_text", "_varuint_to_bytes")

    def role(e: ast.expr) -> str:
        e2 = inline(wp, e)
        if isinstance(e2, ast.Constant) and e2.value == b"\x00":
            return "zero"
        if isinstance(e2, ast.Call) and len(e2.args) == 1:
            cs = res.callees(wp, e2)
            if cs is not None and vfn in cs.funcs:
                a = norm(e2.args[0])
                if a == f"len({pk}[1])":
                    return "varint(len(payload))"
                if a == f"{pk}[0]":
                    return "varint(type)"
                return f"varint({a})"
        if norm(e2) == f"{pk}[1]":
            return "payload"
        return f"?{norm(e2)[:30]}"

    seq = [role(a.args[0]) for a in appends if a.args]
    ctx.ob("C02.R2", wp, "frame = zero byte, varint(len(payload)), varint(type), payload", seq == ["zero", "varint(len(payload))", "varint(type)", "payload"], f"appends {seq}")
    wcalls = [c for c in own_nodes(wp.node) if isinstance(c, ast.Call) and wb in res.callees(wp, c).funcs]
    if len(wcalls) == 1 and wcalls[0].args:
        j = inline(wp, wcalls[0].args[0])
        okj = isinstance(j, ast.Call) and isinstance(j.func, ast.Attribute) and j.func.attr == "join" and isinstance(j.func.value, ast.Constant) and j.func.value.value == b"" and len(j.args) == 1 and {norm(j.args[0])} == outs
        ctx.ob("C02.R2", wp, "frames are concatenated without separator from the appended list", bool(okj), f"writes {norm(wcalls[0].args[0])}")
    inits = [n for n in own_nodes(wp.node) if isinstance(n, (ast.Assign, ast.AnnAssign)) and norm(n.targets[0] if isinstance(n, ast.Assign) else n.target) in outs]
    ctx.ob("C02.R2", wp, "output list starts empty", len(inits) == 1 and norm(inits[0].value) == "[]", f"{[norm(i.value) for i in inits]}")
    varint_writer(ctx, vfn)

    # ------------------------------------------------------------------ R3
    nwp = noise.methods["write_packets"]
    loops = [n for n in own_nodes(nwp.node) if isinstance(n, ast.For)]
    ctx.require(len(loops) == 1, "noise write_packets: packet loop not unique")
    lp = loops[0]
    pk = norm(lp.target)
    npk = [p for p in nwp.param_names() if p != "self"][0]
    ctx.ob("C02.R3", nwp, "loop covers the caller's packets in order", norm(lp.iter) == npk, f"iterates {norm(lp.iter)}")
    enc = [c for b in lp.body for c in ast.walk(b) if isinstance(c, ast.Call) and isinstance(c.func, ast.Attribute) and c.func.attr == "encrypt"]
    ctx.ob("C02.R4", nwp, "exactly one encrypt per packet", len(enc) == 1 and all(isinstance(s, (ast.Assign, ast.AnnAssign, ast.Expr)) for s in lp.body), f"{len(enc)} encrypt call(s) in the loop body")
    appends = [s.value for s in lp.body if isinstance(s, ast.Expr) and isinstance(s.value, ast.Call) and isinstance(s.value.func, ast.Attribute) and s.value.func.attr == "append"]
    w_marker = w_hdr_len = w_inner_len = None
    if len(enc) == 1 and enc[0].args:
        # the local the ciphertext is bound to
        frame_var = None
        for s in lp.body:
            if isinstance(s, ast.Assign) and s.value is enc[0] and isinstance(s.targets[0], ast.Name):
                frame_var = s.targets[0].id
        arg = inline(nwp, enc[0].args[0])
        inner = None
        payload_ok = False
        if isinstance(arg, ast.BinOp) and isinstance(arg.op, ast.Add):
            inner = bytes_tuple(arg.left)
            payload_ok = norm(arg.right) == f"{pk}[1]"
        roles = [byte_role(x) for x in inner] if inner else []
        want = [("hi", f"{pk}[0]"), ("lo", f"{pk}[0]"), ("hi", f"len({pk}[1])"), ("lo", f"len({pk}[1])")]
        ctx.ob("C02.R3", nwp, "plaintext of a frame = be16(type), be16(len(payload)), payload", roles == want and payload_ok, f"inner header {roles}; followed by payload: {payload_ok}")
        w_inner_len = len(roles)
        seqn = []
        for a in appends:
            e = a.args[0]
            if isinstance(e, ast.Name) and e.id == frame_var:
                seqn.append(("ciphertext",))
                continue
            e2 = inline_except(nwp, e, {frame_var} if frame_var else set())
            bt = bytes_tuple(e2)
            if bt is not None:
                seqn.append(("header", tuple(byte_role(x) for x in bt)))
                if bt and byte_role(bt[0])[0] == "const":
                    w_marker = int(byte_role(bt[0])[1])
                w_hdr_len = len(bt)
            else:
                seqn.append(("?", norm(e2)[:40]))
        wanth = ("header", (("const", "1"), ("hi", f"len({frame_var})"), ("lo", f"len({frame_var})")))
        ctx.ob("C02.R3", nwp, "frame on the wire = 0x01, be16(len(ciphertext)), ciphertext", seqn == [wanth, ("ciphertext",)], f"appends {seqn}")
        wcalls = [c for c in own_nodes(nwp.node) if isinstance(c, ast.Call) and wb in res.callees(nwp, c).funcs]
        if len(wcalls) == 1 and wcalls[0].args:
            j = inline(nwp, wcalls[0].args[0])
            okj = isinstance(j, ast.Call) and isinstance(j.func, ast.Attribute) and j.func.attr == "join" and isinstance(j.func.value, ast.Constant) and j.func.value.value == b"" and {norm(j.args[0])} == {norm(a.func.value) for a in appends}
            ctx.ob("C02.R3", nwp, "frames are concatenated without separator", bool(okj), f"writes {norm(wcalls[0].args[0])}")
    # reader side
    dr = noise.methods["data_received"]
    hf = noise.methods["_handle_frame"]
    reads = [c for c in own_nodes(dr.node) if isinstance(c, ast.Call) and isinstance(c.func, ast.Attribute) and c.func.attr == "_read"]
    hdr_read = [c for c in reads if c.args and isinstance(c.args[0], ast.Constant)]
    r_hdr_len = hdr_read[0].args[0].value if hdr_read else None
    hdr_var = None
    for n in own_nodes(dr.node):
        if isinstance(n, ast.NamedExpr) and hdr_read and n.value is hdr_read[0]:
            hdr_var = n.target.id
        if isinstance(n, (ast.Assign, ast.AnnAssign)) and hdr_read and n.value is hdr_read[0]:
            t0 = n.targets[0] if isinstance(n, ast.Assign) else n.target
            if isinstance(t0, ast.Name):
                hdr_var = t0.id
    keep = {hdr_var} if hdr_var else set()
    size_read = [c for c in reads if c.args and not isinstance(c.args[0], ast.Constant)]
    r_size = be16(inline_except(dr, size_read[0].args[0], keep)) if size_read else None
    r_marker = None
    for n in own_nodes(dr.node):
        if isinstance(n, ast.Compare) and isinstance(n.ops[0], (ast.NotEq, ast.Eq)) and isinstance(n.comparators[0], ast.Constant) and isinstance(n.comparators[0].value, int):
            l = inline_except(dr, n.left, keep)
            if isinstance(l, ast.Subscript) and norm(l.value) == hdr_var and isinstance(l.slice, ast.Constant) and l.slice.value == 0:
                r_marker = n.comparators[0].value
    ctx.ob("C02.R3", dr, "reader and writer agree on the marker byte", r_marker is not None and r_marker == w_marker == 1, f"reader compares with {r_marker}, writer emits {w_marker}")
    ctx.ob("C02.R3", dr, "reader and writer agree on the outer header length", r_hdr_len == w_hdr_len == 3, f"reader reads {r_hdr_len}, writer emits {w_hdr_len}")
    ctx.ob("C02.R3", dr, "reader takes the frame size big-endian from header bytes 1,2", r_size == ("be16", hdr_var, 1, 2), f"{r_size}")
    mp = [p for p in hf.param_names() if p != "self"][0]
    dec = [c for c in own_nodes(hf.node) if isinstance(c, ast.Call) and isinstance(c.func, ast.Attribute) and c.func.attr == "decrypt"]
    msgv = None
    for n in own_nodes(hf.node):
        if isinstance(n, ast.Assign) and dec and n.value is dec[0] and isinstance(n.targets[0], ast.Name):
            msgv = n.targets[0].id
    deliver = [c for c in own_nodes(hf.node) if isinstance(c, ast.Call) and isinstance(c.func, ast.Attribute) and c.func.attr == "process_packet"]
    ctx.require(len(deliver) == 1 and len(dec) == 1, "_handle_frame: decrypt/deliver not unique")
    t_expr = inline_except(hf, deliver[0].args[0], {msgv} if msgv else set())
    p_expr = inline_except(hf, deliver[0].args[1], {msgv} if msgv else set())
    ctx.ob("C02.R3", hf, "reader takes the type big-endian from plaintext bytes 0,1", be16(t_expr) == ("be16", msgv, 0, 1), f"{norm(t_expr)}")
    off = p_expr.slice.lower.value if isinstance(p_expr, ast.Subscript) and isinstance(p_expr.slice, ast.Slice) and isinstance(p_expr.slice.lower, ast.Constant) and p_expr.slice.upper is None and norm(p_expr.value) == msgv else None
    ctx.ob("C02.R3", hf, "payload offset equals the writer's inner header length", off is not None and off == w_inner_len == 4, f"reader offset {off}, writer inner header {w_inner_len} bytes")
    ctx.ob("C02.R3", hf, "the whole received frame is decrypted", [norm(a) for a in dec[0].args] == [mp], f"decrypts {[norm(a) for a in dec[0].args]}")

    # ------------------------------------------------------------------ R4
    for cname, op, prim in (("EncryptCipher", "encrypt", "_encrypt"), ("DecryptCipher", "decrypt", "_decrypt")):
        ci = ctx.repo.cls(cname)
        m = ci.methods.get(op)
        ctx.require(m is not None, f"{cname}.{op} missing")
        nonce_rule(ctx, ci, m, prim, "C02.R4" if cname == "EncryptCipher" else "C04.R4")
    pn = ctx.sym.table("_frame_helper.noise").get("PACK_NONCE")
    okp = False
    if pn and pn[0] == "assign" and len(pn[1]) == 1:
        v = pn[1][0]
        okp = isinstance(v, ast.Call) and norm(v.func).endswith("partial") and len(v.args) == 2 and norm(v.args[0]) in ('Struct("<LQ").pack', "Struct('<LQ').pack") and isinstance(v.args[1], ast.Constant) and v.args[1].value == 0
    ctx.ob("C02.R4", "_frame_helper.noise:PACK_NONCE", "nonce layout = 32-bit zero + 64-bit little-endian counter", okp, f"{norm(pn[1][0]) if pn and pn[0] == 'assign' else pn}")

    # ------------------------------------------------------------------ R5
    msgs_p = [p for p in sm.param_names() if p != "self"][0]
    comps = [n for n in own_nodes(sm.node) if isinstance(n, ast.ListComp)]
    okc = False
    detail = "no list comprehension building the packets"
    pkt_var = None
    for c in comps:
        if len(c.generators) == 1 and isinstance(c.elt, ast.Tuple) and len(c.elt.elts) == 2:
            gnr = c.generators[0]
            v = norm(gnr.target)
            tid, ser = c.elt.elts
            idt = isinstance(tid, ast.Subscript) and isinstance(ctx.sym.resolve_name("connection", norm(tid.value)), dict) and norm(tid.slice) == f"type({v})"
            tab = ctx.sym.resolve_name("connection", norm(tid.value)) if isinstance(tid, ast.Subscript) else None
            inv = isinstance(tab, dict) and all(isinstance(k, Ref) and k.kind == "pb" and isinstance(x, int) for k, x in tab.items())
            sr = isinstance(ser, ast.Call) and norm(ser.func) == f"{v}.SerializeToString" and not ser.args
            okc = bool(idt and inv and sr and norm(gnr.iter) == msgs_p and not gnr.ifs)
            detail = f"id from {norm(tid)[:50]}, payload {norm(ser)[:40]}, over {norm(gnr.iter)}"
            for n in own_nodes(sm.node):
                if isinstance(n, (ast.Assign, ast.AnnAssign)) and n.value is c:
                    pkt_var = norm(n.targets[0] if isinstance(n, ast.Assign) else n.target)
    ctx.ob("C02.R5", sm, "packet = (id of type(m), m serialised) for each message in order", okc, detail)
    wpc = [c for c in own_nodes(sm.node) if isinstance(c, ast.Call) and wps & set(res.callees(sm, c).funcs)]
    ctx.ob("C02.R5", sm, "exactly those packets are written", len(wpc) == 1 and wpc[0].args and norm(wpc[0].args[0]) == pkt_var, f"writes {[norm(a) for c in wpc for a in c.args[:1]]}")
    # the batch is walked more than once (packets, debug log): it must then be declared as something that can be - a
    # one-shot iterable would be used up by the first walk and nothing (or only a log line) would be left for the wire
    smp = [a for a in sm.node.args.args if a.arg != "self"]
    if smp:
        walks = [x for x in own_nodes(sm.node) if (isinstance(x, (ast.For, ast.comprehension)) and isinstance(x.iter, ast.Name) and x.iter.id == smp[0].arg)]
        ann = norm(smp[0].annotation) if smp[0].annotation is not None else ""
        reiterable = ann.split("[")[0].split(".")[-1] in ("tuple", "list", "Sequence", "Tuple", "List", "Collection")
        ctx.ob("C02.R5", sm, "the batch is walked once, or is declared re-iterable (tuple / list / Sequence)", len(walks) <= 1 or reiterable, f"{len(walks)} walks over `{smp[0].arg}: {ann}`")
        # ... and the packets are built by the first of those walks (a log loop in front of it must not be what consumes the batch)
    # the cipher-advancing path is entered once per batch: outside the Noise helper exactly one call site (the write in
    # send_messages) reaches EncryptCipher.encrypt - a second one (sizing / previewing the frames for a log line) burns nonces
    enc_fn = ctx.repo.cls("EncryptCipher").methods["encrypt"]
    reach_enc = {enc_fn.key}
    changed = True
    allf = ctx.repo.all_funcs()
    while changed:
        changed = False
        for f_ in allf:
            if f_.key in reach_enc:
                continue
            if any(isinstance(c, ast.Call) and any(x.key in reach_enc for x in res.callees(f_, c).funcs) for c in own_nodes(f_.node)):
                reach_enc.add(f_.key)
                changed = True
    outside = [(f_.qualname, norm(c)[:50]) for f_ in allf if not f_.module.name.startswith("_frame_helper") for c in own_nodes(f_.node) if isinstance(c, ast.Call) and any(x.key in reach_enc and x.module.name.startswith("_frame_helper") for x in res.callees(f_, c).funcs)]
    ctx.ob("C02.R4", sm, "outside the frame helper exactly one call site reaches the encrypting path", len(outside) == 1 and outside[0][0] == sm.qualname, f"{outside}")
    one = ctx.repo.func("connection", "APIConnection.send_message")
    oc = [c for c in own_nodes(one.node) if isinstance(c, ast.Call) and sm in res.callees(one, c).funcs]
    mp1 = [p for p in one.param_names() if p != "self"][0]
    ctx.ob("C02.R5", one, "send_message sends exactly its message", len(oc) == 1 and [norm(a) for a in oc[0].args] == [f"({mp1},)"], f"{[norm(a) for c in oc for a in c.args]}")


def inline_except(fn: Func, e: ast.expr, keep: set[str]) -> ast.expr:
    """inline(), but leave the named locals symbolic."""
    out = inline(_KeepFunc(fn, keep), e)
    return out


class _KeepFunc:
    """Func wrapper that reports extra names as parameters so that inline() leaves them alone."""

    def __init__(self, fn: Func, keep: set[str]) -> None:
        self._fn = fn
        self._keep = keep
        self.node = fn.node

    def param_names(self) -> list[str]:
        return self._fn.param_names() + sorted(self._keep)


def varint_writer(ctx: Ctx, vfn: Func) -> None:
    p = vfn.param_names()[0]
    from .c01 import varint_writer_consts

    k = varint_writer_consts(ctx)
    recognised = {"mask", "shift", "cont"} <= set(k)
    ctx.ob("C02.R2", vfn, "varint writer is one of the group-by-group loop forms the checker can decide", recognised, f"constants found {k}: an encoder computed some other way (bit_length arithmetic, a comprehension over shifts) is not decided - minimality and the continuation bits at the group boundaries (127/128, 16383/16384, ...) cannot be read off it, so it is rejected")
    if not recognised:
        return
    ctx.ob("C02.R2", vfn, "varint writer: 7-bit groups, mask = 2^7-1, continuation = 2^7", (k["shift"], k["mask"], k["cont"]) == (7, 0x7F, 0x80), f"{k}")
    if "fast" in k:
        fast_ret = [n for n in own_nodes(vfn.node) if isinstance(n, ast.If) and isinstance(n.test, ast.Compare) and norm(n.test.left) == p and n.body and isinstance(n.body[0], ast.Return)]
        okf = k["fast"] == k["mask"] and len(fast_ret) == 1 and norm(fast_ret[0].body[0].value) in (f"bytes(({p},))", f"bytes([{p}])")
        ctx.ob("C02.R2", vfn, "varint writer: single-byte fast path exactly for values <= mask", okf, f"bound {k.get('fast')}")
    loops = [n for n in own_nodes(vfn.node) if isinstance(n, ast.While)]
    # second accepted idiom: `while v > mask: append((v & mask) | cont); v >>= shift` followed by `append(v)`
    idiom_b = len(loops) == 1 and norm(loops[0].test) in (f"{p} > {k['mask']}", f"{p} >= {k['cont']}", f"{k['mask']} < {p}", f"{k['cont']} <= {p}")
    if idiom_b:
        lp = loops[0]
        apps = [x.value for x in lp.body if isinstance(x, ast.Expr) and isinstance(x.value, ast.Call) and norm(x.value.func).endswith(".append")]
        shifts = [i for i, x in enumerate(lp.body) if isinstance(x, ast.AugAssign) and isinstance(x.op, ast.RShift) and norm(x.target) == p and norm(x.value) == str(k["shift"])]
        app_idx = [i for i, x in enumerate(lp.body) if isinstance(x, ast.Expr) and isinstance(x.value, ast.Call) and norm(x.value.func).endswith(".append")]
        grp = norm(inline(vfn, apps[0].args[0])) if len(apps) == 1 else ""
        okg = grp.replace(" ", "") in (f"{p}&{k['mask']}|{k['cont']}", f"({p}&{k['mask']})|{k['cont']}", f"{k['cont']}|{p}&{k['mask']}")
        ctx.ob("C02.R2", vfn, "varint writer: emits groups while value remains (minimal encoding)", len(apps) == 1 and len(shifts) == 1 and len(lp.body) == 2 and not lp.orelse, f"loop `{norm(lp.test)}` body {[norm(x)[:40] for x in lp.body]}")
        ctx.ob("C02.R2", vfn, "varint writer: group extracted before the shift, continuation decided after it", okg and bool(app_idx) and bool(shifts) and app_idx[0] < shifts[0], f"group {grp}")
        # the final group: appended once after the loop, without the continuation bit
        body = vfn.node.body
        li = body.index(lp) if lp in body else -1
        tail = [x.value for x in body[li + 1:] if isinstance(x, ast.Expr) and isinstance(x.value, ast.Call) and norm(x.value.func).endswith(".append")] if li >= 0 else []
        okt = len(tail) == 1 and norm(tail[0].args[0]).replace(" ", "") in (p, f"{p}&{k['mask']}") and (len(apps) == 1 and norm(tail[0].func) == norm(apps[0].func))
        ctx.ob("C02.R2", vfn, "varint writer: continuation bit set iff more groups follow", bool(okt), f"final group {[norm(t.args[0]) for t in tail]}")
    else:
        ctx.ob("C02.R2", vfn, "varint writer: emits groups while value remains (minimal encoding)", len(loops) == 1 and norm(loops[0].test) in (p, f"{p} > 0", f"{p} != 0"), f"{[norm(l.test) for l in loops]}")
    if len(loops) == 1 and not idiom_b:
        body = loops[0].body
        # order: group taken before the shift; continuation decided by the remaining value
        idx_mask = next((i for i, s in enumerate(body) if isinstance(s, ast.Assign) and isinstance(s.value, ast.BinOp) and isinstance(s.value.op, ast.BitAnd) and norm(s.value.left) == p), None)
        idx_shift = next((i for i, s in enumerate(body) if isinstance(s, ast.AugAssign) and isinstance(s.op, ast.RShift) and norm(s.target) == p), None)
        idx_if = next((i for i, s in enumerate(body) if isinstance(s, ast.If)), None)
        oko = idx_mask is not None and idx_shift is not None and idx_if is not None and idx_mask < idx_shift < idx_if
        ctx.ob("C02.R2", vfn, "varint writer: group extracted before the shift, continuation decided after it", bool(oko), f"positions mask={idx_mask} shift={idx_shift} if={idx_if}")
        if idx_if is not None and idx_mask is not None:
            iff = body[idx_if]
            tmp = norm(body[idx_mask].targets[0])
            okb = norm(iff.test) in (p, f"{p} > 0", f"{p} != 0") and len(iff.body) == 1 and len(iff.orelse) == 1
            if okb:
                a1 = iff.body[0].value if isinstance(iff.body[0], ast.Expr) else None
                a2 = iff.orelse[0].value if isinstance(iff.orelse[0], ast.Expr) else None
                okb = isinstance(a1, ast.Call) and isinstance(a2, ast.Call) and norm(a1.func) == norm(a2.func) and norm(a1.func).endswith(".append") and norm(a1.args[0]) in (f"{tmp} | {k['cont']}", f"{tmp} | 128", f"{tmp} | 0x80".replace("0x80", "128")) and norm(a2.args[0]) == tmp
            ctx.ob("C02.R2", vfn, "varint writer: continuation bit set iff more groups follow", bool(okb), f"{norm(iff)[:90]}")
    rets = [n for n in own_nodes(vfn.node) if isinstance(n, ast.Return)]
    ctx.ob("C02.R2", vfn, "varint writer returns the accumulated bytes", any(norm(r.value).startswith("bytes(") for r in rets), "")
    # the cached alias used by the frame writer is this function
    res = resolver(ctx)
    wp = ctx.repo.func("_frame_helper.plain_text", "APIPlaintextFrameHelper.write_packets")
    used = [c for c in own_nodes(wp.node) if isinstance(c, ast.Call) and vfn in res.callees(wp, c).funcs]
    ctx.ob("C02.R2", wp, "the frame writer uses that varint writer", len(used) == 2, f"{len(used)} uses")


def nonce_rule(ctx: Ctx, ci, m: Func, prim: str, rule: str) -> None:
    g = cfg_of(ctx, m)
    prim_calls = [n for n in g.reachable() if any(isinstance(c.func, ast.Attribute) and c.func.attr == prim for c in node_calls(n))]
    ctx.ob(rule, m, f"exactly one AEAD call ({prim})", len(prim_calls) == 1, f"{len(prim_calls)}")
    if len(prim_calls) != 1:
        return
    call = [c for c in node_calls(prim_calls[0]) if isinstance(c.func, ast.Attribute) and c.func.attr == prim][0]
    a0 = call.args[0] if call.args else None
    okn = isinstance(a0, ast.Call) and norm(a0.func) == "PACK_NONCE" and [norm(x) for x in a0.args] == ["self._nonce"]
    ctx.ob(rule, m, "the AEAD call uses the current nonce, as is", bool(okn), f"nonce argument {norm(a0)}")
    dp = [p for p in m.param_names() if p != "self"][0]
    ctx.ob(rule, m, "the AEAD call processes the caller's bytes with no associated data", len(call.args) == 3 and norm(call.args[1]) == dp and norm(call.args[2]) == "None", f"{[norm(x) for x in call.args]}")
    incs = [n for n in g.reachable() if n.kind == "stmt" and isinstance(n.ast, (ast.AugAssign, ast.Assign)) and any(norm(t) == "self._nonce" for t in ([n.ast.target] if isinstance(n.ast, ast.AugAssign) else n.ast.targets))]
    inc_ok = len(incs) == 1 and ((isinstance(incs[0].ast, ast.AugAssign) and isinstance(incs[0].ast.op, ast.Add) and norm(incs[0].ast.value) == "1") or (isinstance(incs[0].ast, ast.Assign) and norm(incs[0].ast.value) in ("self._nonce + 1", "1 + self._nonce")))
    ctx.ob(rule, m, "the nonce advances by exactly one", bool(inc_ok), f"{[n.text(40) for n in incs]}")
    if len(incs) == 1:
        before = occurred_before(g, lambda n: ["used"] if n is prim_calls[0] else (["inc"] if n is incs[0] else []))
        ctx.ob(rule, m, "nonce used, then incremented", "used" in before.get(incs[0], frozenset()) and "inc" not in before.get(prim_calls[0], frozenset()), "the first nonce would not be the cipher state's n / a failed operation would burn a nonce")
        ctx.ob(rule, m, "incremented on every normal path", "inc" in before.get(g.exit, frozenset()), "a nonce would be reused")
        # the exceptional path of the AEAD call leaves the nonce alone (replay/reorder keeps failing)
        exc_targets = [s for l, s in prim_calls[0].succ if l == "exc"]
        from ..guard import walk

        reach = set()
        for t in exc_targets:
            reach |= walk(g, {}, lambda n: None, start=t)
        ctx.ob(rule, m, "a failed AEAD call does not advance the nonce", incs[0] not in reach, "")
    writers = [(fn, st) for fn in ctx.repo.all_funcs() for st, tgt, val in attr_writes(fn, "_nonce")]
    fam = {"EncryptCipher", "DecryptCipher"}
    foreign = [fn.key for fn, st in writers if not (fn.cls is not None and fn.cls.name in fam and fn.name in ("__init__", "encrypt", "decrypt"))]
    ctx.ob(rule, m, "no other writer of the nonce", not foreign, f"{foreign}")
    init = ci.methods.get("__init__")
    if init is not None:
        src = [val for st, tgt, val in attr_writes(init, "_nonce")]
        cs = [p for p in init.param_names() if p != "self"][0]
        ctx.ob(rule, init, "nonce starts at the handshake's cipher-state counter", len(src) == 1 and norm(src[0]) == f"{cs}.n", f"{[norm(s) for s in src]}")
