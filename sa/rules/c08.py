"""C08 - closing a connection releases everything and silences it."""

from __future__ import annotations

import ast

from ..astutil import attr_chain, attr_writes, is_none
from ..cfg import CFG, Node, cfg_of, node_calls, walk_own
from ..closed import OK, ClosedFlow, find_roles, resolver
from ..effects import effects
from ..flow import TooManyStates, const_flag_step, disjunctive, fmt_path, occurred_before
from ..report import Ctx
from ..src import AnalysisError, Func, norm, own_nodes

EXPLANATION = (
    "Static pairing / who-may-call / dataflow rules over connection.py and the frame helpers. R1: the resource inventory of "
    "APIConnection is derived from the annotated attributes (timer handles, socket, frame helper, futures, future sets) and "
    "a path-sensitive analysis of the closer (callees on self inlined by summary) must find a release of each on every path "
    "past the CLOSED guard; helper close() closes and drops transport and writer (Noise: marks CLOSED and fails the ready "
    "future). R2: every timer handle bound to a local is cancelled, or has fired (TimeoutError handler of the same try), on "
    "every exit - decided with a disjunctive analysis that tracks the repo's boolean-flag idiom. R3: the validated-not-closed "
    "fact (see C05.R4) must hold at every commit of a resource into the object and at every arm of a keep-alive timer. R4: "
    "futures awaited by the connection are registered with what the closer resolves before the first suspension. R5: "
    "transport writes only behind the handshake-complete gate; raw writer/transport use only inside the frame helpers. R6: "
    "the fact must hold where the dispatcher looks up the subscribers of an incoming message (delivery gate for both receive "
    "loops). Decides the release/silence discipline in package code; leaks inside asyncio or the OS are not decided."
    ' R7: package callers await the graceful close directly (or its closer sits in a finally). R8: every library call on the release path is one of a frozen list of non-raising release operations.'
    ' R8 also: no expression in the closer or before it in report_fatal_error can raise by itself. R9: a fresh resource is registered for the closer before anything else is done with it.'
)
ASSUMPTIONS = [
    "M1-M5 of DESIGN.md section 2",
    "a TimeoutError reaching the handler of a timer-guarded await means the timer callback has run (only handle_timeout sets it)",
    "library objects release their own internals when closed/cancelled",
]

RELEASE_METHODS = {"cancel", "close", "set_result", "set_exception", "clear"}


def flow(ctx: Ctx) -> ClosedFlow:
    return ctx.service("closedflow", lambda: ClosedFlow(ctx))


def run(ctx: Ctx) -> None:
    roles = find_roles(ctx)
    inv = typed_inventory(ctx, roles)
    r1(ctx, roles, inv)
    r2(ctx)
    r3(ctx, roles, inv)
    r4(ctx, roles, inv)
    r5(ctx, roles)
    r6(ctx, roles)
    r7(ctx, roles)
    r8(ctx, roles)
    r9(ctx, roles, inv)


# ---------------------------------------------------------------- inventory
def typed_inventory(ctx: Ctx, roles) -> dict[str, str]:
    init = roles.conn.methods["__init__"]
    helper_names = {c.name for c in [ctx.repo.cls("APIFrameHelper"), *ctx.repo.subclasses(ctx.repo.cls("APIFrameHelper"))]}
    inv: dict[str, str] = {}
    for n in own_nodes(init.node):
        if isinstance(n, ast.AnnAssign) and isinstance(n.target, ast.Attribute) and norm(n.target.value) == "self":
            a = norm(n.annotation)
            kind = None
            if "TimerHandle" in a or "Handle" in a:
                kind = "timer"
            elif "socket" in a:
                kind = "socket"
            elif any(h in a for h in helper_names):
                kind = "helper"
            elif "Future" in a and any(a.startswith(p) for p in ("set[", "list[", "Set[", "List[")):
                kind = "waiter-set"
            elif "Future" in a or "Task" in a:
                kind = "future"
            if kind:
                inv[n.target.attr] = kind
    # attributes armed with a loop timer anywhere in the class, whatever their annotation
    for m in roles.conn.methods.values():
        for st, tgt, val in attr_writes(m):
            if norm(tgt.value) == "self" and isinstance(val, ast.Call) and isinstance(val.func, ast.Attribute) and val.func.attr in ("call_at", "call_later"):
                inv.setdefault(tgt.attr, "timer")
    ctx.analysed["inventory"] = inv
    return inv


def _self_attr_of(e: ast.AST) -> str | None:
    ch = attr_chain(e)
    if ch and len(ch) >= 2 and ch[0] == "self":
        return ch[1]
    return None


def release_tokens(ctx: Ctx, fn: Func, inv: dict[str, str], depth: int = 0) -> dict[Node, frozenset]:
    """Disjunctive analysis of fn: which inventory attributes have been released (or found empty)."""
    res = resolver(ctx)
    g = cfg_of(ctx, fn)
    roles = find_roles(ctx)
    cache = ctx.service("release_summaries", dict)

    def callee_tokens(c: Func) -> frozenset:
        if c.key in cache:
            return cache[c.key]
        cache[c.key] = frozenset()
        if depth > 3:
            return frozenset()
        facts = release_tokens(ctx, c, inv, depth + 1)
        gc = cfg_of(ctx, c)
        states = facts.get(gc.exit, frozenset())
        common = None
        for s in states:
            toks = frozenset(t for t in s if t.startswith("rel:"))
            common = toks if common is None else (common & toks)
        cache[c.key] = common or frozenset()
        return cache[c.key]

    def step(n: Node, s: frozenset, label: str) -> frozenset | None:
        if label == "exc":
            return None  # exceptional exits of the closer are not part of this rule
        if n.kind == "cond" and n.ast is not None and label in ("true", "false"):
            t = n.ast
            truth = label == "true"
            # CLOSED guard of the closer
            if isinstance(t, ast.Compare) and isinstance(t.left, ast.Attribute) and t.left.attr == roles.state_attr:
                from ..closed import state_member

                mem = state_member(ctx, fn, t.comparators[0], roles.state_enum)
                eq = isinstance(t.ops[0], (ast.Is, ast.Eq))
                if mem == "CLOSED" and truth == eq:
                    return s | {"already-closed"}
                return s
            x = None
            bypass = None
            tt = t.value if isinstance(t, ast.NamedExpr) else t
            if isinstance(tt, ast.Compare) and len(tt.ops) == 1 and is_none(tt.comparators[0]):
                x = _self_attr_of(tt.left)
                bypass = isinstance(tt.ops[0], (ast.Is, ast.Eq))  # `X is None` true bypasses
            elif isinstance(tt, ast.Attribute):
                x = _self_attr_of(tt)
                bypass = False  # falsy bypasses
            elif isinstance(tt, ast.Call) and isinstance(tt.func, ast.Attribute) and tt.func.attr == "done":
                x = _self_attr_of(tt.func.value)
                bypass = True  # already done bypasses
            if x in inv and bypass is not None and truth == bypass:
                return s | {f"rel:{x}"}
            return s
        add = set()
        for c in node_calls(n):
            if isinstance(c.func, ast.Attribute) and c.func.attr in RELEASE_METHODS:
                x = _self_attr_of(c.func.value)
                if x in inv:
                    add.add(f"rel:{x}")
            cs = res.callees(fn, c)
            if cs.kind == "pkg" and cs.funcs and all(f.cls is not None and f.cls.name == roles.conn.name for f in cs.funcs):
                for f in cs.funcs:
                    if f is not roles.setter and f.key != fn.key:
                        add |= callee_tokens(f)
        return s | add if add else s

    return disjunctive(g, frozenset(), step)


def r1(ctx: Ctx, roles, inv: dict[str, str]) -> None:
    ctx.count("C08.R1", len(inv), 7, "resource attributes of APIConnection")
    closer = roles.closer
    g = cfg_of(ctx, closer)
    facts = release_tokens(ctx, closer, inv)
    states = facts.get(g.exit, frozenset())
    ctx.require(bool(states), "closer has no normal exit")
    for x, kind in sorted(inv.items()):
        bad = [s for s in states if "already-closed" not in s and f"rel:{x}" not in s]
        ctx.ob("C08.R1", closer, f"{kind} self.{x} released on every path", not bad, f"a path through the closer leaves self.{x} ({kind}) un-released")
    # waiters in the set are failed, not just forgotten
    for x, kind in inv.items():
        if kind != "waiter-set":
            continue
        ok = False
        for n in own_nodes(closer.node):
            if isinstance(n, ast.For) and _self_attr_of(n.iter) == x and isinstance(n.target, ast.Name):
                v = n.target.id
                calls = [c for b in n.body for c in ast.walk(b) if isinstance(c, ast.Call) and isinstance(c.func, ast.Attribute) and c.func.attr == "set_exception" and norm(c.func.value) == v]
                ok = bool(calls)
        ctx.ob("C08.R1", closer, f"every pending waiter in self.{x} is failed", ok, "the closer must set an exception on each waiter that is not done")
    # frame helper close()
    base = ctx.repo.cls("APIFrameHelper")
    bclose = base.methods.get("close")
    ctx.require(bclose is not None, "APIFrameHelper.close missing")
    tclose = [c for c in own_nodes(bclose.node) if isinstance(c, ast.Call) and isinstance(c.func, ast.Attribute) and c.func.attr == "close" and _self_attr_of(c.func.value) == "_transport"]
    ctx.ob("C08.R1", bclose, "helper close() closes the transport", len(tclose) >= 1, "self._transport.close() is no longer called")
    drops = {tgt.attr for st, tgt, val in attr_writes(bclose) if is_none(val)}
    ctx.ob("C08.R1", bclose, "helper close() drops transport and writer", {"_transport", "_writer"} <= drops, f"set to None: {sorted(drops)}")
    for sc in ctx.repo.subclasses(base):
        m = sc.methods.get("close")
        if m is None:
            continue
        gm = cfg_of(ctx, m)

        def ev(n: Node, m=m):
            out = []
            for c in node_calls(n):
                if isinstance(c.func, ast.Attribute) and c.func.attr == "close" and isinstance(c.func.value, ast.Call) and norm(c.func.value.func) == "super":
                    out.append("super-close")
                if bclose in resolver(ctx).callees(m, c).funcs:
                    out.append("super-close")
                if any("set_exception" in norm(x.func) for x in [c]) or "_set_ready_future_exception" in norm(c.func):
                    out.append("ready-failed")
            if n.kind == "stmt" and isinstance(n.ast, ast.Assign):
                for t in n.ast.targets:
                    if isinstance(t, ast.Attribute) and t.attr == "_state":
                        v = ctx.sym.eval(n.ast.value, m.module.name)
                        closed = ctx.sym.resolve_name(m.module.name, "NOISE_STATE_CLOSED")
                        if v == closed:
                            out.append("state-closed")
            return out

        f = occurred_before(gm, ev).get(gm.exit, frozenset())
        ctx.ob("C08.R1", m, "override of close() chains to the base close()", "super-close" in f, "transport would stay open")
        if "_state" in {tgt.attr for mm in sc.methods.values() for st, tgt, val in attr_writes(mm)}:
            ctx.ob("C08.R1", m, "close() marks the helper CLOSED on every path", "state-closed" in f, "frames arriving after close would still be handled")
            ctx.ob("C08.R1", m, "close() fails a pending ready future on every path", "ready-failed" in f, "a task waiting for the handshake would stay blocked")
    # plaintext readiness is resolved when the transport is made (nothing can stay blocked on it)
    pt = ctx.repo.cls("APIPlaintextFrameHelper").methods.get("connection_made")
    if pt is not None:
        gp = cfg_of(ctx, pt)
        f = occurred_before(gp, lambda n: ["ready"] if any(isinstance(c.func, ast.Attribute) and c.func.attr == "set_result" and "ready_future" in norm(c.func.value) for c in node_calls(n)) else []).get(gp.exit, frozenset())
        ctx.ob("C08.R1", pt, "plaintext readiness resolved in connection_made", "ready" in f, "")


# ----------------------------------------------------------------------- R2
def local_timers(ctx: Ctx) -> list[tuple[Func, ast.Assign, str]]:
    out = []
    for fn in ctx.repo.all_funcs():
        for n in own_nodes(fn.node):
            if isinstance(n, ast.Assign) and len(n.targets) == 1 and isinstance(n.targets[0], ast.Name) and isinstance(n.value, ast.Call) and isinstance(n.value.func, ast.Attribute) and n.value.func.attr in ("call_at", "call_later"):
                out.append((fn, n, n.targets[0].id))
    return out


def timer_exit_states(ctx: Ctx, fn: Func, arm: ast.Assign, h: str) -> tuple[list[tuple[Node, frozenset]], CFG]:
    eff = effects(ctx)
    g = cfg_of(ctx, fn)
    flags = set()
    for n in own_nodes(fn.node):
        if isinstance(n, ast.Assign) and isinstance(n.value, ast.Constant) and isinstance(n.value.value, bool):
            for t in n.targets:
                if isinstance(t, ast.Name):
                    flags.add(t.id)

    # the future the timer fails: third argument of the arm call
    fut_arg = arm.value.args[2] if isinstance(arm.value, ast.Call) and len(arm.value.args) >= 3 else None
    private_future = False
    if isinstance(fut_arg, ast.Name):
        defs = [x for x in own_nodes(fn.node) if isinstance(x, (ast.Assign, ast.AnnAssign)) and any(isinstance(t, ast.Name) and t.id == fut_arg.id for t in (x.targets if isinstance(x, ast.Assign) else [x.target]))]
        private_future = len(defs) == 1 and isinstance(defs[0].value, ast.Call) and norm(defs[0].value.func).endswith("create_future")

    def step(n: Node, s: frozenset, label: str) -> frozenset | None:
        if label == "exc" and not eff.node_raises(fn, n):
            return None
        s2 = const_flag_step(n, s, label, flags)
        if s2 is None:
            return None
        s = s2
        if n.kind == "handler" and "TimeoutError" in n.handler_type and "armed" in s and private_future:
            # only a future created in this very function can be failed with TimeoutError by nothing but the timer;
            # a shared future (e.g. the helper's readiness future) also receives the connection's own errors, among
            # them OS-level TimeoutError (== asyncio.TimeoutError): catching that does not mean the timer fired
            s = s | {"fired"}
        if label != "exc":
            if n.ast is arm:
                s = frozenset(x for x in s if x not in ("cancelled", "fired")) | {"armed"}
            for c in node_calls(n):
                if isinstance(c.func, ast.Attribute) and c.func.attr == "cancel" and norm(c.func.value) == h:
                    s = s | {"cancelled"}
        return s

    facts = disjunctive(g, frozenset(), step)
    out = []
    for ex in (g.exit, g.raise_exit):
        for s in facts.get(ex, frozenset()):
            out.append((ex, s))
    return out, g


def r2(ctx: Ctx) -> None:
    timers = local_timers(ctx)
    ctx.count("C08.R2", len(timers), 2, "timer handles bound to locals")
    for fn, arm, h in timers:
        states, g = timer_exit_states(ctx, fn, arm, h)
        bad = [(ex, s) for ex, s in states if "armed" in s and "cancelled" not in s and "fired" not in s]
        kinds = sorted({"exceptional exit" if ex is g.raise_exit else "normal exit" for ex, s in bad})
        ctx.ob("C08.R2", fn, f"{h} = {norm(arm.value.func)}(...) cancelled on every exit", not bad, f"the timer can stay armed after the function is left ({', '.join(kinds)}; flags {sorted(x for _, s in bad[:1] for x in s)})", node=arm)


# ----------------------------------------------------------------------- R3
def r3(ctx: Ctx, roles, inv: dict[str, str]) -> None:
    f = flow(ctx)
    n = 0
    for m in roles.conn.methods.values():
        if m.name == "__init__":
            continue
        for st, tgt, val in attr_writes(m):
            if norm(tgt.value) == "self" and tgt.attr in inv and not is_none(val) and inv[tgt.attr] != "waiter-set":
                n += 1
                fact = f.fact_at(m, st)
                what = "timer armed" if inv[tgt.attr] == "timer" else f"{inv[tgt.attr]} stored"
                ctx.ob("C08.R3", m, f"self.{tgt.attr} = {norm(val)[:60]}", fact == OK, f"{what} although the connection may already be closed (never released, the closer is idempotent): {fact}", node=st)
    ctx.count("C08.R3", n, 6, "resource commits / timer arms")


# ----------------------------------------------------------------------- R4
def r4(ctx: Ctx, roles, inv: dict[str, str]) -> None:
    eff = effects(ctx)
    sets = {x for x, k in inv.items() if k == "waiter-set"}
    n = 0
    for m in roles.conn.methods.values():
        if not m.is_async:
            continue
        g = cfg_of(ctx, m)
        created = {}
        for x in own_nodes(m.node):
            if isinstance(x, (ast.Assign, ast.AnnAssign)) and isinstance(x.value, ast.Call) and isinstance(x.value.func, ast.Attribute) and x.value.func.attr == "create_future":
                t = x.targets[0] if isinstance(x, ast.Assign) else x.target
                if isinstance(t, ast.Name):
                    created[t.id] = x
        awaited = []
        for node in g.reachable():
            if node.ast is None or node.kind != "stmt":
                continue
            for a in walk_own(node.ast):
                if isinstance(a, ast.Await):
                    awaited.append((node, a))
        for node, a in awaited:
            v = a.value
            if isinstance(v, ast.Name) and v.id in created:
                n += 1

                def ev(nd: Node, name=v.id):
                    out = []
                    for c in node_calls(nd):
                        if isinstance(c.func, ast.Attribute) and c.func.attr == "add" and _self_attr_of(c.func.value) in sets and c.args and norm(c.args[0]) == name:
                            out.append("registered")
                    if eff.node_suspends(m, nd):
                        out.append("suspended")
                    return out

                facts = occurred_before(g, ev)
                # registered on all paths to the await ...
                ctx.ob("C08.R4", m, f"await {v.id}: waiter registered with the closer first", "registered" in facts.get(node, frozenset()), f"a close while waiting would leave the task blocked: {v.id} is not in {sorted(sets)} on every path to the await", node=a)
                # ... and no suspension between creation and registration
                from ..flow import may_occurred_before

                reg_nodes = [nd for nd in g.reachable() if "registered" in ev(nd)]
                for rn in reg_nodes:
                    def ev2(nd: Node, crt=created[v.id]):
                        out = []
                        if nd.ast is crt:
                            out.append("created")
                        return out
                    # suspension may-occur between creation and registration?
                    susp = _suspension_between(ctx, m, g, created[v.id], rn)
                    ctx.ob("C08.R4", m, f"{v.id}: no suspension between creation and registration", not susp, "the future could be missed by a close that happens in between", node=rn.ast)
            elif isinstance(v, ast.Attribute) and v.attr == "ready_future":
                n += 1
                root = v.value
                ok = _self_attr_of(root) in inv and inv.get(_self_attr_of(root)) == "helper"
                if not ok and isinstance(root, ast.Name):
                    # awaiting through a local: the helper must have been committed to the object first
                    def ev3(nd: Node, name=root.id):
                        if nd.kind == "stmt" and isinstance(nd.ast, ast.Assign) and isinstance(nd.ast.value, ast.Name) and nd.ast.value.id == name:
                            for t in nd.ast.targets:
                                if _self_attr_of(t) in inv and inv[_self_attr_of(t)] == "helper":
                                    return ["committed"]
                        return []
                    ok = "committed" in occurred_before(g, ev3).get(node, frozenset())
                ctx.ob("C08.R4", m, f"await {norm(v)}: helper stored in the object before waiting for readiness", ok, "the closer could not reach the helper to fail the readiness wait", node=a)
    ctx.count("C08.R4", n, 2, "awaited futures of the connection")


def _suspension_between(ctx: Ctx, fn: Func, g: CFG, start_ast: ast.AST, end: Node) -> bool:
    eff = effects(ctx)
    starts = [n for n in g.reachable() if n.ast is start_ast]
    seen = set()
    todo = list(starts)
    while todo:
        n = todo.pop()
        for label, s in n.succ:
            if label == "exc":
                continue
            if s is end:
                continue
            if s in seen:
                continue
            seen.add(s)
            todo.append(s)
    # nodes strictly between start and end on some path: those reachable from start that can reach end
    can_reach_end = set()
    todo = [end]
    while todo:
        n = todo.pop()
        for label, p in n.pred:
            if p not in can_reach_end:
                can_reach_end.add(p)
                todo.append(p)
    between = (seen & can_reach_end) - set(starts)
    return any(eff.node_suspends(fn, n) for n in between)


# ----------------------------------------------------------------------- R5
def r5(ctx: Ctx, roles) -> None:
    res = resolver(ctx)
    eff = effects(ctx)
    helper = ctx.repo.cls("APIFrameHelper")
    fam = {c.name for c in [helper, *ctx.repo.subclasses(helper)]}
    wp = []
    for c in [helper, *ctx.repo.subclasses(helper)]:
        if "write_packets" in c.methods:
            wp.append(c.methods["write_packets"])
    n_sites = 0
    for fn in ctx.repo.all_funcs():
        g = None
        for call in [x for x in own_nodes(fn.node) if isinstance(x, ast.Call)]:
            cs = res.callees(fn, call)
            if any(f in wp for f in cs.funcs):
                n_sites += 1
                g = g or cfg_of(ctx, fn)

                def gk(n: Node, f: frozenset, label: str) -> frozenset:
                    if eff.node_suspends(fn, n):
                        f = frozenset()
                    if n.kind == "cond" and isinstance(n.ast, ast.Attribute) and n.ast.attr in ("_handshake_complete", "is_connected") and label == "true":
                        f = f | {"gate"}
                    return f

                from ..cfg import must_forward

                facts = must_forward(g, gk)
                nodes = [n for n in g.reachable() if n.ast is not None and any(x is call for x in walk_own(n.ast))]
                ok = bool(nodes) and all("gate" in facts.get(n, frozenset()) for n in nodes)
                ctx.ob("C08.R5", fn, call, ok, "write_packets is reachable without the handshake-complete test (false once CLOSED): bytes could be written after close")
    ctx.count("C08.R5", n_sites, 1, "write_packets call sites")
    # raw writer / transport use only inside the frame helper classes
    offenders = raw_write_uses(ctx, ctx.repo.all_funcs(), fam)
    for fn, n in offenders:
        ctx.ob("C08.R5", fn, n, False, "raw transport/writer access outside the frame helper classes bypasses the write gate")
    ctx.ob("C08.R5", "package", "raw writes only inside frame helpers", not offenders, f"{len(offenders)} offender(s)")
    import textwrap

    from ..src import Func as F

    tree = ast.parse(textwrap.dedent("""
        class Y:
            def f(self):
                self._frame_helper._writer(b"x")
                self._frame_helper._transport.write(b"y")
    """))
    fake = F(roles.setter.module, "Y.f", tree.body[0].body[0], None)  # type: ignore[attr-defined]
    ctx.require(len(raw_write_uses(ctx, [fake], fam)) == 2, "C08.R5 self-check: raw-write matcher no longer matches its positive example")


def raw_write_uses(ctx: Ctx, funcs, fam: set[str]) -> list[tuple[Func, ast.AST]]:
    out = []
    for fn in funcs:
        if fn.cls is not None and fn.cls.name in fam:
            continue
        for n in own_nodes(fn.node):
            if isinstance(n, ast.Attribute) and n.attr in ("_writer", "_write_bytes"):
                out.append((fn, n))
            if isinstance(n, ast.Call) and isinstance(n.func, ast.Attribute) and n.func.attr in ("write", "writelines", "sendall", "send") and isinstance(n.func.value, ast.Attribute) and n.func.value.attr in ("_transport", "transport", "_socket"):
                out.append((fn, n))
    return out


# ----------------------------------------------------------------------- R6
def r6(ctx: Ctx, roles) -> None:
    f = flow(ctx)
    d = roles.dispatcher
    sites = [n for n in own_nodes(d.node) if isinstance(n, ast.Attribute) and n.attr == roles.handler_table and isinstance(n.ctx, ast.Load)]
    ctx.count("C08.R6", len(sites), 1, "handler-table lookups in the dispatcher")
    g = cfg_of(ctx, d)
    for s in sites:
        stmt_nodes = [n for n in g.reachable() if n.ast is not None and n.kind in ("stmt", "cond", "for-init") and any(x is s for x in walk_own(n.ast))]
        for n in stmt_nodes:
            fact = f.fact_at(d, n.ast)
            ctx.ob("C08.R6", d, f"subscriber lookup {norm(n.ast)[:70]}", fact == OK, f"an incoming message can reach subscribers although the connection is closed: {fact}", node=n.ast)
    callers = []
    res = resolver(ctx)
    for fn in ctx.repo.all_funcs():
        for c in [x for x in own_nodes(fn.node) if isinstance(x, ast.Call)]:
            if d in res.callees(fn, c).funcs:
                callers.append(fn.key)
    ctx.analysed["dispatcher_callers"] = sorted(set(callers))


# ----------------------------------------------------------------------- R7
def r7(ctx: Ctx, roles) -> None:
    """The graceful close ends in the closer; the closer is the last statement, not a `finally`.  A caller that runs
    the coroutine under something that can cancel it between its awaits (wait_for / timeout / a task it cancels)
    would abandon the connection half closed - open transport, keep-alive armed, nobody holding a reference.  So:
    either every package caller awaits it directly, or the closer sits in a `finally` that covers the awaits."""
    res = resolver(ctx)
    dis = roles.conn.methods.get("disconnect")
    ctx.require(dis is not None and dis.is_async, "APIConnection.disconnect missing")
    g = cfg_of(ctx, dis)
    closing = {n for n in g.reachable() if any(roles.closer in res.callees(dis, c).funcs for c in node_calls(n))}
    # does every exit, the exceptional ones out of an await included, pass the closer?
    from ..guard import walk

    protected = bool(closing) and g.exit not in walk(g, {}, lambda n: None, blocked=closing, follow_exc=True) and g.raise_exit not in walk(g, {}, lambda n: None, blocked=closing, follow_exc=True)
    sites = []
    for fn in ctx.repo.all_funcs():
        parents = {}
        for p_ in ast.walk(fn.node):
            for ch in ast.iter_child_nodes(p_):
                parents[ch] = p_
        for c in own_nodes(fn.node):
            if isinstance(c, ast.Call) and dis in res.callees(fn, c).funcs:
                sites.append((fn, c, isinstance(parents.get(c), ast.Await)))
    ctx.ob("C08.R7", dis, "package callers of the graceful close are located", len(sites) >= 1, f"{len(sites)}")
    for fn, c, direct in sites:
        ctx.ob("C08.R7", fn, f"{norm(c)[:50]} is awaited directly (or the closer runs in a finally covering the awaits)", direct or protected, "the coroutine is handed to something that may cancel it between its awaits; its closer is the last statement, not a finally: the connection would be abandoned half closed", node=c)


# ----------------------------------------------------------------------- R8
# library operations the release sequence is known to use and that do not raise on an object in any state
# (confirmed by reading: handle.cancel(), transport/socket close(), set.clear(), guarded future completion, logging)
CLOSER_SAFE_LIB = {"cancel", "close", "clear", "set_exception", "set_result", "done", "cancelled", "debug", "info", "warning", "error", "isEnabledFor", "copy", "discard"}
CLOSER_SAFE_BUILTINS = {"str", "repr", "isinstance", "type", "len", "bool", "super", "list", "tuple"}


def r8(ctx: Ctx, roles) -> None:
    """The release sequence cannot be cut short: CLOSED is set first and the guard at the top makes a second attempt a
    no-op, so a library call that raises half-way (socket.shutdown() on a reset connection, say) would leave whatever
    comes after it - timers, waiters, the stop callback - unreleased for good.  Every library call in the closer and
    the package functions it calls is therefore one of the operations listed above."""
    res = resolver(ctx)
    seen: list[Func] = []
    todo = [roles.closer]
    bad = []
    n_calls = 0
    while todo:
        f = todo.pop()
        if f in seen:
            continue
        seen.append(f)
        for c in own_nodes(f.node):
            if not isinstance(c, ast.Call):
                continue
            k = res.callees(f, c)
            if k.kind == "pkg":
                todo += [x for x in k.funcs if (x.cls is not None and x.cls.key == roles.conn.key) or x.module.name.startswith("_frame_helper")]
                continue
            if k.kind in ("ctor", "value"):
                continue  # building an error object; the user's stop callback (last statement, C07)
            n_calls += 1
            name = c.func.attr if isinstance(c.func, ast.Attribute) else (c.func.id if isinstance(c.func, ast.Name) else norm(c.func))
            ok = (isinstance(c.func, ast.Attribute) and name in CLOSER_SAFE_LIB) or (isinstance(c.func, ast.Name) and name in CLOSER_SAFE_BUILTINS)
            if not ok:
                bad.append(f"{f.qualname}: {norm(c)[:50]}")
    ctx.count("C08.R8", n_calls, 12, "library calls on the release path")
    # ... nor by an expression of their own that can raise (a lookup, a dereference of something that may be None, a
    # property or helper doing either) - in the closer and in what report_fatal_error does before it calls the closer
    from ..totality import risky

    rfe = roles.conn.methods.get("report_fatal_error")
    scopes = [(roles.closer, list(roles.closer.node.body))]
    if rfe is not None:
        pre = []
        for st in rfe.node.body:
            if any(isinstance(c, ast.Call) and roles.closer in res.callees(rfe, c).funcs for c in ast.walk(st)) and not isinstance(st, (ast.If, ast.Try, ast.With)):
                break
            pre.append(st)
        scopes.append((rfe, pre))
    for f_, stmts in scopes:
        rk = risky(ctx, res, f_, stmts)
        ctx.ob("C08.R8", f_, f"no expression on the way to / inside the release sequence can raise by itself ({f_.name})", not rk, f"{rk[:3]}: the exception would leave before the connection is closed (CLOSED guard and waiters, timers, stop callback never released)")
    ctx.ob("C08.R8", roles.closer, f"every library call on the release path is a non-raising release operation ({len(seen)} functions)", not bad, f"{bad[:3]}: if it raises, the rest of the release sequence and the stop callback are skipped, and the CLOSED guard makes every later close a no-op")


# ----------------------------------------------------------------------- R9
def r9(ctx: Ctx, roles, inv: dict[str, str]) -> None:
    """A resource is put where the closer will find it before anything is done with it: once a local holds a freshly
    acquired socket / helper, every use of that local other than closing it comes after the store into the attribute
    the closer releases (an exception in between would leak it - the closer sees None)."""
    res = resolver(ctx)
    n_sites = 0
    for m in roles.conn.methods.values():
        g = cfg_of(ctx, m)
        for st, tgt, val in attr_writes(m):
            if norm(tgt.value) != "self" or tgt.attr not in inv or not isinstance(val, ast.Name) or val.id in m.param_names():
                continue
            local = val.id
            n_sites += 1
            reg = occurred_before(g, lambda n, st=st: ["registered"] if n.ast is st else [])
            early = []
            for n in g.reachable():
                if n.ast is None or n.ast is st:
                    continue
                for c in node_calls(n):
                    uses = (isinstance(c.func, ast.Attribute) and isinstance(c.func.value, ast.Name) and c.func.value.id == local and c.func.attr != "close") or any(isinstance(a, ast.Name) and a.id == local for a in list(c.args) + [k.value for k in c.keywords])
                    if uses and "registered" not in reg.get(n, frozenset()):
                        early.append(f"L{c.lineno} {norm(c)[:40]}")
            ctx.ob("C08.R9", m, f"`{local}` is stored into self.{tgt.attr} before anything else is done with it", not early, f"{early[:3]} can raise while the closer still sees self.{tgt.attr} as None: the resource would never be released")
    ctx.count("C08.R9", n_sites, 1, "resources registered from a local")
