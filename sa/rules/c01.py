"""C01 - plaintext stream reassembly is lossless and independent of TCP segmentation."""

from __future__ import annotations

import ast
from typing import Any

from ..astutil import attr_writes
from ..cfg import Node, cfg_of, node_calls, walk_own
from ..closed import resolver
from ..flow import disjunctive
from ..guard import walk
from ..lin import Buf, Cond, Interp, Lin, Opaque, entails, negate
from ..report import Ctx
from ..src import AnalysisError, Func, norm, own_nodes
from ..sym import Unknown

EXPLANATION = (
    "Static rules on the frame-helper buffer code. R1: a disjunctive path analysis of one iteration of the plaintext receive "
    "loop over the events reset / read / consume / deliver / error: every path is `reset read+ return` with nothing "
    "consumed or delivered, or `reset read+ consume deliver` (either order) back to the loop head, with every read before "
    "the consume; and every read result is tested against its 'bytes missing' sentinel on an edge that leaves the function "
    "before the value is used. R2: who-may-write sweep - buffer, length and cursor are written only by the frame-helper "
    "classes. R3: abstract interpretation of the four buffer primitives over a linear-expression domain (symbols: buffer "
    "length N, cursor P, requested length k, len(data)); per path the post-state is compared as normalised linear forms "
    "with the specification (append keeps the tail, consume drops exactly the cursor prefix, read returns None exactly when "
    "N < P+k and otherwise the slice [P, P+k), varint read indexes only below N and advances by one). R4: reader and writer "
    "varint constants agree (mask = 2^shift - 1, continuation = 2^shift). Decides the shape conditions without which "
    "reassembly cannot be lossless; equality of delivered and sent sequences for all byte streams is not decided."
    ' Added in the build: reader layout (the type, length and payload handed over are bound only by the matching reads, in wire order) and, for reads after the framing marker, no real value is a reason to give up.'
    ' Also: type and payload handed over were bound in the same loop iteration; guards on later reads that cannot be folded are rejected.'
)
ASSUMPTIONS = ["bytes slicing/concatenation semantics", "the receive callback runs to completion (M1)"]

BUFFER_ATTRS = ("_buffer", "_buffer_len", "_pos")


def helper_family(ctx: Ctx) -> set[str]:
    base = ctx.repo.cls("APIFrameHelper")
    return {base.name} | {c.name for c in ctx.repo.subclasses(base)}


def run(ctx: Ctx) -> None:
    r1(ctx, ctx.repo.func("_frame_helper.plain_text", "APIPlaintextFrameHelper.data_received"), "C01.R1", deliver_direct=True)
    reader_layout(ctx, ctx.repo.func("_frame_helper.plain_text", "APIPlaintextFrameHelper.data_received"))
    r2(ctx)
    r3(ctx)
    r4(ctx)


def reader_layout(ctx: Ctx, fn: Func) -> None:
    """What is handed over is what was read: the (type, payload) pair given to the connection consists of the value of
    a varint read and the result of a `_read(<length>)` whose length is itself the value of a varint read (or the
    empty payload), and the reads happen in the order of the wire layout - marker, length, type, payload."""
    from ..flow import occurred_before

    res = resolver(ctx)
    g = cfg_of(ctx, fn)
    deliver = [c for c in own_nodes(fn.node) if isinstance(c, ast.Call) and any(f.name == "process_packet" for f in res.callees(fn, c).funcs)]
    ctx.ob("C01.R1", fn, "delivery sites take (type, payload)", len(deliver) >= 1 and all(len(c.args) == 2 and not c.keywords for c in deliver), f"{[norm(c)[:60] for c in deliver]}")
    if not deliver or not all(len(c.args) == 2 for c in deliver):
        return

    def defs_of(name: str) -> list[ast.expr]:
        out = []
        for n in own_nodes(fn.node):
            if isinstance(n, (ast.Assign, ast.AnnAssign)) and n.value is not None:
                tg = n.targets if isinstance(n, ast.Assign) else [n.target]
                if any(isinstance(t, ast.Name) and t.id == name for t in tg):
                    out.append(n.value)
            if isinstance(n, ast.NamedExpr) and n.target.id == name:
                out.append(n.value)
            if isinstance(n, ast.AugAssign) and isinstance(n.target, ast.Name) and n.target.id == name:
                out.append(n)  # type: ignore[arg-type]
        return out

    def is_read(e: ast.AST, which: str) -> bool:
        return isinstance(e, ast.Call) and which in {f.name for f in res.callees(fn, e).funcs}

    t_names = {norm(c.args[0]) for c in deliver}
    t_arg = deliver[0].args[0]
    t_defs = defs_of(t_arg.id) if isinstance(t_arg, ast.Name) else []
    ctx.ob("C01.R1", fn, "the type handed over is the value of a varint read, nothing else", len(t_names) == 1 and isinstance(t_arg, ast.Name) and bool(t_defs) and all(is_read(d, "_read_varuint") for d in t_defs), f"{sorted(t_names)} = {[norm(d)[:40] for d in t_defs]}")
    lens = []
    okp = True
    shown = []
    for c in deliver:
        p_arg = c.args[1]
        srcs: list[Any] = defs_of(p_arg.id) if isinstance(p_arg, ast.Name) and defs_of(p_arg.id) else [p_arg]
        for d in srcs:
            shown.append(norm(d)[:40] if isinstance(d, ast.AST) else str(d))
            if is_read(d, "_read") and not is_read(d, "_read_varuint") and len(d.args) == 1 and isinstance(d.args[0], ast.Name):  # type: ignore[attr-defined]
                lens.append(d.args[0].id)  # type: ignore[attr-defined]
            elif isinstance(d, ast.expr) and ctx.sym.eval(d, fn.module.name) == b"":
                pass
            else:
                okp = False
    ctx.ob("C01.R1", fn, "the payload handed over is `_read(<length>)` or the empty payload, nothing else", okp and len(set(lens)) == 1, f"payload sources {shown}")
    if len(set(lens)) != 1 or not isinstance(t_arg, ast.Name):
        return
    l_name = lens[0]
    l_defs = defs_of(l_name)
    ctx.ob("C01.R1", fn, "the payload length is the value of a varint read, nothing else (and not the type)", bool(l_defs) and all(is_read(d, "_read_varuint") for d in l_defs) and l_name != t_arg.id, f"{l_name} = {[norm(d)[:40] for d in l_defs]}")

    def binds(n: Node) -> list[str]:
        out = []
        if n.ast is None:
            return out
        for x in walk_own(n.ast):
            if isinstance(x, ast.NamedExpr) and is_read(x.value, "_read_varuint"):
                out.append(f"bind:{x.target.id}")
            if isinstance(x, (ast.Assign, ast.AnnAssign)) and x.value is not None and is_read(x.value, "_read_varuint"):
                for t in x.targets if isinstance(x, ast.Assign) else [x.target]:
                    if isinstance(t, ast.Name):
                        out.append(f"bind:{t.id}")
        return out

    # what is handed over belongs to THIS frame: on every path from the loop head to a delivery the type and the payload
    # have been (re)bound in the current iteration (a value initialised once in front of the loop would be the previous
    # frame's when a branch skips the assignment)
    loops_ = [x for x in own_nodes(fn.node) if isinstance(x, ast.While)]
    heads_ = [n for n in g.reachable() if n.kind == "join" and loops_ and n.ast is loops_[0]]
    if heads_:
        from ..flow import disjunctive

        assigned_here = {t.id for x in own_nodes(fn.node) for t in ((x.targets if isinstance(x, ast.Assign) else [x.target]) if isinstance(x, (ast.Assign, ast.AnnAssign, ast.AugAssign, ast.NamedExpr)) else []) if isinstance(t, ast.Name)}
        watch = ({t_arg.id} | {c.args[1].id for c in deliver if isinstance(c.args[1], ast.Name)}) & assigned_here  # module constants (the empty payload) are not locals

        def step_i(n: Node, st: frozenset, label: str):
            if label == "exc":
                return None
            if n is heads_[0]:
                st = frozenset()
            a = n.ast
            if a is not None:
                for x in walk_own(a):
                    tg = []
                    if isinstance(x, ast.Assign):
                        tg = x.targets
                    elif isinstance(x, (ast.AnnAssign, ast.AugAssign)) and getattr(x, "value", None) is not None:
                        tg = [x.target]
                    elif isinstance(x, ast.NamedExpr):
                        tg = [x.target]
                    for t in tg:
                        if isinstance(t, ast.Name) and t.id in watch:
                            st = st | {t.id}
            return st

        fi = disjunctive(g, frozenset(), step_i)
        stale = []
        for n in g.reachable():
            for c in node_calls(n):
                if c in deliver:
                    needed = {a.id for a in c.args if isinstance(a, ast.Name)} & watch
                    for st in fi.get(n, frozenset()):
                        # a walrus inside a short-circuit (`A and (x := ...)`) is not executed when A is false
                        if not needed <= st:
                            stale.append(sorted(needed - st))
        ctx.ob("C01.R1", fn, "the type and payload handed over were bound in the same loop iteration", not stale, f"not rebound on some path of the iteration: {stale[:2]}: the previous frame's value would be delivered again")
    ob_ = occurred_before(g, binds)
    bind_nodes = {tok: [n for n in g.reachable() if tok in binds(n)] for tok in (f"bind:{l_name}", f"bind:{t_arg.id}")}
    others = sorted({b for n in g.reachable() for b in binds(n)} - {f"bind:{l_name}", f"bind:{t_arg.id}"})
    order_ok = len(others) == 1 and all(others[0] in ob_.get(n, frozenset()) for n in bind_nodes[f"bind:{l_name}"]) and all(f"bind:{l_name}" in ob_.get(n, frozenset()) for n in bind_nodes[f"bind:{t_arg.id}"])
    pay_nodes = [n for n in g.reachable() if n.ast is not None and any(isinstance(x, ast.Call) and is_read(x, "_read") and not is_read(x, "_read_varuint") for x in walk_own(n.ast))]
    order_ok = order_ok and bool(pay_nodes) and all(f"bind:{t_arg.id}" in ob_.get(n, frozenset()) for n in pay_nodes)
    del_nodes = [n for n in g.reachable() if any(c in deliver for c in node_calls(n))]
    order_ok = order_ok and all(f"bind:{t_arg.id}" in ob_.get(n, frozenset()) for n in del_nodes)
    ctx.ob("C01.R1", fn, "reads follow the wire layout: marker, length, type, payload", order_ok, f"varint reads bound to {others} + {l_name}, {t_arg.id}")


# ----------------------------------------------------------------------- R1
def loop_events(ctx: Ctx, fn: Func, n: Node, deliver_funcs: set[str]) -> list[str]:
    res = resolver(ctx)
    out = []
    if n.kind == "stmt" and isinstance(n.ast, ast.Assign) and any(norm(t) == "self._pos" for t in n.ast.targets):
        v = n.ast.value
        out.append("reset" if isinstance(v, ast.Constant) and v.value == 0 else "cursor-write")
    for c in node_calls(n):
        cs = res.callees(fn, c)
        names = {f.name for f in cs.funcs}
        keys = {f.key for f in cs.funcs}
        if names & {"_read", "_read_varuint"}:
            out.append("read")
        if "_remove_from_buffer" in names:
            out.append("consume")
        if keys & deliver_funcs or "process_packet" in names:
            out.append("deliver")
        if names & {"_handle_error_and_close", "_error_on_incorrect_preamble", "_handle_error"}:
            out.append("err")
    return out


def r1(ctx: Ctx, fn: Func, rule: str, deliver_direct: bool, deliver_funcs: set[str] | None = None) -> None:
    """Per-iteration pairing on a receive loop (also used for the Noise loop by C03)."""
    g = cfg_of(ctx, fn)
    deliver_funcs = deliver_funcs or set()
    loops = [n for n in own_nodes(fn.node) if isinstance(n, ast.While)]
    ctx.require(len(loops) == 1, f"{fn.key}: receive loop not unique")
    head = [n for n in g.reachable() if n.kind == "join" and n.ast is loops[0]]
    ctx.require(len(head) == 1, "loop head not found")
    head_n = head[0]
    in_loop = {x for b in loops[0].body for x in ast.walk(b)}

    def step(n: Node, s: frozenset, label: str) -> frozenset | None:
        if label == "exc":
            return None
        if n is head_n:
            s = frozenset()  # new iteration
        evs = loop_events(ctx, fn, n, deliver_funcs)
        for e in evs:
            if e == "reset":
                s = s | {"reset"}
            elif e == "cursor-write":
                s = s | {"bad:cursor written with a non-zero value"}
            elif e == "read":
                if "reset" not in s:
                    s = s | {"bad:read before the cursor reset"}
                if "consumed" in s:
                    s = s | {"bad:read after the consume (stale cursor)"}
                s = s | {"read"}
            elif e == "consume":
                if "consumed" in s:
                    s = s | {"bad:two consumes in one iteration"}
                if "read" not in s:
                    s = s | {"bad:consume without a read"}
                s = s | {"consumed"}
            elif e == "deliver":
                if "delivered" in s:
                    s = s | {"bad:two deliveries in one iteration"}
                s = s | {"delivered"}
            elif e == "err":
                s = s | {"err"}
        if n.kind == "cond" and n.ast is not None and ("consumed" in s or "delivered" in s) and any(k in norm(n.ast) for k in ("CLOSED", "_transport", "is_connected", "connection_state")):
            s = s | {"closed-tested"}
        if isinstance(n.ast, ast.Return) and n.ast in in_loop and label == "return":
            s = s | {"@return-in-loop"}
        if label in ("back", "continue"):
            s = s | {"@back"}
        return s

    facts = disjunctive(g, frozenset(), step)
    # states arriving at the loop head through a back edge, and at the exit
    n_paths = 0
    problems: list[str] = []
    for l, p in head_n.pred:
        if l not in ("back", "continue"):
            continue
        for s in facts.get(p, frozenset()):
            s2 = step(p, s, l)
            if s2 is None:
                continue
            n_paths += 1
            bad = [x for x in s2 if x.startswith("bad:")]
            if bad:
                problems += bad
            if not ({"consumed", "delivered"} <= s2):
                problems.append(f"iteration continues without {'consume' if 'consumed' not in s2 else 'deliver'} ({'livelock on the same frame' if 'consumed' not in s2 else 'frame dropped'})")
            if "err" in s2:
                problems.append("loop continues after an error was reported")
    for s in facts.get(g.exit, frozenset()):
        n_paths += 1
        bad = [x for x in s if x.startswith("bad:")]
        problems += bad
        if ("consumed" in s) != ("delivered" in s):
            problems.append("returns with a frame consumed but not delivered (lost)" if "consumed" in s else "returns with a frame delivered but not consumed (delivered again on the next chunk)")
        if "err" in s and ("consumed" in s or "delivered" in s):
            problems.append("error path consumes or delivers")
        if "@return-in-loop" in s and ("consumed" in s or "delivered" in s) and "closed-tested" not in s and "err" not in s:
            problems.append("returns right after consuming a frame instead of looping: complete frames buffered behind it are stranded until the next chunk arrives")
    ctx.ob(rule, fn, "every loop iteration is reset-read-return or reset-read-consume-deliver", not problems, "; ".join(sorted(set(problems)))[:300])
    ctx.analysed.setdefault("loop_iteration_states", {})[fn.key] = n_paths
    # buffering happens once, before the loop
    adds = [n for n in g.reachable() if any("_add_to_buffer" in {f.name for f in resolver(ctx).callees(fn, c).funcs} for c in node_calls(n))]
    ctx.ob(rule, fn, "received chunk appended exactly once, before the loop", len(adds) == 1 and adds[0].ast not in in_loop and isinstance(adds[0].ast, ast.Expr) and [norm(a) for a in adds[0].ast.value.args] == [p for p in fn.param_names() if p != "self"][:1], f"{[n.text(40) for n in adds]}")
    # nothing may leave the function between the append and the loop on the strength of helper state:
    # complete frames could already be buffered (an empty-chunk shortcut that tests only the argument is fine)
    early = []
    for n in g.reachable():
        if isinstance(n.ast, ast.Return) and n.ast not in in_loop and not n.copy_of:
            # conditions on some path from the entry to this return, before the loop head
            seen_b = {n}
            todo_b = [n]
            conds_b = []
            while todo_b:
                x = todo_b.pop()
                for l, pnode in x.pred:
                    if pnode in seen_b or pnode is head_n or (pnode.ast is not None and pnode.ast in in_loop):
                        continue
                    seen_b.add(pnode)
                    todo_b.append(pnode)
                    if pnode.kind == "cond":
                        conds_b.append(pnode)
            if any("self." in norm(c.ast) for c in conds_b) or not conds_b:
                early.append(f"L{n.lineno} guarded by {[norm(c.ast)[:50] for c in conds_b]}")
    ctx.ob(rule, fn, "no return before the parse loop that depends on helper state", not early, f"{early[:2]}: a chunk that completes buffered frames can be appended and left unparsed (stale threshold / flag)")
    # loop runs while bytes are buffered
    ctx.ob(rule, fn, "loop continues while unconsumed bytes remain", norm(loops[0].test) in ("self._buffer_len", "self._buffer_len > 0", "self._buffer_len != 0"), f"loop test {norm(loops[0].test)}")

    # ---- sentinel discipline of the reads
    res = resolver(ctx)
    reads = []
    for n in g.reachable():
        if n.ast is None:
            continue
        for x in walk_own(n.ast):
            var = None
            call = None
            if isinstance(x, ast.NamedExpr) and isinstance(x.value, ast.Call):
                var, call = x.target.id, x.value
            elif isinstance(x, ast.Assign) and isinstance(x.value, ast.Call) and len(x.targets) == 1 and isinstance(x.targets[0], ast.Name):
                var, call = x.targets[0].id, x.value
            if call is None:
                continue
            names = {f.name for f in res.callees(fn, call).funcs}
            if "_read_varuint" in names:
                reads.append((n, var, -1))
            elif "_read" in names:
                reads.append((n, var, None))
    ctx.analysed.setdefault("reads", {})[fn.key] = [(v, s) for _, v, s in reads]
    n_read_calls = sum(1 for n in g.reachable() for c in node_calls(n) if {f.name for f in res.callees(fn, c).funcs} & {"_read", "_read_varuint"})
    ctx.ob(rule, fn, "every buffer read binds its result to a name that can be tested", n_read_calls == len(reads), f"{n_read_calls} read calls, {len(reads)} bound directly to a local: a read result used inside a larger expression cannot be checked for 'bytes missing'")
    for rn, var, sentinel in reads:
        def classify(n: Node, var=var, sentinel=sentinel):
            t = n.ast
            if t is None:
                return None
            names = {x.id for x in ast.walk(t) if isinstance(x, ast.Name)}
            if var in names:
                inner = t
                env = {var: sentinel}
                # replace a walrus on this var by the var itself
                class _R(ast.NodeTransformer):
                    def visit_NamedExpr(self, node: ast.NamedExpr):  # noqa: N802
                        if node.target.id == var:
                            return ast.Name(id=var, ctx=ast.Load())
                        return self.generic_visit(node)
                import copy

                t2 = _R().visit(copy.deepcopy(inner))
                ast.fix_missing_locations(t2)
                v = ctx.sym.eval(t2, fn.module.name, env)
                if v is not Unknown and isinstance(v, bool):
                    return ("T", v)
            return None

        reach = walk(g, {"T": True}, classify, start=rn)
        uses = []
        for n in reach:
            if n is rn or n.ast is None or n.kind not in ("stmt", "cond"):
                continue
            evs = loop_events(ctx, fn, n, deliver_funcs)
            uses_var = any(isinstance(x, ast.Name) and x.id == var and isinstance(x.ctx, ast.Load) for x in walk_own(n.ast))
            if ("consume" in evs or "deliver" in evs) or (uses_var and ("read" in evs)):
                uses.append(n)
            if n is head_n:
                uses.append(n)
        ctx.ob(rule, fn, f"missing bytes ({var} == {sentinel}) leave the function before anything is consumed, delivered or re-read", not uses, f"with {var} == {sentinel!r} the loop still reaches {[u.text(40) for u in uses[:2]]}: a partial frame would be lost or mis-parsed", node=rn.ast)
        # converse: only the sentinel may make the loop give up - every real value goes on to a consume (or an error report)
        samples = [0, 1, 127, 128, 16384, 65535, 65536, 2**32, 2**64] if sentinel == -1 else [b"", b"\x00", b"x" * 3]
        # the first read of an iteration is the framing marker: a wrong value is reported as an error (C04); for every
        # later read (length, type, payload) a real value is never a reason to give up - only the consume counts
        first_read = rn is min((r[0] for r in reads), key=lambda q: (q.lineno, q.id))
        need = {"consume", "err"} if first_read else {"consume"}
        stuck = []
        for val in samples:
            def classify_v(n: Node, var=var, val=val):
                t = n.ast
                if t is None or var not in {x.id for x in ast.walk(t) if isinstance(x, ast.Name)}:
                    return None

                class _R(ast.NodeTransformer):
                    def visit_NamedExpr(self, node: ast.NamedExpr):  # noqa: N802
                        if node.target.id == var:
                            return ast.Name(id=var, ctx=ast.Load())
                        return self.generic_visit(node)

                import copy

                t2 = _R().visit(copy.deepcopy(t))
                ast.fix_missing_locations(t2)
                v = ctx.sym.eval(t2, fn.module.name, {var: val})
                if v is not Unknown and isinstance(v, bool):
                    return ("T", v)
                return None

            reach_v = walk(g, {"T": True}, classify_v, start=rn)
            goes_on = any((need & set(loop_events(ctx, fn, n, deliver_funcs))) for n in reach_v if n is not rn and n.ast is not None and n.kind in ("stmt", "cond"))
            if not goes_on:
                stuck.append(val if not isinstance(val, bytes) else f"{len(val)} byte(s)")
        if not first_read and sentinel == -1:
            # a comparison of a later read's value with something the checker cannot fold (a configurable limit, an
            # attribute) is a value-dependent decision that is not decided by the samples: rejected
            opaque = []
            for n in g.reachable():
                t = n.ast
                if n.kind == "cond" and isinstance(t, ast.Compare) and len(t.ops) == 1 and any(isinstance(o, ast.Name) and o.id == var for o in (t.left, t.comparators[0])):
                    other = t.comparators[0] if (isinstance(t.left, ast.Name) and t.left.id == var) else t.left
                    if ctx.sym.eval(other, fn.module.name, {var: 1}) is Unknown:
                        opaque.append(f"L{n.lineno} {norm(t)[:50]}")
            if opaque:
                stuck.append(f"undecided guard {opaque[:2]}")
        ctx.ob(rule, fn, f"only the sentinel stops the parse: every real value of {var} goes on to the consume", not stuck, f"with {var} in {stuck} the loop gives up without consuming: a valid frame (e.g. type 0 / empty payload) stalls the stream forever", node=rn.ast)


# ----------------------------------------------------------------------- R2
def buffer_writes(funcs) -> list[tuple[Func, ast.AST, str]]:
    out = []
    for fn in funcs:
        for st, tgt, val in attr_writes(fn):
            if tgt.attr in BUFFER_ATTRS:
                out.append((fn, st, tgt.attr))
    return out


def r2(ctx: Ctx) -> None:
    fam = helper_family(ctx)
    ws = buffer_writes(ctx.repo.all_funcs())
    ctx.count("C01.R2", len(ws), 12, "writes of buffer/length/cursor")
    bad = [(fn, st, a) for fn, st, a in ws if not (fn.cls is not None and fn.cls.name in fam)]
    for fn, st, a in bad:
        ctx.ob("C01.R2", fn, st, False, f"{a} written outside the frame-helper classes")
    ctx.ob("C01.R2", "package", "buffer state written only by the frame-helper classes", not bad, f"{len(bad)} foreign writer(s)")
    ctx.analysed["buffer_writers"] = sorted({fn.key for fn, _, _ in ws})
    import textwrap

    from ..src import Func as F

    tree = ast.parse(textwrap.dedent("""
        class Z:
            def f(self, fh):
                fh._buffer_len = 0
                fh._pos += 1
    """))
    fake = F(ctx.repo.module("connection"), "Z.f", tree.body[0].body[0], None)  # type: ignore[attr-defined]
    ctx.require(len(buffer_writes([fake])) == 2, "C01.R2 self-check: matcher no longer matches its positive example")


# ----------------------------------------------------------------------- R3
N, P, L = Lin.sym("N"), Lin.sym("P"), Lin.sym("L")
B = Buf(("B",))
NONE = Buf(("none",))


def _interp(ctx: Ctx, fn: Func, params: dict[str, Any]) -> Interp:
    return Interp(cfg_of(ctx, fn), {"self._buffer_len": N, "self._pos": P, "self._buffer": B}, params)


def _has(conds: list[Cond], want: Cond) -> bool:
    return entails(conds, want)


def r3(ctx: Ctx) -> None:
    base = "_frame_helper.base"
    # ---- _add_to_buffer
    fn = ctx.repo.func(base, "APIFrameHelper._add_to_buffer")
    pname = [p for p in fn.param_names() if p != "self"][0]
    X = Buf(("X", pname))  # the chunk as received (any bytes-like type)
    Xb = Buf(("Xb", pname))  # its bytes: bytes(data), or data itself where `type(data) is bytes` holds
    lenX = Lin.sym(f"len({pname})")  # number of BYTES; len() of an un-normalised chunk is items(data), a different symbol
    it = _interp(ctx, fn, {pname: X})
    n = 0
    for st, end in it.paths():
        n += 1
        Nf, Bf = st.env.get("self._buffer_len"), st.env.get("self._buffer")
        tag = f"path[{' & '.join(map(repr, st.conds)) or 'true'}]"
        tag = tag[:-1] + "".join(f" & {'' if v else 'not '}{t}" for t, v in st.other_conds) + "]"
        ctx.ob("C01.R3", fn, f"append: length grows by the number of bytes of the chunk on {tag}", isinstance(Nf, Lin) and Nf == N + lenX, f"_buffer_len becomes {Nf!r}, expected N+len(bytes(data)) (len() of a chunk that is not known to be `bytes` counts items, e.g. a cast memoryview)")
        empty = _has(st.conds, Cond(N, "=="))
        nonempty = _has(st.conds, Cond(N, "!="))
        cat_ok = Bf in (Buf(("cat", B, Xb)), Buf(("cat", B, X)))  # bytes + bytes-like concatenates the raw bytes either way
        if empty:
            ok = Bf == Xb
            exp = "bytes(data) (buffer was empty; the chunk itself only where it is known to be `bytes`, never an aliased bytearray/memoryview)"
        elif nonempty:
            ok = cat_ok
            exp = "old buffer + data"
        else:
            ok = cat_ok
            exp = "old buffer + data (emptiness not tested on this path)"
        ctx.ob("C01.R3", fn, f"append: buffer content on {tag}", ok, f"_buffer becomes {Bf!r}, expected {exp}: the retained tail of a partial frame would be lost or duplicated")
    ctx.count("C01.R3.add", n, 4, "paths of _add_to_buffer")
    # ---- _remove_from_buffer
    fn = ctx.repo.func(base, "APIFrameHelper._remove_from_buffer")
    it = _interp(ctx, fn, {})
    n = 0
    for st, end in it.paths():
        n += 1
        Nf, Bf, Pf = st.env.get("self._buffer_len"), st.env.get("self._buffer"), st.env.get("self._pos")
        tag = f"path[{' & '.join(map(repr, st.conds)) or 'true'}]"
        ctx.ob("C01.R3", fn, f"consume: length shrinks by the cursor on {tag}", isinstance(Nf, Lin) and Nf == N - P, f"_buffer_len becomes {Nf!r}, expected N-P")
        if _has(st.conds, Cond(N - P, "==")):
            ok = Bf == NONE or Bf == Buf(("slice", B, P, None))
            exp = "None (everything consumed)"
        else:
            ok = Bf == Buf(("slice", B, P, None))
            exp = "buffer[P:]"
        ctx.ob("C01.R3", fn, f"consume: exactly the cursor prefix is dropped on {tag}", ok, f"_buffer becomes {Bf!r}, expected {exp}")
    ctx.count("C01.R3.remove", n, 2, "paths of _remove_from_buffer")
    # ---- _read
    fn = ctx.repo.func(base, "APIFrameHelper._read")
    pname = [p for p in fn.param_names() if p != "self"][0]
    k = Lin.sym("k")
    it = _interp(ctx, fn, {pname: k})
    n = 0
    short = Cond(N - P - k, "<")
    for st, end in it.paths():
        n += 1
        rets = [e for e in st.events if e[0] == "return"]
        writes = [e for e in st.events if e[0] == "write"]
        tag = f"path[{' & '.join(map(repr, st.conds)) or 'true'}]"
        if not rets:
            ctx.ob("C01.R3", fn, f"read: returns on {tag}", False, "path falls off the end")
            continue
        rv = rets[-1][1]
        if rv == NONE:
            ctx.ob("C01.R3", fn, f"read: None exactly when fewer than k bytes remain ({tag})", _has(st.conds, short) and len(st.conds) == 1, f"returns None under {st.conds!r}, specified N-P-k < 0 (a `<=` here delivers a frame one chunk late)")
            ctx.ob("C01.R3", fn, f"read: a failed read changes nothing ({tag})", not writes, f"writes {[(w[1], w[2]) for w in writes]}")
        else:
            ctx.ob("C01.R3", fn, f"read: slice returned only when k bytes are available ({tag})", _has(st.conds, negate(short)), f"conditions {st.conds!r}")
            ctx.ob("C01.R3", fn, f"read: returns buffer[P:P+k] ({tag})", rv == Buf(("slice", B, P, P + k)), f"returns {rv!r}")
            ctx.ob("C01.R3", fn, f"read: cursor advances by k ({tag})", st.env.get("self._pos") == P + k and all(w[1] == "self._pos" for w in writes), f"_pos becomes {st.env.get('self._pos')!r}; writes {[w[1] for w in writes]}")
    ctx.count("C01.R3.read", n, 2, "paths of _read")
    # ---- _read_varuint
    fn = ctx.repo.func(base, "APIFrameHelper._read_varuint")
    g = cfg_of(ctx, fn)
    loops = [x for x in own_nodes(fn.node) if isinstance(x, ast.While)]
    ctx.require(len(loops) == 1, "_read_varuint: loop not unique")
    it = _interp(ctx, fn, {})
    head = [x for x in g.reachable() if x.kind == "join" and x.ast is loops[0]][0]
    avail = Cond(P - N, "<")  # N > P
    n = 0
    # the cursor that walks the buffer: the expression the buffer is indexed with (self._pos today; a local copy
    # written back on every exit is the same thing)
    cursor = "self._pos"
    for x in own_nodes(fn.node):
        if isinstance(x, ast.Subscript) and norm(x.value) == "self._buffer" and not isinstance(x.slice, ast.Slice):
            cursor = norm(x.slice)
    for st, end in it.paths():
        n += 1
        rets = [e for e in st.events if e[0] == "return"]
        idx = [e for e in st.events if e[0] == "index"]
        tag = f"path[{' & '.join(map(repr, st.conds)) or 'true'}]"
        in_body = _has(st.conds, avail)
        if not in_body:
            # loop not entered: must return -1 under N <= P, without touching anything
            ok = bool(rets) and rets[-1][1] == Lin.c(-1) and _has(st.conds, negate(avail)) and not [e for e in st.events if e[0] == "index"] and all(e[1] == "self._pos" and e[2] == P for e in st.events if e[0] == "write")
            ctx.ob("C01.R3", fn, f"varint: -1 exactly when no byte is available ({tag})", ok, f"returns {rets[-1][1] if rets else None!r} under {st.conds!r}")
            continue
        ctx.ob("C01.R3", fn, f"varint: one byte read at the cursor ({tag})", len(idx) == 1 and idx[0][1] == B and idx[0][2] == P and _has(idx[0][3], avail), f"indexes {[(e[1], e[2]) for e in idx]}")
        cur_v = st.env.get(cursor)
        okc = cur_v == P + Lin.c(1) and (not rets or st.env.get("self._pos") == P + Lin.c(1))
        ctx.ob("C01.R3", fn, f"varint: cursor advances by one per byte ({tag})", okc, f"cursor {cursor} becomes {cur_v!r}, _pos at the return {st.env.get('self._pos')!r}")
        if rets:
            ctx.ob("C01.R3", fn, f"varint: a complete value is never the sentinel ({tag})", rets[-1][1] != Lin.c(-1), "returns -1 although a terminating byte was read")
    ctx.count("C01.R3.varuint", n, 3, "paths of _read_varuint")
    # return -1 only after the loop
    m1 = [x for x in own_nodes(fn.node) if isinstance(x, ast.Return) and isinstance(x.value, ast.UnaryOp) and norm(x.value) == "-1"]
    inside = {x for b in loops[0].body for x in ast.walk(b)}
    ctx.ob("C01.R3", fn, "varint: sentinel returned only when the buffer runs out", len(m1) == 1 and m1[0] not in inside, "")
    wr = {tgt.attr for st_, tgt, val in attr_writes(fn)}
    ctx.ob("C01.R3", fn, "varint: writes only the cursor", wr <= {"_pos"}, f"writes {sorted(wr)}")


# ----------------------------------------------------------------------- R4
def varint_reader_consts(ctx: Ctx) -> dict[str, Any]:
    fn = ctx.repo.func("_frame_helper.base", "APIFrameHelper._read_varuint")
    out: dict[str, Any] = {}
    for n in own_nodes(fn.node):
        if isinstance(n, ast.BinOp) and isinstance(n.op, ast.LShift) and isinstance(n.left, ast.BinOp) and isinstance(n.left.op, ast.BitAnd):
            c = [x for x in (n.left.left, n.left.right) if isinstance(x, ast.Constant)]
            if c:
                out["mask"] = c[0].value
                out["shift_var"] = norm(n.right)
    # the continuation test: a condition on (byte & C); its polarity is decided on the CFG (any spelling)
    g = cfg_of(ctx, fn)

    def cl_cont(nd: Node):
        t = nd.ast
        pol = True
        if isinstance(t, ast.Compare) and len(t.ops) == 1 and isinstance(t.comparators[0], ast.Constant) and t.comparators[0].value == 0 and isinstance(t.ops[0], (ast.Eq, ast.NotEq)):
            pol = isinstance(t.ops[0], ast.NotEq)
            t = t.left
        if isinstance(t, ast.BinOp) and isinstance(t.op, ast.BitAnd):
            c = [x for x in (t.left, t.right) if isinstance(x, ast.Constant)]
            if c and c[0].value != out.get("mask"):
                out["cont"] = c[0].value
                return ("more", pol)
        return None

    for nd in g.reachable():
        if nd.kind == "cond":
            cl_cont(nd)
    if "cont" in out:
        rets = [nd for nd in g.reachable() if isinstance(nd.ast, ast.Return) and isinstance(nd.ast.value, ast.Name)]
        adv = [nd for nd in g.reachable() if nd.kind == "stmt" and isinstance(nd.ast, ast.AugAssign) and isinstance(nd.ast.op, ast.Add) and norm(nd.ast.target) == out.get("shift_var")]
        conds = [nd for nd in g.reachable() if nd.kind == "cond" and cl_cont(nd)]
        if conds:
            from ..guard import truth_table

            tr = truth_table(g, ["more"], cl_cont, rets, start=conds[0])
            ta = truth_table(g, ["more"], cl_cont, adv, start=conds[0])
            out["cont_op"] = "Eq" if (tr[(False,)] == (True, True) and not tr[(True,)][0] and ta[(True,)] == (True, True) and not ta[(False,)][0]) else "wrong-polarity"
    for n in own_nodes(fn.node):
        if False:
            pass
    for n in own_nodes(fn.node):
        if isinstance(n, ast.AugAssign) and isinstance(n.op, ast.Add) and norm(n.target) == out.get("shift_var") and isinstance(n.value, ast.Constant):
            out["shift"] = n.value.value
        if isinstance(n, ast.Assign) and any(norm(t) == out.get("shift_var") for t in n.targets) and isinstance(n.value, ast.Constant):
            out["shift_init"] = n.value.value
        if isinstance(n, ast.AugAssign) and isinstance(n.op, ast.BitOr):
            out["accumulate"] = norm(n.target)
    return out


def varint_writer_consts(ctx: Ctx) -> dict[str, Any]:
    fn = ctx.repo.func("_frame_helper.plain_text", "_varuint_to_bytes")
    out: dict[str, Any] = {}
    p = fn.param_names()[0]
    for n in own_nodes(fn.node):
        if isinstance(n, ast.BinOp) and isinstance(n.op, ast.BitAnd) and norm(n.left) == p and isinstance(n.right, ast.Constant):
            out["mask"] = n.right.value
        if isinstance(n, ast.AugAssign) and isinstance(n.op, ast.RShift) and norm(n.target) == p and isinstance(n.value, ast.Constant):
            out["shift"] = n.value.value
        if isinstance(n, ast.BinOp) and isinstance(n.op, ast.BitOr) and isinstance(n.right, ast.Constant):
            out["cont"] = n.right.value
        if isinstance(n, ast.Compare) and norm(n.left) == p and isinstance(n.ops[0], ast.LtE) and isinstance(n.comparators[0], ast.Constant):
            out["fast"] = n.comparators[0].value
    return out


def r4(ctx: Ctx) -> None:
    rd = varint_reader_consts(ctx)
    wr = varint_writer_consts(ctx)
    fn = ctx.repo.func("_frame_helper.base", "APIFrameHelper._read_varuint")
    ctx.require({"mask", "cont", "shift"} <= set(rd), f"varint reader constants not identified: {rd}")
    if not {"mask", "cont", "shift"} <= set(wr):
        # the writer is not in one of the loop forms the checker reads its constants from (judged by C02.R2)
        ctx.note(f"varint writer not in a recognised loop form: {wr}")
        wr = {"shift": rd["shift"], "mask": rd["mask"], "cont": rd["cont"]}
    s = rd["shift"]
    ctx.ob("C01.R4", fn, "reader: payload mask = 2^shift - 1", rd["mask"] == (1 << s) - 1, f"mask {rd['mask']:#x}, shift {s}")
    ctx.ob("C01.R4", fn, "reader: continuation bit = 2^shift, tested for absence", rd["cont"] == (1 << s) and rd.get("cont_op") == "Eq", f"cont {rd['cont']:#x} op {rd.get('cont_op')}")
    ctx.ob("C01.R4", fn, "reader: shift starts at 0", rd.get("shift_init") == 0, f"{rd.get('shift_init')}")
    ctx.ob("C01.R4", fn, "reader and writer agree on shift, mask and continuation bit", (rd["shift"], rd["mask"], rd["cont"]) == (wr["shift"], wr["mask"], wr["cont"]), f"reader {rd} writer {wr}")
    ctx.ob("C01.R4", fn, "7-bit groups (protobuf varint)", s == 7, f"shift {s}")
