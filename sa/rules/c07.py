"""C07 - stop callback fires exactly once per established session, with the right reason."""

from __future__ import annotations

import ast

from ..astutil import attr_writes
from ..cfg import Node, cfg_of, node_calls, walk_own
from ..closed import find_roles, resolver, state_member
from ..flow import may_occurred_before, occurred_before
from ..guard import walk, fmt_table, truth_table
from ..report import Ctx
from ..src import Func, norm, own_nodes
from ..sym import Ref

EXPLANATION = (
    "Static who-may-call / guard / ordering rules. R1: the value stored in on_stop is loaded and called at exactly one site, "
    "inside the closer, after CLOSED has been set (so a re-entrant or repeated close returns at the CLOSED guard: at most "
    "once, given C05). R2: the call site's guard is extracted as a truth table over {already closed, callback present, "
    "was-connected}: it is reached exactly when not already closed, a callback is present and the connection was connected, "
    "and then on every path; was-connected is a local read of is_connected taken before CLOSED is set. R3: the graceful "
    "marker is written True at exactly the three graceful sites (disconnect, force_disconnect, the handler registered for "
    "DisconnectRequest), in each before any call that can reach the closer or a transport write, never elsewhere and never "
    "reset; the callback's argument is that marker. Liveness (that a connected session is eventually closed) is not decided."
    " Added: the client's hook passes the connection's reason on unchanged; a remembered callback is stored only once the call cannot be refused; the stop coroutine's task is created on the running loop."
)
ASSUMPTIONS = ["M1-M5 of DESIGN.md section 2", "C05 (closed is final; the closer is idempotent) for at-most-once"]


def run(ctx: Ctx) -> None:
    roles = find_roles(ctx)
    r1_r2(ctx, roles)
    client_binding(ctx, roles)
    r3(ctx, roles)


def r1_r2(ctx: Ctx, roles) -> None:
    res = resolver(ctx)
    closer = roles.closer
    init = roles.conn.methods["__init__"]
    # every load / store of the attribute anywhere in the package
    loads = []
    stores = []
    for fn in ctx.repo.all_funcs():
        for n in own_nodes(fn.node):
            if isinstance(n, ast.Attribute) and n.attr == "on_stop":
                if isinstance(n.ctx, ast.Load):
                    loads.append((fn, n))
                else:
                    stores.append((fn, n))
    for fn, n in loads:
        ctx.ob("C07.R1", fn, f"load of .on_stop in {fn.qualname}", fn.key == closer.key, "the stop callback is readable (hence callable) outside the closer")
    for fn, n in stores:
        ctx.ob("C07.R1", fn, f"store to .on_stop in {fn.qualname}", fn.key in (closer.key, init.key), "the stop callback is replaced outside __init__/the closer")
    ctx.count("C07.R1", len(loads), 1, "loads of on_stop")
    # names bound to the attribute inside the closer, and their call sites
    bound = set()
    for n in own_nodes(closer.node):
        if isinstance(n, ast.NamedExpr) and isinstance(n.value, ast.Attribute) and n.value.attr == "on_stop":
            bound.add(n.target.id)
        if isinstance(n, ast.Assign) and isinstance(n.value, ast.Attribute) and n.value.attr == "on_stop":
            for t in n.targets:
                if isinstance(t, ast.Name):
                    bound.add(t.id)
    calls = []
    for n in own_nodes(closer.node):
        if isinstance(n, ast.Call):
            if isinstance(n.func, ast.Name) and n.func.id in bound:
                calls.append(n)
            if isinstance(n.func, ast.Attribute) and n.func.attr == "on_stop":
                calls.append(n)
    ctx.ob("C07.R1", closer, "exactly one call site of the stop callback", len(calls) == 1, f"{len(calls)} call sites")
    # the bound name must not escape (passed on / stored), or it could be called elsewhere
    escapes = []
    call_funcs = {id(c.func) for c in calls}
    for n in own_nodes(closer.node):
        if isinstance(n, ast.Name) and n.id in bound and isinstance(n.ctx, ast.Load) and id(n) not in call_funcs:
            par = [p for p in own_nodes(closer.node) if any(c is n for c in ast.iter_child_nodes(p))]
            if par and isinstance(par[0], ast.Compare):
                continue
            escapes.append(n)
    ctx.ob("C07.R1", closer, "the callback value does not escape the closer", not escapes, f"{[norm(e) for e in escapes]}")
    if len(calls) != 1:
        return
    call = calls[0]
    g = cfg_of(ctx, closer)
    call_nodes = [n for n in g.reachable() if n.ast is not None and n.kind == "stmt" and any(x is call for x in walk_own(n.ast))]
    ctx.require(bool(call_nodes), "stop-callback call is unreachable in the closer")

    def is_set_closed(x: Node) -> bool:
        return any(roles.setter in res.callees(closer, c).funcs for c in node_calls(x))

    before = occurred_before(g, lambda n: ["closed-set"] if is_set_closed(n) else [])
    for cn in call_nodes:
        ctx.ob("C07.R1", closer, "callback runs after CLOSED is set", "closed-set" in before.get(cn, frozenset()), "a close issued from inside the callback would run the cleanup (and the callback) again", node=call)

    # ---- R2: guard truth table
    was = set()
    for n in own_nodes(closer.node):
        if isinstance(n, ast.Assign) and isinstance(n.value, ast.Attribute) and n.value.attr == "is_connected" and norm(n.value.value) == "self":
            for t in n.targets:
                if isinstance(t, ast.Name):
                    was.add(t.id)
    ctx.ob("C07.R2", closer, "was-connected is a local snapshot of is_connected", len(was) == 1, f"locals bound to self.is_connected: {sorted(was)}")
    may_before = may_occurred_before(g, lambda n: ["closed-set"] if is_set_closed(n) else [])
    for n in g.reachable():
        if n.kind == "stmt" and isinstance(n.ast, ast.Assign) and isinstance(n.ast.value, ast.Attribute) and n.ast.value.attr == "is_connected":
            ctx.ob("C07.R2", closer, "snapshot taken before CLOSED is set", "closed-set" not in may_before.get(n, frozenset()), "after the state change is_connected is always False: the callback would never fire", node=n.ast)

    def classify(n: Node):
        t = n.ast
        if isinstance(t, ast.NamedExpr):
            t = t.value
        if isinstance(t, ast.Compare) and len(t.ops) == 1:
            l = t.left.value if isinstance(t.left, ast.NamedExpr) else t.left
            if isinstance(l, ast.Attribute) and l.attr == roles.state_attr:
                mem = state_member(ctx, closer, t.comparators[0], roles.state_enum)
                if mem == "CLOSED":
                    return ("already_closed", isinstance(t.ops[0], (ast.Is, ast.Eq)))
            if ((isinstance(l, ast.Attribute) and l.attr == "on_stop") or (isinstance(l, ast.Name) and l.id in bound)) and isinstance(t.comparators[0], ast.Constant) and t.comparators[0].value is None:
                return ("has_callback", isinstance(t.ops[0], (ast.IsNot, ast.NotEq)))
        if isinstance(t, ast.Name) and t.id in was:
            return ("was_connected", True)
        if isinstance(t, ast.Name) and t.id in bound:
            return ("has_callback", True)
        if isinstance(t, ast.Attribute) and t.attr == "on_stop":
            return ("has_callback", True)
        if isinstance(t, ast.Attribute) and t.attr == "is_connected":
            return ("was_connected_live", True)
        return None

    variables = ["already_closed", "has_callback", "was_connected"]
    table = truth_table(g, variables, classify, call_nodes)
    want_true = (False, True, True)
    ok = True
    for vals, (may, must) in table.items():
        if vals == want_true:
            ok = ok and may and must
        else:
            ok = ok and not may
    ctx.ob("C07.R2", closer, "callback fires iff not already closed, callback present and was connected", ok, fmt_table(variables, table), node=call)
    # nothing between CLOSED and the callback may raise: a completion of an already-done future would
    # (InvalidStateError) abandon the closer after CLOSED is set - the callback would then never fire
    from ..futures import unguarded_in_closure

    offenders, n_sites = unguarded_in_closure(ctx, res, closer)
    ctx.count("C07.R2.completions", n_sites, 4, "future completions reachable from the closer")
    ctx.ob("C07.R2", closer, "every future completed by the closer (and what it calls) is tested not-done first", not offenders, "; ".join(f"{f.qualname}: {norm(c)[:50]} ({why})" for f, c, why in offenders[:3]) + (": completing a done future raises InvalidStateError after CLOSED was set, the stop callback is never called" if offenders else ""))
    # argument is the graceful marker
    arg_ok = len(call.args) == 1 and isinstance(call.args[0], ast.Attribute) and call.args[0].attr == "_expected_disconnect" and norm(call.args[0].value) == "self"
    ctx.ob("C07.R3", closer, "callback argument is the graceful marker", arg_ok, f"called with {[norm(a) for a in call.args]}", node=call)


def client_binding(ctx: Ctx, roles) -> None:
    """The callback 'given at connect time' is bound to THAT connection: the client hands the connection a hook
    carrying the start_connection argument by value (partial), and the hook invokes only what it was given -
    never a callback remembered in client state (which would leak into a later session started without one)."""
    res = resolver(ctx)
    client = ctx.repo.cls("APIClient")
    start = client.methods.get("start_connection")
    ctx.require(start is not None, "APIClient.start_connection missing")
    cb_param = [a for a in start.param_names() if a != "self"]
    ctx.require(len(cb_param) >= 1, "APIClient.start_connection takes no stop callback")
    cbp = cb_param[0]
    ctors = [c for c in own_nodes(start.node) if isinstance(c, ast.Call) and res.callees(start, c).kind == "ctor" and res.callees(start, c).cls is roles.conn]
    ctx.ob("C07.R1", start, "the client constructs exactly one connection per start_connection()", len(ctors) == 1, f"{len(ctors)}")
    if len(ctors) != 1:
        return
    hook_arg = ctors[0].args[1] if len(ctors[0].args) >= 2 else next((k.value for k in ctors[0].keywords if k.arg == "on_stop"), None)
    hook = None
    bound = []
    if isinstance(hook_arg, ast.Call) and norm(hook_arg.func).split(".")[-1] == "partial" and hook_arg.args:
        cv = res._callable_value(start, hook_arg.args[0])
        hook = cv.funcs[0] if cv is not None and len(cv.funcs) == 1 else None
        bound = hook_arg.args[1:]
    elif hook_arg is not None:
        cv = res._callable_value(start, hook_arg)
        hook = cv.funcs[0] if cv is not None and len(cv.funcs) == 1 else None
    if hook is None:
        ctx.ob("C07.R1", start, "the connection's stop hook is a client method", False, f"hook argument {norm(hook_arg) if hook_arg is not None else None}")
        return
    hp = [a for a in hook.param_names() if a != "self"]
    user_calls = []
    for c in own_nodes(hook.node):
        if isinstance(c, ast.Call):
            k = res.callees(hook, c)
            if k.kind in ("value", "unknown") and not (isinstance(c.func, ast.Attribute) and norm(c.func.value).startswith("_LOGGER")):
                user_calls.append(c)
    ctx.ob("C07.R1", hook, "the client's stop hook invokes the user's callback at one site", len(user_calls) == 1, f"user-code calls in the hook: {[norm(c)[:50] for c in user_calls]}")
    # "its argument is true iff a graceful disconnect had been initiated": the reason the connection computed (C07.R3)
    # travels through the client's hook unchanged - the user's callback receives the hook's own parameter, which is
    # not one of the values bound at connect time and is never rebound inside the hook
    free = hp[len(bound):]
    rebound = sorted({t.id for n in own_nodes(hook.node) for t in (n.targets if isinstance(n, ast.Assign) else [n.target] if isinstance(n, (ast.AugAssign, ast.AnnAssign, ast.NamedExpr)) else []) if isinstance(t, ast.Name) and t.id in hp})
    for c in user_calls:
        args = [norm(a) for a in c.args] + [f"{k.arg}={norm(k.value)}" for k in c.keywords]
        ok = len(c.args) == 1 and not c.keywords and isinstance(c.args[0], ast.Name) and c.args[0].id in free and c.args[0].id not in rebound
        ctx.ob("C07.R3", hook, "the user's callback receives the connection's reason unchanged", ok, f"called with {args}; parameters supplied by the connection: {free}; rebound in the hook: {rebound}", node=c)
    # the coroutine the user's callback returns is started on the loop that is running the hook (a task bound to a loop
    # captured earlier - at construction time, say - may never run: the callback would be "called" but never executed)
    for c in user_calls:
        outer = [x for x in own_nodes(hook.node) if isinstance(x, ast.Call) and any(a is c for a in x.args)]
        for oc in outer:
            for starter in [f for f in res.callees(hook, oc).funcs if f.cls is client]:
                mk = [x for x in own_nodes(starter.node) if isinstance(x, ast.Call) and norm(x.func).split(".")[-1] in ("create_eager_task", "create_task", "ensure_future", "Task")]
                loops_ = [norm(k.value) for x in mk for k in x.keywords if k.arg == "loop" and not (isinstance(k.value, ast.Constant) and k.value.value is None) and norm(k.value) not in ("get_running_loop()", "asyncio.get_running_loop()")]
                ctx.ob("C07.R1", starter, "the user's stop coroutine is started on the running loop", bool(mk) and not loops_, f"task creation {[norm(x)[:50] for x in mk]} binds the loop {loops_}: captured earlier it need not be the loop that runs the session")
    g = cfg_of(ctx, start)
    ctor_nodes = [n for n in g.reachable() if n.ast is not None and n.kind == "stmt" and any(x is ctors[0] for x in walk_own(n.ast))]
    for c in user_calls:
        f = c.func
        src: ast.expr | None = f
        if isinstance(f, ast.Name) and f.id not in hp:
            asg = [n.value for n in own_nodes(hook.node) if (isinstance(n, ast.NamedExpr) and n.target.id == f.id) or (isinstance(n, ast.Assign) and any(isinstance(t, ast.Name) and t.id == f.id for t in n.targets))]
            src = asg[0] if len(asg) == 1 else None
        if isinstance(src, ast.Name) and src.id in hp:
            # (a) bound by value: the partial's argument at that position must be this call's parameter
            idx = hp.index(src.id)
            ok = idx < len(bound) and isinstance(bound[idx], ast.Name) and bound[idx].id == cbp
            ctx.ob("C07.R1", start, "the hook is given this call's callback by value", ok, f"hook argument {norm(hook_arg)}: parameter {src.id} of the hook is not bound to `{cbp}`")
        elif isinstance(src, ast.Attribute) and norm(src.value) == "self":
            # (b) remembered in client state: then every start_connection() must overwrite it with its own argument
            attr = src.attr
            ev = occurred_before(g, lambda n: ["stored"] if n.kind == "stmt" and isinstance(n.ast, ast.Assign) and any(isinstance(t, ast.Attribute) and t.attr == attr and norm(t.value) == "self" for t in n.ast.targets) and isinstance(n.ast.value, ast.Name) and n.ast.value.id == cbp else [])
            ok = bool(ctor_nodes) and all("stored" in ev.get(n, frozenset()) for n in ctor_nodes)
            others = [fn.qualname for fn in ctx.repo.funcs_in("client") for st, tgt, val in attr_writes(fn, attr) if fn is not start and fn.name != "__init__"]
            ctx.ob("C07.R1", start, f"the remembered callback self.{attr} is overwritten with this call's argument on every path (also with None)", ok and not others, f"self.{attr} keeps the callback of an earlier session when this one is started without one: it would be called again for a session it was not given for (other writers: {others})")
            # ... but only by a call that really starts a session: a refused call ("already connected") must leave the
            # live session's callback alone
            stores = [n for n in g.reachable() if n.kind == "stmt" and isinstance(n.ast, ast.Assign) and any(isinstance(t, ast.Attribute) and t.attr == attr and norm(t.value) == "self" for t in n.ast.targets)]
            refusing = []
            for sn in stores:
                after = walk(g, {}, lambda n: None, start=sn, blocked=set(ctor_nodes))
                refusing += [n for n in after if n.kind == "stmt" and isinstance(n.ast, ast.Raise)]
            ctx.ob("C07.R1", start, f"self.{attr} is replaced only once the call can no longer be refused", not refusing, f"after the store the call can still raise at L{[n.lineno for n in refusing][:2]} without having created a connection: the callback of the session that is alive has been replaced by one whose connection never existed")
        else:
            ctx.ob("C07.R1", hook, "the callback invoked by the hook is this session's", False, f"callee {norm(f)} is neither a bound parameter nor a per-session attribute")


def r3(ctx: Ctx, roles) -> None:
    res = resolver(ctx)
    init = roles.conn.methods["__init__"]
    writes = []
    for fn in ctx.repo.all_funcs():
        for st, tgt, val in attr_writes(fn, "_expected_disconnect"):
            writes.append((fn, st, tgt, val))
    ctx.count("C07.R3", len(writes), 4, "writes of the graceful marker")
    # the handler registered for DisconnectRequest
    peer = []
    for m in roles.conn.methods.values():
        for n in own_nodes(m.node):
            if isinstance(n, ast.Call) and len(n.args) >= 2 and isinstance(n.args[1], ast.Tuple):
                types = [ctx.sym.eval(e, m.module.name) for e in n.args[1].elts]
                if any(isinstance(t, Ref) and t.kind == "pb" and t.name == "DisconnectRequest" for t in types):
                    cv = res._callable_value(m, n.args[0])
                    if cv:
                        peer.extend(cv.funcs)
    ctx.require(len(peer) == 1, f"handler registered for DisconnectRequest not found uniquely: {[p.key for p in peer]}")
    graceful = {"connection:APIConnection.disconnect": "local disconnect", "connection:APIConnection.force_disconnect": "local force disconnect", peer[0].key: "peer disconnect request"}
    seen = set()
    # functions from which the closer or a transport write is reachable
    reach = closing_or_writing(ctx, roles)
    for fn, st, tgt, val in writes:
        isconst = isinstance(val, ast.Constant) and isinstance(val.value, bool)
        if fn.key == init.key:
            ctx.ob("C07.R3", fn, st, isconst and val.value is False, "the marker must start False")
            continue
        if not (isconst and val.value is True):
            ctx.ob("C07.R3", fn, st, False, "the graceful marker is reset or set to a non-constant")
            continue
        ok = fn.key in graceful
        ctx.ob("C07.R3", fn, st, ok, f"marker set in {fn.qualname}, which is not one of the three graceful-close sites (an ungraceful close would be reported as expected)")
        if ok:
            seen.add(fn.key)
            g = cfg_of(ctx, fn)

            def ev(n: Node, fn=fn):
                out = []
                for c in node_calls(n):
                    cs = res.callees(fn, c)
                    if any(f.key in reach for f in cs.funcs):
                        out.append("may-close-or-write")
                return out

            mb = may_occurred_before(g, ev)
            nodes = [n for n in g.reachable() if n.ast is st]
            bad = [n for n in nodes if "may-close-or-write" in mb.get(n, frozenset())]
            ctx.ob("C07.R3", fn, f"{norm(st)} precedes anything that can close or write", not bad, "a failing reply / close before the marker is set would be reported as unexpected")
            # and the marker is set on every path that reaches such a call
            must = occurred_before(g, lambda n, st=st: ["marked"] if n.ast is st else [])
            late = [n for n in g.reachable() if ev(n) and "marked" not in must.get(n, frozenset())]
            ctx.ob("C07.R3", fn, f"every close/write in {fn.qualname} happens after the marker is set", not late, f"{[n.text(50) for n in late[:2]]}")
    for k, what in graceful.items():
        ctx.ob("C07.R3", k, f"marker set at the {what} site", k in seen, "a graceful close would be reported as unexpected")
    # disconnect() may wait in front of the marker - for a connect phase that is still running.  The futures it waits on
    # are attributes that tell "a phase is running" by not being None: whoever completes one forgets it on the same
    # path.  (Kept after completion, an established session's disconnect() would suspend before the marker is set, and
    # a reset arriving in that gap is reported as unexpected although the local disconnect came first.)
    disc = roles.conn.methods.get("disconnect")
    if disc is not None:
        gd = cfg_of(ctx, disc)
        marks = [n for n in gd.reachable() if n.kind == "stmt" and any(st is n.ast for fn_, st, _, _ in writes if fn_ is disc)]
        waited: set[str] = set()
        if marks:
            mbw = may_occurred_before(gd, lambda n: [f"w:{x.attr}" for a in ([y for y in walk_own(n.ast) if isinstance(y, ast.Await)] if n.ast is not None else []) for x in ast.walk(a) if isinstance(x, ast.Attribute) and norm(x.value) == "self" and x.attr.endswith("_future")])
            for mk_ in marks:
                waited |= {t[2:] for t in mbw.get(mk_, frozenset()) if t.startswith("w:")}
        for attr in sorted(waited):
            sites = 0
            kept = []
            for m in roles.conn.methods.values():
                gm = None
                for c in own_nodes(m.node):
                    if isinstance(c, ast.Call) and isinstance(c.func, ast.Attribute) and c.func.attr in ("set_result", "set_exception") and norm(c.func.value) == f"self.{attr}":
                        sites += 1
                        gm = gm or cfg_of(ctx, m)
                        clears = {n for n in gm.reachable() if n.kind == "stmt" and isinstance(n.ast, ast.Assign) and any(norm(t) == f"self.{attr}" for t in n.ast.targets) and isinstance(n.ast.value, ast.Constant) and n.ast.value.value is None}
                        for cn in [n for n in gm.reachable() if any(x is c for x in node_calls(n))]:
                            for l_, s_ in cn.succ:
                                if l_ != "exc" and gm.exit in walk(gm, {}, lambda n: None, start=s_, blocked=clears) and s_ not in clears:
                                    kept.append(f"{m.qualname} L{c.lineno}")
            ctx.ob("C07.R3", disc, f"self.{attr}, waited for in front of the marker, is forgotten by whoever completes it ({sites} completion sites)", sites >= 1 and not kept, f"{sorted(set(kept))[:3] or 'no completion site found'}: disconnect() of an established session would suspend before the marker is set; a reset in that gap is reported as unexpected")


def closing_or_writing(ctx: Ctx, roles) -> set[str]:
    """Keys of functions from which the closer or a frame-helper write is reachable (call graph)."""
    res = resolver(ctx)
    targets = {roles.closer.key}
    for c in [ctx.repo.cls("APIFrameHelper"), *ctx.repo.subclasses(ctx.repo.cls("APIFrameHelper"))]:
        if "write_packets" in c.methods:
            targets.add(c.methods["write_packets"].key)
    edges: dict[str, set[str]] = {}
    for fn in ctx.repo.all_funcs():
        for n in own_nodes(fn.node):
            if isinstance(n, ast.Call):
                for c in res.callees(fn, n).funcs:
                    edges.setdefault(c.key, set()).add(fn.key)
    out = set(targets)
    todo = list(targets)
    while todo:
        k = todo.pop()
        for caller in edges.get(k, ()):
            if caller not in out:
                out.add(caller)
                todo.append(caller)
    return out
