"""C20 - address resolution order and fall-backs; zeroconf instances are owned correctly."""

from __future__ import annotations

import ast
import itertools
from typing import Any

from ..astutil import attr_writes, is_none
from ..cfg import CFG, Node, cfg_of, must_forward, node_calls, walk_own
from ..closed import resolver
from ..effects import effects
from ..flow import disjunctive, occurred_before
from ..guard import fmt_table, return_table, truth_table, walk
from ..report import Ctx
from ..src import Func, norm, own_nodes, walk_no_nested
from ..sym import Ref, Unknown

EXPLANATION = (
    "Static rules on host_resolver.py, zeroconf.py and util.py. R1: the decision tree of async_resolve_host per configured "
    "host, extracted as truth tables from the head of the loop body: the mDNS lookup is reached iff the host is a bare name "
    "or ends in .local (hoisted condition followed through its single assignment), the literal parse iff it is not and "
    "performs no lookup (callee is synchronous and calls no resolver), the OS resolver iff nothing was found *for this host* "
    "(the tested list is re-created in every iteration and is the one that receives the mDNS/literal results); only "
    "ResolveAPIError from mDNS is absorbed; per-host results are appended to the result in input order (append/extend only, "
    "the loop iterates the configured list itself); the function returns iff something resolved and otherwise raises the "
    "remembered mDNS error or ResolveAPIError (both APIConnectionError subclasses). R2: the mDNS helper queries IPv6 before "
    "IPv4 into the list it returns, with the documented service/server names; address conversion keeps family and sockaddr "
    "class in agreement, strips the %scope from the address and carries a numeric scope id; the OS helper maps OSError to "
    "APIConnectionError and keeps order. R3 ownership: the only close of a zeroconf instance in the library proper is in "
    "ZeroconfManager.async_close, reached iff the ownership flag is set (and an instance exists); the flag becomes true only "
    "where the manager itself constructs AsyncZeroconf() without arguments; instance and flag are always written in one atomic "
    "block (no suspension point in between), so the flag can never outlive the instance it describes; set_instance never "
    "touches the flag; the service-info helper closes through the manager, only if no instance existed before the lookup "
    "(snapshot taken before the instance is requested), on every exit. R4: host_is_name_part / address_is_local are "
    "evaluated by the checker on a table of addresses. Resolver outcomes for all inputs as behaviour are not decided."
    ' Added: every failure of mDNS start-up, service-info construction and request surfaces as ResolveAPIError; a half-written instance/flag pair is rejected at exceptional exits too; constant regular expressions in the address classifiers are evaluated over an extended address table.'
    ' Also: one pass over the configured addresses; an instance is requested only where it is closed again.'
)
ASSUMPTIONS = ["ipaddress.ip_address raises ValueError for non-literals and performs no lookup", "zeroconf's AsyncZeroconf.async_close is the only way an instance is closed", "M1-M5 of DESIGN.md section 2"]

HR = "host_resolver"
ZC = "zeroconf"


def _calls(fn: Func) -> list[ast.Call]:
    return [n for n in own_nodes(fn.node) if isinstance(n, ast.Call)]


def _nodes_with(g: CFG, node: ast.AST) -> list[Node]:
    return [n for n in g.reachable() if n.ast is not None and n.kind in ("stmt", "cond", "with-enter", "for-init") and any(x is node for x in walk_own(n.ast))]


def run(ctx: Ctx) -> None:
    r1(ctx)
    r2(ctx)
    r3(ctx)
    r4(ctx)


# =========================================================================== R1
def r1(ctx: Ctx) -> None:
    res = resolver(ctx)
    fn = ctx.repo.func(HR, "async_resolve_host")
    g = cfg_of(ctx, fn)
    mdns = ctx.repo.func(HR, "_async_resolve_host_zeroconf")
    osres = ctx.repo.func(HR, "_async_resolve_host_getaddrinfo")
    conv = ctx.repo.func(HR, "_async_ip_address_to_addrs")
    hosts_p = fn.param_names()[0]
    loops = [n for n in own_nodes(fn.node) if isinstance(n, ast.For)]
    # results keep the order of the configured addresses because ONE loop walks them and each host's results are added
    # when that host is done; a second pass that resolves some hosts later (batched, gathered) breaks that order
    host_loops = [l for l in loops if norm(l.iter) == hosts_p]
    ctx.ob("C20.R1", fn, "one pass over the configured addresses decides and resolves every host (no deferred second pass)", len(loops) == 1 and len(host_loops) == 1, f"{len(loops)} loops: {[norm(l.iter)[:50] for l in loops]}")
    if len(host_loops) != 1:
        return
    loop = host_loops[0]
    ctx.ob("C20.R1", fn, "the loop visits the configured addresses themselves, in order", norm(loop.iter) == hosts_p and isinstance(loop.target, ast.Name), f"iterates {norm(loop.iter)}")
    host = norm(loop.target)
    heads = [n for n in g.reachable() if n.kind == "for" and n.ast is loop]
    ctx.require(len(heads) == 1, "loop head not found")
    body_start = [s for l, s in heads[0].succ if l == "true"]
    ctx.require(len(body_start) == 1, "loop body not found")
    start = body_start[0]
    inside = {x for b in loop.body for x in ast.walk(b)}

    mdns_calls = [c for c in _calls(fn) if mdns in res.callees(fn, c).funcs]
    os_calls = [c for c in _calls(fn) if osres in res.callees(fn, c).funcs]
    lit_calls = [c for c in _calls(fn) if norm(c.func) in ("ip_address", "ipaddress.ip_address")]
    ctx.count("C20.R1", len(mdns_calls) + len(os_calls) + len(lit_calls), 3, "resolver call sites (mDNS, OS, literal)")
    ctx.ob("C20.R1", fn, "one call site each for mDNS, literal parse and OS resolver, all inside the host loop", len(mdns_calls) == 1 and len(os_calls) == 1 and len(lit_calls) == 1 and all(c in inside for c in mdns_calls + os_calls + lit_calls), f"mdns={len(mdns_calls)} os={len(os_calls)} literal={len(lit_calls)}")
    # any other lookup-capable call in the function?
    other = [c for c in _calls(fn) if norm(c.func).split(".")[-1] in ("getaddrinfo", "gethostbyname", "async_request", "async_get_service_info")]
    ctx.ob("C20.R1", fn, "no further lookup call in async_resolve_host", not other, f"{[norm(c)[:40] for c in other]}")

    # which list collects this host's results: the one tested by the OS fall-back guard
    found_names: set[str] = set()
    for c in os_calls:
        for n in g.reachable():
            pass
    # the per-host list: a Name that is assigned an empty list inside the loop body
    per_host = [n.targets[0].id if isinstance(n, ast.Assign) else n.target.id for n in loop.body if isinstance(n, (ast.Assign, ast.AnnAssign)) and isinstance((n.targets[0] if isinstance(n, ast.Assign) else n.target), ast.Name) and isinstance(n.value, ast.List) and not n.value.elts]
    result_lists = [n.targets[0].id if isinstance(n, ast.Assign) else n.target.id for n in fn.node.body if isinstance(n, (ast.Assign, ast.AnnAssign)) and isinstance((n.targets[0] if isinstance(n, ast.Assign) else n.target), ast.Name) and isinstance(n.value, ast.List) and not n.value.elts]

    def cl(n: Node):
        t = n.ast
        if isinstance(t, ast.Call):
            fs = res.callees(fn, t).funcs
            if any(f.name == "host_is_name_part" for f in fs) and [norm(a) for a in t.args] == [host]:
                return ("name_part", True)
            if any(f.name == "address_is_local" for f in fs) and [norm(a) for a in t.args] == [host]:
                return ("dot_local", True)
        if isinstance(t, ast.Name) and t.id in per_host:
            return ("found", True)
        if isinstance(t, ast.Name) and t.id in result_lists:
            return ("found_any", True)
        return None

    vars_ = ["name_part", "dot_local", "found"]
    for calls_, what, want in (
        (mdns_calls, "mDNS lookup iff the host is a bare name or ends in .local", lambda np, dl, f: np or dl),
        (lit_calls, "IP-literal parse (no lookup) iff the host is neither a bare name nor .local", lambda np, dl, f: not (np or dl)),
    ):
        nodes = [n for c in calls_ for n in _nodes_with(g, c)]
        tab = truth_table(g, vars_, cl, nodes, start=start)
        ok = bool(nodes)
        for vals, (may, must) in tab.items():
            w = want(*vals)
            ok = ok and (may == w) and (not w or must)
        ctx.ob("C20.R1", fn, what, ok, fmt_table(vars_, tab))
    # OS fall-back: reached iff nothing was found for THIS host.  The guard must test the per-host list.
    os_nodes = [n for c in os_calls for n in _nodes_with(g, c)]
    tab = truth_table(g, ["found", "found_any"], cl, os_nodes, start=start)
    # the test right before the OS call: walk with found=False must reach it whatever found_any is
    ok = bool(os_nodes) and all(tab[(False, fa)][0] for fa in (False, True)) and all(not tab[(True, fa)][0] for fa in (False, True))
    ctx.ob("C20.R1", fn, "OS resolver iff nothing was found for this host (per-host list, not the accumulated result)", ok and bool(per_host), fmt_table(["found", "found_any"], tab) + f"; per-host lists re-created in each iteration: {per_host}")
    # on the path where neither mDNS nor the literal parse produced anything the OS resolver MUST be reached:
    # (found is a run-time fact; with found=False every path from the body start passes the OS call or raises)
    avoid = walk(g, {"found": False}, cl, start=start, blocked=set(os_nodes))
    leaks = heads[0] in avoid or g.exit in avoid
    ctx.ob("C20.R1", fn, "a host for which nothing was found always reaches the OS resolver before the next host", not leaks, "an iteration can finish with an empty per-host result without asking the OS")
    # the per-host list is what receives the results of all three resolvers and is merged into the result
    sinks = {}
    for c in _calls(fn):
        if isinstance(c.func, ast.Attribute) and c.func.attr in ("extend", "append", "insert") and isinstance(c.func.value, ast.Name):
            sinks.setdefault(c.func.value.id, []).append(c)
    fed = {lst for lst, cs in sinks.items() for c in cs if any(x in mdns_calls + os_calls + lit_calls for x in ast.walk(c))}
    ctx.ob("C20.R1", fn, "mDNS, literal and OS results all go to the per-host list the fall-back tests", bool(per_host) and fed == set(per_host), f"results fed into {sorted(fed)}, per-host list {per_host}")
    merges = [c for lst in result_lists for c in sinks.get(lst, []) if c.args and isinstance(c.args[0], ast.Name) and c.args[0].id in per_host]
    ctx.ob("C20.R1", fn, "per-host results are appended to the result once per host, at the end of the iteration", len(merges) == 1 and merges[0].func.attr == "extend" and merges[0] in inside, f"{[norm(m) for m in merges]}")
    # append-only: no insert/sort/reverse/slice assignment on the result lists
    bad_ops = [c for c in _calls(fn) if isinstance(c.func, ast.Attribute) and c.func.attr in ("insert", "sort", "reverse", "pop", "remove", "clear") and isinstance(c.func.value, ast.Name) and c.func.value.id in set(result_lists) | set(per_host)]
    bad_ops += [c for c in _calls(fn) if norm(c.func) in ("sorted", "reversed", "set") and c.args and isinstance(c.args[0], ast.Name) and c.args[0].id in set(result_lists) | set(per_host) | {hosts_p}]
    ctx.ob("C20.R1", fn, "result order is append-only (no insert/sort/reverse/dedup)", not bad_ops, f"{[norm(c)[:40] for c in bad_ops]}")
    # mDNS is asked for the first label of the name
    for c in mdns_calls:
        a0 = c.args[0] if c.args else None
        src = a0
        if isinstance(a0, ast.Name):
            asg = [n for n in own_nodes(fn.node) if isinstance(n, ast.Assign) and any(isinstance(t, ast.Name) and t.id == a0.id for t in n.targets)]
            src = asg[0].value if len(asg) == 1 else None
        ctx.ob("C20.R1", fn, "mDNS is asked for the first label of the host name", src is not None and norm(src) == f"{host}.partition('.')[0]", f"{norm(src) if src is not None else None}")
        kw = {k.arg: norm(k.value) for k in c.keywords}
        zp = [p for p in fn.param_names() if "zeroconf" in p]
        ctx.ob("C20.R1", fn, "the caller's zeroconf manager is handed to the mDNS helper", bool(zp) and kw.get("zeroconf_manager") == zp[0], f"{kw}")
    for c in lit_calls + os_calls:
        ctx.ob("C20.R1", fn, f"{norm(c.func)} receives the configured address verbatim", bool(c.args) and norm(c.args[0]) == host, f"{[norm(a) for a in c.args]}", node=c)
    # the literal path performs no lookup: converter is synchronous and calls nothing that resolves
    ctx.ob("C20.R1", conv, "the literal conversion performs no lookup (synchronous, no resolver call)", not conv.is_async and not any(norm(c.func).split(".")[-1] in ("getaddrinfo", "gethostbyname", "async_request") for c in _calls(conv)) and not any(isinstance(n, ast.Await) for n in own_nodes(conv.node)), "")
    # exception absorption
    hs = [n for n in own_nodes(fn.node) if isinstance(n, ast.ExceptHandler)]
    for h in hs:
        tr = next((t for t in own_nodes(fn.node) if isinstance(t, ast.Try) and h in t.handlers), None)
        in_try = {x for b in (tr.body if tr else []) for x in ast.walk(b)}
        if any(c in in_try for c in mdns_calls):
            ok = norm(h.type) == "ResolveAPIError" and h.name is not None and any(isinstance(s, ast.Assign) and norm(s.value) == h.name for s in h.body) and not any(isinstance(s, (ast.Return, ast.Raise, ast.Continue, ast.Break)) for s in h.body)
            ctx.ob("C20.R1", fn, "only ResolveAPIError from mDNS is absorbed (remembered, then the OS resolver is tried)", ok, f"except {norm(h.type)} as {h.name}")
        elif any(c in in_try for c in lit_calls):
            def _nothing(st: ast.stmt) -> bool:
                # "not a literal": nothing happens - pass, or an empty result bound to a local
                if isinstance(st, ast.Pass):
                    return True
                if isinstance(st, ast.Assign) and len(st.targets) == 1 and isinstance(st.targets[0], ast.Name) and isinstance(st.value, (ast.List, ast.Tuple)) and not st.value.elts:
                    return True
                return False

            ok = norm(h.type) == "ValueError" and all(_nothing(s) for s in h.body)
            ctx.ob("C20.R1", fn, "only 'not a literal' (ValueError) is absorbed on the literal path", ok, f"except {norm(h.type)}")
        else:
            ctx.ob("C20.R1", fn, f"unexpected exception handler except {norm(h.type)}", False, "errors of the OS resolver must propagate")
    ctx.ob("C20.R1", fn, "the OS resolver call is not inside an exception handler's try", not any(c in {x for t in own_nodes(fn.node) if isinstance(t, ast.Try) for b in t.body for x in ast.walk(b)} for c in os_calls), "")
    # exit: return iff something resolved; otherwise raise zc error / ResolveAPIError
    err_names = {h.name for h in hs if h.name}
    err_vars = {t.id for h in hs for s in h.body if isinstance(s, ast.Assign) for t in s.targets if isinstance(t, ast.Name)}

    def cl_exit(n: Node):
        t = n.ast
        if isinstance(t, ast.Name) and t.id in result_lists:
            return ("any", True)
        if isinstance(t, ast.Name) and t.id in err_vars:
            return ("zc_error", True)
        if isinstance(t, ast.Compare) and len(t.ops) == 1 and isinstance(t.left, ast.Name) and t.left.id in err_vars and is_none(t.comparators[0]):
            return ("zc_error", isinstance(t.ops[0], (ast.IsNot, ast.NotEq)))
        return None

    after = [s for l, s in heads[0].succ if l == "false"]
    ctx.require(len(after) == 1, "loop exit not found")
    rets = [n for n in g.reachable() if isinstance(n.ast, ast.Return) and n.ast not in inside]
    raises = [n for n in g.reachable() if isinstance(n.ast, ast.Raise) and n.ast not in inside]
    tr_ = truth_table(g, ["any", "zc_error"], cl_exit, rets, start=after[0])
    ok = all(tr_[(True, z)] == (True, True) for z in (False, True)) and all(not tr_[(False, z)][0] for z in (False, True))
    ctx.ob("C20.R1", fn, "returns iff at least one address was resolved (never an empty result)", ok and bool(rets), fmt_table(["any", "zc_error"], tr_))
    for r in rets:
        ctx.ob("C20.R1", fn, "returns the accumulated result list", isinstance(r.ast.value, ast.Name) and r.ast.value.id in result_lists, f"returns {norm(r.ast.value)}")
    for r in raises:
        e = r.ast.exc
        if isinstance(e, ast.Name) and e.id in err_vars:
            t2 = truth_table(g, ["any", "zc_error"], cl_exit, [r], start=after[0])
            ctx.ob("C20.R1", fn, "nothing resolved and mDNS failed -> the mDNS error is raised", t2[(False, True)] == (True, True) and not t2[(False, False)][0], fmt_table(["any", "zc_error"], t2))
        else:
            v = ctx.sym.eval(e.func if isinstance(e, ast.Call) else e, HR)
            ok = isinstance(v, Ref) and ctx.repo.is_subclass(v.name, "APIConnectionError")
            t2 = truth_table(g, ["any", "zc_error"], cl_exit, [r], start=after[0])
            ctx.ob("C20.R1", fn, f"nothing resolved -> a connection error is raised ({norm(e)[:40]})", ok and t2[(False, False)] == (True, True), fmt_table(["any", "zc_error"], t2))
    ctx.count("C20.R1.exits", len(rets) + len(raises), 3, "exits of async_resolve_host after the loop")


# =========================================================================== R2
def r2(ctx: Ctx) -> None:
    res = resolver(ctx)
    mdns = ctx.repo.func(HR, "_async_resolve_host_zeroconf")
    g = cfg_of(ctx, mdns)
    loops = [n for n in mdns.node.body if isinstance(n, ast.For)]
    # the IP versions asked for, in evaluation order: constant arguments, or a variable iterating a constant tuple
    vers = []
    iter_consts: dict[str, list[str]] = {}
    for n in ast.walk(mdns.node):
        tgt = it = None
        if isinstance(n, (ast.For, ast.comprehension)):
            tgt, it = n.target, n.iter
        if isinstance(tgt, ast.Name) and isinstance(it, (ast.Tuple, ast.List)) and all(isinstance(e, ast.Attribute) and norm(e.value).endswith("IPVersion") for e in it.elts):
            iter_consts[tgt.id] = [e.attr for e in it.elts]
    vcalls = sorted([c for c in ast.walk(mdns.node) if isinstance(c, ast.Call) and isinstance(c.func, ast.Attribute) and c.func.attr == "ip_addresses_by_version" and len(c.args) == 1], key=lambda c: (c.lineno, c.col_offset))
    for c in vcalls:
        a = c.args[0]
        if isinstance(a, ast.Attribute) and norm(a.value).endswith("IPVersion"):
            vers.append(a.attr)
        elif isinstance(a, ast.Name) and a.id in iter_consts:
            vers.extend(iter_consts[a.id])
        else:
            vers.append(f"?{norm(a)}")
    ctx.ob("C20.R2", mdns, "mDNS results: IPv6 addresses are collected before IPv4 addresses", vers == ["V6Only", "V4Only"], f"versions asked for, in order: {vers}")
    rets = [n for n in own_nodes(mdns.node) if isinstance(n, ast.Return)]
    comp_ret = [r for r in rets if isinstance(r.value, ast.ListComp)]
    lists = {norm(r.value) for r in rets if r.value is not None}
    ok = len(lists) == 1
    if comp_ret and len(rets) == 1:
        # one comprehension: generators nest version -> address -> converted entry, the entry itself is the element
        gens = comp_ret[0].value.generators
        order_ok = [norm(g_.target) for g_ in gens][-1:] == [norm(comp_ret[0].value.elt)] and not any(g_.ifs for g_ in gens)
        first_is_version = bool(gens) and isinstance(gens[0].target, ast.Name) and gens[0].target.id in iter_consts
        ctx.ob("C20.R2", mdns, "both loops append to the returned list, nothing reorders it", order_ok and first_is_version, f"returns {norm(comp_ret[0].value)[:100]}")
        ok = False
        lists = set()
    if ok:
        lst = next(iter(lists))
        for lp in loops:
            ext = [c for c in walk_no_nested(lp) if isinstance(c, ast.Call) and isinstance(c.func, ast.Attribute) and c.func.attr in ("extend", "append") and norm(c.func.value) == lst]
            ok = ok and len(ext) == 1 and any(isinstance(x, ast.Name) and x.id == norm(lp.target) for x in ast.walk(ext[0]))
        bad = [c for c in _calls(mdns) if isinstance(c.func, ast.Attribute) and c.func.attr in ("insert", "sort", "reverse") and norm(c.func.value) == lst]
        ok = ok and not bad
    if not (comp_ret and len(rets) == 1):
        ctx.ob("C20.R2", mdns, "both loops append to the returned list, nothing reorders it", ok, f"returns {sorted(lists)}")
    # names
    st = ctx.sym.eval(ast.parse("SERVICE_TYPE", mode="eval").body, HR)
    ctx.ob("C20.R2", f"{HR}:SERVICE_TYPE", "service type is _esphomelib._tcp.local.", st == "_esphomelib._tcp.local.", f"{st!r}")
    hp = mdns.param_names()[0]
    names = {}
    for n in own_nodes(mdns.node):
        if isinstance(n, ast.Assign) and len(n.targets) == 1 and isinstance(n.targets[0], ast.Name) and isinstance(n.value, ast.JoinedStr):
            names[n.targets[0].id] = norm(n.value)
    gi = [c for c in _calls(mdns) if any(f.name == "_async_zeroconf_get_service_info" for f in res.callees(mdns, c).funcs)]
    gi_fn = ctx.repo.func(HR, "_async_zeroconf_get_service_info")
    gb = res.bind_args(gi_fn, gi[0]) if len(gi) == 1 else {}
    gpn = gi_fn.param_names()

    def _named(e: "ast.expr | None") -> "str | None":
        if e is None:
            return None
        return names.get(norm(e)) or (norm(e) if isinstance(e, ast.JoinedStr) else None)

    ok_names = len(gi) == 1 and len(gpn) >= 4 and _named(gb.get(gpn[2])) == f"f'{{{hp}}}.{{SERVICE_TYPE}}'" and _named(gb.get(gpn[3])) == f"f'{{{hp}}}.local.'" and gb.get(gpn[1]) is not None and norm(gb.get(gpn[1])) == "SERVICE_TYPE"
    ctx.ob("C20.R2", mdns, "service info requested for <name>._esphomelib._tcp.local. at server <name>.local.", ok_names, f"{names}; passed { {k: norm(v)[:40] for k, v in gb.items()} }")
    # conversion
    conv = ctx.repo.func(HR, "_async_ip_address_to_addrs")
    gc = cfg_of(ctx, conv)
    ipp = conv.param_names()[0]
    v6 = set()
    for n in own_nodes(conv.node):
        if isinstance(n, ast.Assign) and isinstance(n.value, ast.Compare) and norm(n.value) == f"{ipp}.version == 6":
            v6 |= {t.id for t in n.targets if isinstance(t, ast.Name)}

    def cl6(n: Node):
        t = n.ast
        if isinstance(t, ast.Name) and t.id in v6:
            return ("ipv6", True)
        if isinstance(t, ast.Compare) and norm(t) in (f"{ipp}.version == 6", f"{ipp}.version != 4"):
            return ("ipv6", True)
        if isinstance(t, ast.Compare) and norm(t) in (f"{ipp}.version == 4", f"{ipp}.version != 6"):
            return ("ipv6", False)
        return None

    sock6 = [n for n in gc.reachable() if n.kind == "stmt" and any(norm(c.func) == "IPv6Sockaddr" for c in node_calls(n))]
    sock4 = [n for n in gc.reachable() if n.kind == "stmt" and any(norm(c.func) == "IPv4Sockaddr" for c in node_calls(n))]
    t6 = truth_table(gc, ["ipv6"], cl6, sock6)
    t4 = truth_table(gc, ["ipv6"], cl6, sock4)
    ctx.ob("C20.R2", conv, "IPv6 address -> IPv6Sockaddr, IPv4 address -> IPv4Sockaddr", t6[(True,)] == (True, True) and not t6[(False,)][0] and t4[(False,)] == (True, True) and not t4[(True,)][0], f"v6: {fmt_table(['ipv6'], t6)}; v4: {fmt_table(['ipv6'], t4)}")
    fam = [k.value for c in _calls(conv) if norm(c.func) == "AddrInfo" for k in c.keywords if k.arg == "family"]
    okf = bool(fam)
    for fm in fam:
        okm = False
        if isinstance(fm, ast.IfExp):
            pol = cl6(Node(-1, "cond", fm.test))
            if pol is not None:
                a, b = (fm.body, fm.orelse) if pol[1] else (fm.orelse, fm.body)
                okm = norm(a) == "socket.AF_INET6" and norm(b) == "socket.AF_INET"
        okf = okf and okm
    if fam and not okf and not any(isinstance(fm, ast.IfExp) for fm in fam):
        # the family may also be a constant per branch: then it must sit in the branch of the matching sockaddr
        gcc = cfg_of(ctx, conv)
        okf = True
        for n in gcc.reachable():
            for c in node_calls(n):
                if norm(c.func) == "AddrInfo":
                    kwf = {k.arg: k.value for k in c.keywords}
                    fexp = kwf.get("family")
                    if isinstance(fexp, ast.Name):
                        # a local set in each branch: the definition(s) that reach this call
                        seen_b = {n}
                        todo_b = [n]
                        vals_b = set()
                        while todo_b:
                            x = todo_b.pop()
                            for l_, pn in x.pred:
                                if pn in seen_b:
                                    continue
                                seen_b.add(pn)
                                if pn.kind == "stmt" and isinstance(pn.ast, (ast.Assign, ast.AnnAssign)) and pn.ast.value is not None and any(isinstance(t_, ast.Name) and t_.id == fexp.id for t_ in (pn.ast.targets if isinstance(pn.ast, ast.Assign) else [pn.ast.target])):
                                    vals_b.add(norm(pn.ast.value))
                                    continue
                                todo_b.append(pn)
                        if len(vals_b) == 1:
                            fexp = ast.parse(next(iter(vals_b)), mode="eval").body
                    f_ = norm(fexp) if fexp is not None else ""
                    sa_ = norm(kwf.get("sockaddr").func) if isinstance(kwf.get("sockaddr"), ast.Call) else ""
                    if f_ in ("socket.AF_INET6", "socket.AF_INET") and sa_:
                        okf = okf and ((f_ == "socket.AF_INET6") == (sa_ == "IPv6Sockaddr"))
                    elif isinstance(kwf.get("family"), ast.IfExp):
                        pass
                    else:
                        okf = False
    ctx.ob("C20.R2", conv, "address family agrees with the sockaddr class", okf, f"{[norm(f) for f in fam]}")
    for n in sock6:
        for c in node_calls(n):
            if norm(c.func) == "IPv6Sockaddr":
                kw = {k.arg: norm(k.value) for k in c.keywords}
                ctx.ob("C20.R2", conv, "IPv6 literal with scope: address without the %scope, numeric scope id kept", kw.get("address") == f"str({ipp}).partition('%')[0]" and kw.get("scope_id") == f"_scope_id_to_int({ipp}.scope_id)" and kw.get("port") == conv.param_names()[1], f"{kw}")
    for n in sock4:
        for c in node_calls(n):
            if norm(c.func) == "IPv4Sockaddr":
                kw = {k.arg: norm(k.value) for k in c.keywords}
                ctx.ob("C20.R2", conv, "IPv4 literal used verbatim", kw.get("address") == f"str({ipp})" and kw.get("port") == conv.param_names()[1], f"{kw}")
    sc = ctx.repo.func(HR, "_scope_id_to_int")
    gs = cfg_of(ctx, sc)
    sp = sc.param_names()[0]

    def cls(n: Node):
        t = n.ast
        if isinstance(t, ast.Compare) and len(t.ops) == 1 and norm(t.left) == sp and is_none(t.comparators[0]):
            return ("none", isinstance(t.ops[0], (ast.Is, ast.Eq)))
        return None

    rets_s = {}
    for vals in ((True,), (False,)):
        reach = walk(gs, {"none": vals[0]}, cls, follow_exc=True)
        rets_s[vals[0]] = sorted({norm(n.ast.value) for n in reach if isinstance(n.ast, ast.Return)})
    hs = [n for n in own_nodes(sc.node) if isinstance(n, ast.ExceptHandler)]
    ctx.ob("C20.R2", sc, "scope id: None -> 0, numeric text -> its value, anything else -> 0", rets_s[True] == ["0"] and rets_s[False] == ["0", f"int({sp})"] and len(hs) == 1 and norm(hs[0].type) == "ValueError", f"{rets_s}")
    # OS helper
    osres = ctx.repo.func(HR, "_async_resolve_host_getaddrinfo")
    hs = [n for n in own_nodes(osres.node) if isinstance(n, ast.ExceptHandler)]
    ok = len(hs) == 1 and norm(hs[0].type) == "OSError"
    if ok:
        rs = [s for s in hs[0].body if isinstance(s, ast.Raise)]
        v = ctx.sym.eval(rs[0].exc.func if rs and isinstance(rs[0].exc, ast.Call) else None, HR) if rs else None
        ok = bool(rs) and isinstance(v, Ref) and ctx.repo.is_subclass(v.name, "APIConnectionError")
    ctx.ob("C20.R2", osres, "OS resolver failure (OSError) is raised as a connection error", ok, "")
    gai = [c for c in _calls(osres) if norm(c.func).endswith(".getaddrinfo")]
    ok = len(gai) == 1 and [norm(a) for a in gai[0].args[:2]] == osres.param_names()[:2]
    kw = {k.arg: norm(k.value) for k in gai[0].keywords} if gai else {}
    ctx.ob("C20.R2", osres, "getaddrinfo is asked for the host and port given, TCP stream sockets", ok and kw.get("type") == "socket.SOCK_STREAM" and kw.get("proto") == "socket.IPPROTO_TCP", f"{kw}")
    lp = [n for n in own_nodes(osres.node) if isinstance(n, ast.For)]
    rl = {norm(r.value) for r in own_nodes(osres.node) if isinstance(r, ast.Return) and r.value is not None}
    ok = len(lp) == 1 and len(rl) == 1
    if ok:
        lst = next(iter(rl))
        app = [c for c in walk_no_nested(lp[0]) if isinstance(c, ast.Call) and isinstance(c.func, ast.Attribute) and c.func.attr == "append" and norm(c.func.value) == lst]
        bad = [c for c in _calls(osres) if isinstance(c.func, ast.Attribute) and c.func.attr in ("insert", "sort", "reverse") and norm(c.func.value) == lst]
        ok = len(app) == 1 and not bad
    ctx.ob("C20.R2", osres, "OS results keep the resolver's order", ok, "")


# =========================================================================== R3
def r3(ctx: Ctx) -> None:
    res = resolver(ctx)
    eff = effects(ctx)
    mgr = ctx.repo.cls("ZeroconfManager")
    init = mgr.methods["__init__"]
    close = mgr.methods.get("async_close")
    ctx.require(close is not None, "ZeroconfManager.async_close missing")
    # who closes a zeroconf instance anywhere in the package
    closers = []
    for f in ctx.repo.all_funcs():
        for c in _calls(f):
            if isinstance(c.func, ast.Attribute) and c.func.attr in ("async_close", "close") and c.func.attr == "async_close":
                recv_t = res.expr_types(f, c.func.value)
                closers.append((f, c, recv_t))
    ctx.count("C20.R3", len(closers), 4, "async_close call sites in the package")
    for f, c, recv_t in closers:
        if mgr.name in recv_t:
            ctx.ob("C20.R3", f, c, True, "closes through the manager (ownership decided there)", node=c)
            continue
        if f is close:
            ctx.ob("C20.R3", f, c, norm(c.func.value) in ("self._aiozc",) or isinstance(c.func.value, ast.Name), "the manager closes its own instance", node=c)
            continue
        # any other direct close must be of an instance created in the same function
        ok = False
        if isinstance(c.func.value, ast.Name):
            asg = [n for n in own_nodes(f.node) if isinstance(n, ast.Assign) and any(isinstance(t, ast.Name) and t.id == c.func.value.id for t in n.targets)]
            ok = len(asg) == 1 and isinstance(asg[0].value, ast.Call) and norm(asg[0].value.func).split(".")[-1] == "AsyncZeroconf" and not asg[0].value.args and not asg[0].value.keywords
        ctx.ob("C20.R3", f, c, ok, "a zeroconf instance is closed directly outside the manager and it was not created right here: an application-supplied instance could be closed", node=c)
    # ---- the manager's own close
    g = cfg_of(ctx, close)
    inst = "_aiozc"
    flag = "_created"
    alias = {f"self.{inst}"}
    for n in own_nodes(close.node):
        if isinstance(n, ast.Assign) and norm(n.value) == f"self.{inst}":
            alias |= {t.id for t in n.targets if isinstance(t, ast.Name)}
        if isinstance(n, ast.NamedExpr) and norm(n.value) == f"self.{inst}":
            alias.add(n.target.id)

    def cl(n: Node):
        t = n.ast
        if isinstance(t, ast.Attribute) and norm(t) == f"self.{flag}":
            return ("created", True)
        if isinstance(t, (ast.Attribute, ast.Name)) and norm(t) in alias:
            return ("has_instance", True)
        if isinstance(t, ast.Compare) and len(t.ops) == 1 and norm(t.left) in alias and is_none(t.comparators[0]):
            return ("has_instance", isinstance(t.ops[0], (ast.IsNot, ast.NotEq)))
        return None

    cnodes = [n for n in g.reachable() if any(isinstance(c.func, ast.Attribute) and c.func.attr == "async_close" and norm(c.func.value) in alias for c in node_calls(n))]
    tab = truth_table(g, ["created", "has_instance"], cl, cnodes)
    ok = tab[(True, True)] == (True, True) and all(not tab[k][0] for k in tab if k != (True, True))
    ctx.ob("C20.R3", close, "the manager closes its instance iff it created it (and one exists)", ok and bool(cnodes), fmt_table(["created", "has_instance"], tab))
    ev = occurred_before(g, lambda n: [f"w:{t.attr}" for t in _attr_targets(n) if t.attr in (inst, flag)])
    at_exit_closed = walk(g, {"created": True, "has_instance": True}, cl)
    ex_ok = {f"w:{inst}", f"w:{flag}"} <= _must_on(g, {"created": True, "has_instance": True}, cl, [f"w:{inst}", f"w:{flag}"])
    ctx.ob("C20.R3", close, "after closing, instance and ownership flag are both reset", ex_ok, "a later get_async_zeroconf() would hand out the closed instance, or a later supplied instance would be closed as if owned")
    for st, tgt, val in attr_writes(close):
        if tgt.attr == flag:
            ctx.ob("C20.R3", close, st, isinstance(val, ast.Constant) and val.value is False, "close may only clear the ownership flag")
        if tgt.attr == inst:
            ctx.ob("C20.R3", close, st, is_none(val), "close may only drop the instance")
    # ---- writers of flag and instance; atomic pairing
    fw = [(f, st, val) for f in ctx.repo.all_funcs() for st, tgt, val in attr_writes(f, flag) if f.cls is mgr or mgr.name in res.expr_types(f, tgt.value)]
    iw = [(f, st, val) for f in ctx.repo.all_funcs() for st, tgt, val in attr_writes(f, inst) if f.cls is mgr or mgr.name in res.expr_types(f, tgt.value)]
    ctx.count("C20.R3.flag-writers", len(fw), 3, "writes of the ownership flag")
    ctx.count("C20.R3.instance-writers", len(iw), 5, "writes of the managed instance")
    creators = []
    for f, st, val in fw:
        c = val.value if isinstance(val, ast.Constant) and isinstance(val.value, bool) else None
        if f is init:
            ctx.ob("C20.R3", f, st, c is False, "a new manager owns nothing")
        elif f is close:
            pass
        elif c is True:
            creators.append(f)
            made = [v for ff, s2, v in iw if ff is f and isinstance(v, ast.Call) and norm(v.func).split(".")[-1] == "AsyncZeroconf" and not v.args and not v.keywords]
            others = [v for ff, s2, v in iw if ff is f and v not in made]
            ctx.ob("C20.R3", f, st, len(made) == 1 and not others, "the ownership flag becomes true only where the manager itself constructs AsyncZeroconf() (no arguments: not wrapping a supplied Zeroconf)")
            gg = cfg_of(ctx, f)
            evc = occurred_before(gg, lambda n: [f"w:{t.attr}" for t in _attr_targets(n) if t.attr in (inst, flag)])
            if f.name != "get_async_zeroconf":
                ctx.ob("C20.R3", f, "creation sets instance and flag on every path", {f"w:{inst}", f"w:{flag}"} <= evc.get(gg.exit, frozenset()), "")
            else:
                # creation inlined into the getter: wherever the flag is set the instance was just created (pairing is
                # decided by the atomic-pair rule below); here: the instance write precedes or accompanies every flag write
                fl = [n for n in gg.reachable() if any(t.attr == flag for t in _attr_targets(n))]
                ctx.ob("C20.R3", f, "creation sets instance and flag on every path", bool(fl) and all(f"w:{inst}" in evc.get(n, frozenset()) or any(t.attr == inst for t in _attr_targets(n)) for n in fl), "the ownership flag is set on a path on which no instance was created")
        else:
            ctx.ob("C20.R3", f, st, False, "unexpected writer of the ownership flag")
    ctx.ob("C20.R3", f"{ZC}:ZeroconfManager", "exactly one place marks an instance as library-created", len(creators) == 1, f"{[f.qualname for f in creators]}")
    # set_instance and every other instance writer leave the flag alone
    for f, st, val in iw:
        if f in (init, close) or f in creators:
            continue
        touches = [1 for ff, s2, v in fw if ff is f]
        ctx.ob("C20.R3", f, st, not touches, "a supplied instance must never be marked as library-created", node=st)
    si = mgr.methods.get("set_instance")
    if si is not None:
        ctx.ob("C20.R3", si, "set_instance never closes or creates a fresh instance", not any(isinstance(c.func, ast.Attribute) and c.func.attr in ("async_close", "close") for c in _calls(si)) and not any(norm(c.func).split(".")[-1] == "AsyncZeroconf" and not c.args and not c.keywords for c in _calls(si)), "")
    # atomicity: in every function that writes the flag, no suspension point between the instance write and the flag write
    for f in {x[0] for x in fw if x[0] is not init}:
        gg = cfg_of(ctx, f)

        def gk(n: Node, fact: frozenset, label: str, f=f) -> frozenset:
            if label == "exc" and not eff.node_raises(f, n):
                return fact
            w = {t.attr for t in _attr_targets(n)} if label != "exc" else set()
            fact = set(fact)
            for a, other in ((inst, flag), (flag, inst)):
                if a in w:
                    if f"open:{other}" in fact:
                        fact.discard(f"open:{other}")
                    else:
                        fact.add(f"open:{a}")
            if (eff.node_suspends(f, n) or label == "exc") and any(x.startswith("open:") for x in fact):
                fact.add("torn")
            return frozenset(fact)

        from ..cfg import may_forward

        facts = may_forward(gg, gk)
        torn = any("torn" in facts.get(x, frozenset()) for x in (gg.exit, gg.raise_exit)) or any(x.startswith("open:") for e_ in (gg.exit, gg.raise_exit) for x in facts.get(e_, frozenset()))
        ctx.ob("C20.R3", f, "instance and ownership flag change together (no suspension point or exit between the two writes)", not torn, "while control is lost the flag describes an instance that is no longer (or not yet) the one installed: a supplied instance can inherit 'created' and be closed, or a created one is never closed")
    # get_async_zeroconf creates only when none exists
    ga = mgr.methods.get("get_async_zeroconf")
    if ga is not None and creators:
        gg = cfg_of(ctx, ga)
        if creators[0] is ga:
            cn = [n for n in gg.reachable() if any(t.attr == flag for t in _attr_targets(n))]
        else:
            cn = [n for n in gg.reachable() if any(creators[0] in res.callees(ga, c).funcs for c in node_calls(n))]

        def clg(n: Node):
            t = n.ast
            if isinstance(t, ast.Attribute) and norm(t) == f"self.{inst}":
                return ("has_instance", True)
            if isinstance(t, ast.Compare) and len(t.ops) == 1 and norm(t.left) == f"self.{inst}" and is_none(t.comparators[0]):
                return ("has_instance", isinstance(t.ops[0], (ast.IsNot, ast.NotEq)))
            return None

        tb = truth_table(gg, ["has_instance"], clg, cn)
        ctx.ob("C20.R3", ga, "an instance is created iff none is set (a supplied one is always used)", tb[(False,)] == (True, True) and not tb[(True,)][0], fmt_table(["has_instance"], tb))
        if creators[0] is not ga:
            cs = [(f, c) for f in ctx.repo.all_funcs() for c in _calls(f) if creators[0] in res.callees(f, c).funcs]
            ctx.ob("C20.R3", creators[0], "the creating function is called only from get_async_zeroconf", all(f is ga for f, c in cs) and len(cs) == 1, f"{[f.qualname for f, c in cs]}")
    hi = mgr.methods.get("has_instance")
    if hi is not None:
        rets = [n for n in own_nodes(hi.node) if isinstance(n, ast.Return)]
        ctx.ob("C20.R3", hi, "has_instance <=> an instance is set", len(rets) == 1 and norm(rets[0].value) == f"self.{inst} is not None", f"{[norm(r.value) for r in rets]}")
    # ---- who may ask the manager for an instance (asking creates one when none is set): the service-info helper, which
    # closes what it caused to be created, and the reconnect logic's listen / unlisten pair, whose stop() closes through
    # the manager.  Any other place that asks - an accessor, a diagnostic - can create an instance nobody closes.
    askers = sorted({f.qualname for f in ctx.repo.all_funcs() for c in _calls(f) if isinstance(c.func, ast.Attribute) and c.func.attr == "get_async_zeroconf" and not (f.cls is not None and f.cls.name == mgr.name and f.name == "get_async_zeroconf")})
    allowed_askers = {"_async_zeroconf_get_service_info", "ReconnectLogic._start_zc_listen", "ReconnectLogic._stop_zc_listen"}
    ctx.ob("C20.R3", f"{ZC}:ZeroconfManager", "an instance is requested (and possibly created) only where it is closed again", set(askers) <= allowed_askers and bool(askers), f"also requested in {sorted(set(askers) - allowed_askers)}: a library-created instance obtained there is never closed")
    # ---- service-info helper
    gi = ctx.repo.func(HR, "_async_zeroconf_get_service_info")
    gg = cfg_of(ctx, gi)
    mp = gi.param_names()[0]
    def _snap_pol(v: ast.expr) -> "bool | None":
        """Polarity of a snapshot expression: True for `m.has_instance`, False for `not m.has_instance`."""
        if norm(v) == f"{mp}.has_instance":
            return True
        if isinstance(v, ast.UnaryOp) and isinstance(v.op, ast.Not) and norm(v.operand) == f"{mp}.has_instance":
            return False
        return None

    snaps = [n for n in own_nodes(gi.node) if isinstance(n, ast.Assign) and _snap_pol(n.value) is not None and len(n.targets) == 1 and isinstance(n.targets[0], ast.Name)]
    ctx.ob("C20.R3", gi, "a snapshot 'had an instance' is taken", len(snaps) == 1, f"{len(snaps)} snapshot(s) of {mp}.has_instance")
    if len(snaps) == 1:
        sv = snaps[0].targets[0].id
        getn = [n for n in gg.reachable() if any(isinstance(c.func, ast.Attribute) and c.func.attr == "get_async_zeroconf" for c in node_calls(n))]
        evs = occurred_before(gg, lambda n: ["snap"] if n.ast is snaps[0] else [])
        ctx.ob("C20.R3", gi, "the snapshot precedes the request for an instance (which may create one)", bool(getn) and all("snap" in evs.get(n, frozenset()) for n in getn), "taken afterwards it is always true: a library-created instance would never be closed")
        cn = [n for n in gg.reachable() if any(isinstance(c.func, ast.Attribute) and c.func.attr == "async_close" for c in node_calls(n))]
        for n in cn:
            for c in node_calls(n):
                if isinstance(c.func, ast.Attribute) and c.func.attr == "async_close":
                    ctx.ob("C20.R3", gi, c, norm(c.func.value) == mp, "the helper must close through the manager, never the instance itself", node=c)

        pol = _snap_pol(snaps[0].value)

        def clh(n: Node):
            if isinstance(n.ast, ast.Name) and n.ast.id == sv:
                return ("had_instance", bool(pol))
            return None

        # after the lookup started (get_async_zeroconf returned), every exit passes the close iff no instance existed before
        reqs = [n for n in gg.reachable() if any(isinstance(c.func, ast.Attribute) and c.func.attr == "async_request" for c in node_calls(n))]
        # ... and everything else that runs once an instance may have been created (the construction of the service
        # info object can raise for an over-long label)
        reqs = reqs + [s_ for n in getn for l_, s_ in n.succ if l_ != "exc" and s_ not in reqs]
        ctx.ob("C20.R3", gi, "the lookup request is located", len(reqs) >= 1, "")
        for had in (False, True):
            for r in reqs:
                reach = walk(gg, {"had_instance": had}, clh, start=r, follow_exc=True)
                hit = bool(reach & set(cn))
                avoid = walk(gg, {"had_instance": had}, clh, start=r, blocked=set(cn), follow_exc=True)
                leaves = gg.exit in avoid or gg.raise_exit in avoid
                if had:
                    # closing through the manager is harmless for a supplied instance (the manager's own guard, checked
                    # above, protects it); recorded, not judged - the property does not forbid an early close of an owned one
                    ctx.note(f"service-info helper: close {'reachable' if hit else 'not reachable'} when an instance existed before the lookup")
                else:
                    ctx.ob("C20.R3", gi, "an instance created for this lookup is closed again on every exit (success, error, cancellation)", hit and not leaves, "the library-created instance would be leaked")
    # ---- mDNS outcome "error": whatever goes wrong while starting or querying mDNS must reach the decision tree as
    # ResolveAPIError - that is the only class it absorbs before falling back to the OS resolver (checked in R1)
    def _is_resolve_error(e: "ast.expr | None") -> bool:
        if not isinstance(e, ast.Call):
            return False
        name = norm(e.func).split(".")[-1]
        seen: set[str] = set()
        todo = [name]
        while todo:
            k = todo.pop()
            if k == "ResolveAPIError":
                return True
            if k in seen or k not in ctx.repo.classes:
                continue
            seen.add(k)
            todo += [b.split(".")[-1] for b in ctx.repo.classes[k].base_names]
        return False

    def _converted_here(f: Func, c: ast.Call) -> bool:
        for t in own_nodes(f.node):
            if not isinstance(t, ast.Try) or not any(c in set(ast.walk(b)) for b in t.body):
                continue
            for h in t.handlers:
                types = [norm(x) for x in (h.type.elts if isinstance(h.type, ast.Tuple) else [h.type])] if h.type is not None else ["BaseException"]
                raised = [x for b in h.body for x in ast.walk(b) if isinstance(x, ast.Raise)]
                if "Exception" in types and any(isinstance(x, ast.Raise) for x in h.body) and all(_is_resolve_error(x.exc) for x in raised):
                    return True
        return False

    def _converted(f: Func, c: ast.Call, depth: int = 0) -> "str | None":
        """None when every failure of call c inside f surfaces as ResolveAPIError; else the unconverted construct."""
        if _converted_here(f, c):
            return None
        cal = res.callees(f, c)
        if cal.kind in ("pkg",) and cal.funcs and depth < 4:
            for g_ in cal.funcs:
                for c2 in _calls(g_):
                    c2k = res.callees(g_, c2)
                    risky = (c2k.kind in ("pkg",) and any(x.cls is not None and x.cls.name == "ZeroconfManager" for x in c2k.funcs)) or norm(c2.func).split(".")[-1] in ("AsyncZeroconf", "Zeroconf")
                    if risky:
                        w = _converted(g_, c2, depth + 1)
                        if w is not None:
                            return w
            return None
        return f"{f.qualname}: {norm(c)[:50]}"

    starts = [c for c in _calls(gi) if (isinstance(c.func, ast.Attribute) and c.func.attr in ("get_async_zeroconf", "async_request")) or norm(c.func).split(".")[-1] == "AsyncServiceInfo"]
    ctx.ob("C20.R1", gi, "mDNS start-up, service-info construction and request calls are located", len(starts) >= 3, f"{[norm(c)[:40] for c in starts]}")
    for c in starts:
        w = _converted(gi, c)
        ctx.ob("C20.R1", gi, f"every failure of {norm(c.func)[-40:]} surfaces as ResolveAPIError (so the OS resolver is still tried)", w is None, f"not inside `except Exception: raise ResolveAPIError(...)`: {w}; any other exception class leaves async_resolve_host at once - no fall-back, later addresses unused", node=c)
    # the mDNS helper hands the caller's manager through (a fresh one only when none was given)
    mdns = ctx.repo.func(HR, "_async_resolve_host_zeroconf")
    cs = [c for c in _calls(mdns) if gi in res.callees(mdns, c).funcs]
    marg = res.bind_args(gi, cs[0]).get(gi.param_names()[0]) if len(cs) == 1 else None
    if isinstance(marg, ast.Name) and marg.id not in mdns.param_names():
        # taken into a local first
        ldefs = [n.value for n in own_nodes(mdns.node) if isinstance(n, ast.Assign) and any(isinstance(t, ast.Name) and t.id == marg.id for t in n.targets)]
        marg = ldefs[0] if len(ldefs) == 1 else marg
    ok = marg is not None and norm(marg) in ("zeroconf_manager or ZeroconfManager()", "zeroconf_manager")
    ctx.ob("C20.R3", mdns, "the caller's manager is used; a private one only when none was given", ok, f"{norm(marg) if marg is not None else None}")


def _attr_targets(n: Node) -> list[ast.Attribute]:
    a = n.ast
    if n.kind != "stmt" or a is None:
        return []
    tg = []
    if isinstance(a, ast.Assign):
        tg = a.targets
    elif isinstance(a, (ast.AugAssign, ast.AnnAssign)):
        tg = [a.target]
    return [t for t in tg if isinstance(t, ast.Attribute) and isinstance(t.value, ast.Name) and t.value.id == "self"]


def _must_on(g: CFG, asg: dict[str, bool], cl, toks: list[str]) -> set[str]:
    """Tokens (attribute writes) that every normal path under the assignment passes before the exit."""
    out = set()
    for tok in toks:
        attr = tok[2:]
        blockers = {n for n in g.reachable() if any(t.attr == attr for t in _attr_targets(n))}
        avoid = walk(g, asg, cl, blocked=blockers)
        if g.exit not in avoid:
            out.add(tok)
    return out


# =========================================================================== R4
ADDRS = ["living-room", "esp", "esp.local", "esp.local.", "a.b.local", "esp.example.com", "example.com.", "local", ".local", "esplocal", "esp.locale", "192.168.1.7", "10.0.0.1", "::1", "fe80::1", "fe80::1%3", "2001:db8::2", "[::1]", "esp:6053", "",
         "living_room", "esp_1", "k\u00fcche", "ESP-Upper", "x" * 70, "-lead", "trail-", "7segment", "living_room.local", "k\u00fcche.local", "a b"]


def r4(ctx: Ctx) -> None:
    hn = ctx.repo.func("util", "host_is_name_part")
    al = ctx.repo.func("util", "address_is_local")
    for fn, spec, what in (
        (hn, lambda a: "." not in a and ":" not in a, "a bare name has neither a dot nor a colon"),
        (al, lambda a: (a[:-1] if a.endswith(".") else a).endswith(".local"), "a local address ends in .local (one trailing dot allowed)"),
    ):
        rets = [n for n in own_nodes(fn.node) if isinstance(n, ast.Return)]
        ctx.require(len(rets) == 1 and rets[0].value is not None, f"{fn.key}: single return expression expected")
        p = fn.param_names()[0]
        bad = []
        undecided = False
        rx = _module_regexes(fn)
        for a in ADDRS:
            v = _eval_str(rets[0].value, {p: a, "__regex__": rx})
            if v is Unknown:
                undecided = True
                break
            if bool(v) != bool(spec(a)):
                bad.append((a, v))
        if undecided:
            ctx.ob("C20.R4", fn, f"{what}", False, f"`{norm(rets[0].value)[:80]}` is outside the fragment the checker can evaluate (membership / prefix / suffix / constant regular expressions): the classification is not decided and therefore rejected")
            continue
        ctx.ob("C20.R4", fn, f"{what} (evaluated on {len(ADDRS)} addresses)", not bad, f"deviations (address, code says): {bad[:4]}")


def raise_unknown(fn: Func, e: ast.expr) -> None:
    from ..src import AnalysisError

    raise AnalysisError(f"{fn.key}: return expression {norm(e)} is outside the string evaluator's fragment")


def _module_regexes(fn: Func) -> dict[str, Any]:
    """Module-level `NAME = re.compile(<constant pattern>[, <constant flags>])` of fn's module, compiled by the checker."""
    import re

    out: dict[str, Any] = {}
    for st in fn.module.tree.body:
        if isinstance(st, ast.Assign) and len(st.targets) == 1 and isinstance(st.targets[0], ast.Name) and isinstance(st.value, ast.Call) and norm(st.value.func) in ("re.compile", "compile") and st.value.args and isinstance(st.value.args[0], ast.Constant) and isinstance(st.value.args[0].value, str) and not st.value.keywords:
            flags = 0
            okf = True
            for fa in st.value.args[1:]:
                nm = norm(fa)
                if nm.startswith("re.") and hasattr(re, nm[3:]):
                    flags |= int(getattr(re, nm[3:]))
                else:
                    okf = False
            if okf:
                try:
                    out[st.targets[0].id] = re.compile(st.value.args[0].value, flags)
                except re.error:
                    pass
    return out


def _eval_str(e: ast.expr, env: dict[str, Any]) -> Any:
    """Tiny evaluator for boolean expressions over string membership / suffix tests."""
    if isinstance(e, ast.Constant):
        return e.value
    if isinstance(e, ast.Call) and isinstance(e.func, ast.Attribute) and isinstance(e.func.value, ast.Name) and e.func.value.id in env.get("__regex__", {}) and e.func.attr in ("fullmatch", "match", "search") and len(e.args) == 1 and not e.keywords:
        sarg = _eval_str(e.args[0], env)
        if not isinstance(sarg, str):
            return Unknown
        return getattr(env["__regex__"][e.func.value.id], e.func.attr)(sarg) is not None or None  # truthy match / None
    if isinstance(e, ast.Compare) and len(e.ops) == 1 and isinstance(e.ops[0], (ast.Is, ast.IsNot)) and isinstance(e.comparators[0], ast.Constant) and e.comparators[0].value is None:
        lv = _eval_str(e.left, env)
        if lv is Unknown:
            return Unknown
        return (lv is None) if isinstance(e.ops[0], ast.Is) else (lv is not None)
    if isinstance(e, ast.Name):
        return env.get(e.id, Unknown)
    if isinstance(e, ast.BoolOp):
        vals = [_eval_str(v, env) for v in e.values]
        if any(v is Unknown for v in vals):
            return Unknown
        return all(vals) if isinstance(e.op, ast.And) else any(vals)
    if isinstance(e, ast.UnaryOp) and isinstance(e.op, ast.Not):
        v = _eval_str(e.operand, env)
        return Unknown if v is Unknown else (not v)
    if isinstance(e, ast.Compare) and len(e.ops) == 1:
        a, b = _eval_str(e.left, env), _eval_str(e.comparators[0], env)
        if a is Unknown or b is Unknown:
            return Unknown
        op = e.ops[0]
        try:
            if isinstance(op, ast.In):
                return a in b
            if isinstance(op, ast.NotIn):
                return a not in b
            if isinstance(op, ast.Eq):
                return a == b
            if isinstance(op, ast.NotEq):
                return a != b
        except TypeError:
            return Unknown
        return Unknown
    if isinstance(e, ast.Call) and isinstance(e.func, ast.Attribute):
        recv = _eval_str(e.func.value, env)
        args = [_eval_str(a, env) for a in e.args]
        if recv is Unknown or any(a is Unknown for a in args) or not isinstance(recv, str) or e.keywords:
            return Unknown
        m = e.func.attr
        if m in ("endswith", "startswith", "removesuffix", "removeprefix", "rstrip", "lstrip", "strip", "lower", "count", "find") and all(isinstance(a, (str, tuple)) for a in args):
            return getattr(recv, m)(*args)
        if m in ("partition", "rpartition", "split") and all(isinstance(a, str) for a in args):
            return getattr(recv, m)(*args)
        return Unknown
    if isinstance(e, ast.Subscript):
        base = _eval_str(e.value, env)
        if base is Unknown:
            return Unknown
        if isinstance(e.slice, ast.Constant):
            try:
                return base[e.slice.value]
            except Exception:
                return Unknown
        if isinstance(e.slice, ast.Slice):
            lo = _eval_str(e.slice.lower, env) if e.slice.lower is not None else None
            hi = _eval_str(e.slice.upper, env) if e.slice.upper is not None else None
            if lo is Unknown or hi is Unknown or e.slice.step is not None:
                return Unknown
            return base[lo:hi]
    if isinstance(e, ast.UnaryOp) and isinstance(e.op, ast.USub):
        v = _eval_str(e.operand, env)
        return -v if isinstance(v, int) else Unknown
    if isinstance(e, ast.Call) and isinstance(e.func, ast.Name) and e.func.id in ("len", "bool") and len(e.args) == 1:
        v = _eval_str(e.args[0], env)
        return Unknown if v is Unknown else (len(v) if e.func.id == "len" else bool(v))
    return Unknown
