"""C15 - commands carry exactly the arguments the caller supplied."""

from __future__ import annotations

import ast
from dataclasses import dataclass, field
from typing import Any

from ..cfg import Node, cfg_of, node_calls
from ..closed import resolver
from ..flow import disjunctive
from ..report import Ctx
from ..schema import Schema, load_schema
from ..src import AnalysisError, Func, norm, own_nodes
from ..sym import EnumVal, Ref, Unknown

EXPLANATION = (
    "Schema-driven lint of every APIClient method that builds a *CommandRequest / ExecuteServiceRequest. The request "
    "variable is identified by its constructor call, parameters by the signature, fields and presence flags by the wire "
    "schema (api.proto). Every write to the request is collected with the stack of guards it sits under (normalised: "
    "`p is not None`, truthiness, version comparisons as (operator, (major, minor)), equalities). R1: key and every required "
    "parameter are written unguarded to the same-named field. R2: every optional parameter has the guard `is not None` (never "
    "truthiness) and writes only its own field with its own value (exceptions: rgb split, version-gated preset, cover legacy). "
    "R3: a field with a has_<field> flag gets the flag set True under the same guards, and every flag of the message is "
    "written. R4: nothing else is written; bool=False parameters may be guarded by truthiness. R5: durations are "
    "int(round(p*1000)). R6: legacy encodings - the version guards are normalised to thresholds and compared with the "
    "documented table; service-argument maps name existing fields consistent with the enum member. R7: exactly one send per "
    "normal path. Float-to-int rounding arithmetic for all values is not decided."
    " Also: no parameter is rebound before its presence guard; the caller's value is written into every service argument on every path."
)
ASSUMPTIONS = ["api.proto equals the compiled descriptor (C13.R2)", "the has_<field> naming convention of api.proto"]

MS_FIELDS = {"transition_length", "flash_length"}


@dataclass
class Write:
    field: str
    value: ast.expr
    guards: tuple[str, ...]
    node: ast.AST


@dataclass
class Cmd:
    fn: Func
    msg: str
    var: str | None
    ctor: ast.Call
    writes: list[Write] = field(default_factory=list)


def schema(ctx: Ctx) -> Schema:
    return ctx.service("schema", lambda: load_schema(ctx.repo))


def guard_text(fn: Func, t: ast.expr, aliases: dict[str, str]) -> str:
    """Normalised guard: present:p / truthy:p / ver:>=:1.1 / eq:p:1.0 / other:<text>."""
    if isinstance(t, ast.Compare) and len(t.ops) == 1:
        l, r = t.left, t.comparators[0]
        if isinstance(l, ast.Name) and isinstance(r, ast.Constant) and r.value is None:
            if isinstance(t.ops[0], ast.IsNot):
                return f"present:{l.id}"
            if isinstance(t.ops[0], ast.Is):
                return f"absent:{l.id}"
            if isinstance(t.ops[0], ast.NotEq):
                return f"present!=:{l.id}"
        lt = aliases.get(norm(l), norm(l))
        if lt == "self.api_version" and isinstance(r, ast.Call) and norm(r.func) == "APIVersion" and len(r.args) == 2 and all(isinstance(a, ast.Constant) for a in r.args):
            ops = {ast.GtE: ">=", ast.Lt: "<", ast.Gt: ">", ast.LtE: "<=", ast.Eq: "==", ast.NotEq: "!="}
            return f"ver:{ops.get(type(t.ops[0]), '?')}:{r.args[0].value}.{r.args[1].value}"
        if isinstance(l, ast.Name) and isinstance(t.ops[0], ast.Eq) and isinstance(r, ast.Constant):
            return f"eq:{l.id}:{float(r.value) if isinstance(r.value, (int, float)) else r.value}"
    if isinstance(t, ast.Name):
        return f"truthy:{t.id}"
    if isinstance(t, ast.UnaryOp) and isinstance(t.op, ast.Not) and isinstance(t.operand, ast.Name):
        return f"falsy:{t.operand.id}"
    return f"other:{norm(t)}"


def neg(g: str) -> str:
    if g.startswith("ver:"):
        _, op, v = g.split(":")
        flip = {">=": "<", "<": ">=", ">": "<=", "<=": ">", "==": "!=", "!=": "=="}
        return f"ver:{flip.get(op, '?')}:{v}"
    return f"not({g})"


def collect(ctx: Ctx, fn: Func, sc: Schema) -> list[Cmd]:
    """Requests built in fn with every write and its guard stack."""
    cmds: dict[str, Cmd] = {}
    anon: list[Cmd] = []
    aliases: dict[str, str] = {}
    for n in own_nodes(fn.node):
        if isinstance(n, ast.Assign) and len(n.targets) == 1 and isinstance(n.targets[0], ast.Name) and norm(n.value) == "self.api_version":
            aliases[n.targets[0].id] = "self.api_version"

    def is_req(c: ast.Call) -> str | None:
        if isinstance(c.func, ast.Name):
            v = ctx.sym.resolve_name("client", c.func.id)
            if isinstance(v, Ref) and v.kind == "pb" and (v.name.endswith("CommandRequest") or v.name == "ExecuteServiceRequest"):
                return v.name
        return None

    def visit(stmts: list[ast.stmt], guards: tuple[str, ...]) -> None:
        for st in stmts:
            if isinstance(st, ast.If):
                g = guard_text(fn, st.test, aliases)
                if g == "other:TYPE_CHECKING":
                    continue
                visit(st.body, guards + (g,))
                visit(st.orelse, guards + (neg(g),))
                continue
            if isinstance(st, (ast.For, ast.While)):
                visit(st.body, guards + ("loop",))
                continue
            if isinstance(st, (ast.With, ast.Try)):
                visit(st.body, guards)
                continue
            for c in [x for x in ast.walk(st) if isinstance(x, ast.Call)]:
                m = is_req(c)
                if m is None:
                    continue
                var = None
                if isinstance(st, ast.Assign) and st.value is c and isinstance(st.targets[0], ast.Name):
                    var = st.targets[0].id
                cmd = Cmd(fn, m, var, c)
                for kw in c.keywords:
                    if kw.arg is not None:
                        cmd.writes.append(Write(kw.arg, kw.value, guards, kw.value))
                if var:
                    cmds[var] = cmd
                else:
                    anon.append(cmd)
            if isinstance(st, ast.Assign) and len(st.targets) == 1 and isinstance(st.targets[0], ast.Attribute) and isinstance(st.targets[0].value, ast.Name) and st.targets[0].value.id in cmds:
                cmds[st.targets[0].value.id].writes.append(Write(st.targets[0].attr, st.value, guards, st))
            if isinstance(st, ast.AugAssign) and isinstance(st.target, ast.Attribute) and isinstance(st.target.value, ast.Name) and st.target.value.id in cmds:
                cmds[st.target.value.id].writes.append(Write(st.target.attr, st.value, guards + ("augmented",), st))

    visit(fn.node.body, ())
    # selected-value expansion:  L = None; if a: L = A elif b: L = B; if L is not None: req.f = L; req.has_f = True
    # is the same as writing f under each selecting guard - rewrite the writes that way before they are judged
    sel: dict[str, list[tuple[tuple[str, ...], ast.expr]]] = {}

    def scan(stmts: list[ast.stmt], guards: tuple[str, ...]) -> None:
        for st in stmts:
            if isinstance(st, ast.If):
                g = guard_text(fn, st.test, aliases)
                if g == "other:TYPE_CHECKING":
                    continue
                scan(st.body, guards + (g,))
                scan(st.orelse, guards + (neg(g),))
            elif isinstance(st, (ast.With, ast.Try)):
                scan(st.body, guards)
            elif isinstance(st, (ast.Assign, ast.AnnAssign)) and getattr(st, "value", None) is not None:
                t = st.targets[0] if isinstance(st, ast.Assign) and len(st.targets) == 1 else getattr(st, "target", None)
                if isinstance(t, ast.Name) and t.id not in fn.param_names() and isinstance(st.value, (ast.Constant, ast.Attribute, ast.Name)):
                    sel.setdefault(t.id, []).append((guards, st.value))

    scan(fn.node.body, ())
    for cmd in list(cmds.values()) + anon:
        out: list[Write] = []
        for w in cmd.writes:
            hit = next(((i, g[len("present:"):]) for i, g in enumerate(w.guards) if g.startswith("present:") and g[len("present:"):] in sel and len(sel[g[len("present:"):]]) > 1), None)
            if hit is None:
                out.append(w)
                continue
            i, L = hit
            pre = w.guards[:i]
            ok = True
            exp: list[Write] = []
            for ga, va in sel[L]:
                if isinstance(va, ast.Constant) and va.value is None:
                    continue
                if ga[: len(pre)] != pre:
                    ok = False
                    break
                val = va if (isinstance(w.value, ast.Name) and w.value.id == L) else w.value
                exp.append(Write(w.field, val, pre + ga[len(pre):] + w.guards[i + 1:], w.node))
            out.extend(exp if ok and exp else [w])
        cmd.writes = out
    return list(cmds.values()) + anon


def run(ctx: Ctx) -> None:
    sc = schema(ctx)
    res = resolver(ctx)
    client = ctx.repo.cls("APIClient")
    n_methods = 0
    n_flags = 0
    for m in client.methods.values():
        for cmd in collect(ctx, m, sc):
            if cmd.msg == "ExecuteServiceRequest":
                n_methods += 1
                execute_service(ctx, m, cmd, sc)
                continue
            n_methods += 1
            n_flags += lint(ctx, cmd, sc)
            one_send(ctx, m, cmd)
            no_rebinding(ctx, m)
    ctx.count("C15.methods", n_methods, 19, "command methods")
    ctx.count("C15.flags", n_flags, 42, "presence flags in the command requests")


def one_send(ctx: Ctx, fn: Func, cmd: Cmd) -> None:
    res = resolver(ctx)
    g = cfg_of(ctx, fn)

    def is_send(c: ast.Call) -> bool:
        if not (isinstance(c.func, ast.Attribute) and c.func.attr in ("send_message", "send_messages")):
            return False
        return bool(c.args) and (norm(c.args[0]) == cmd.var or c.args[0] is cmd.ctor or (cmd.var is None and any(x is cmd.ctor for x in ast.walk(c.args[0]))))

    def step(n, s, label):
        if label == "exc":
            return None
        k = sum(1 for c in node_calls(n) if is_send(c))
        if k:
            cur = max([int(x[1:]) for x in s if x.startswith("c")] or [0])
            s = frozenset(x for x in s if not x.startswith("c")) | {f"c{min(2, cur + k)}"}
        return s

    facts = disjunctive(g, frozenset(), step)
    counts = {max([int(x[1:]) for x in s if x.startswith("c")] or [0]) for s in facts.get(g.exit, frozenset())}
    ctx.ob("C15.R7", fn, f"{cmd.msg} sent exactly once on every normal path", counts == {1}, f"possible send counts {sorted(counts)}")


def no_rebinding(ctx: Ctx, fn: Func) -> None:
    """The arguments are what the caller supplied: a command method never rebinds one of its parameters (a value
    normalised on the way - stripped, stringified, defaulted - is no longer 'exactly the supplied argument')."""
    params = set(fn.param_names()) - {"self"}
    reb = sorted({n.id for n in own_nodes(fn.node) if isinstance(n, ast.Name) and isinstance(n.ctx, (ast.Store, ast.Del)) and n.id in params})
    ctx.ob("C15.R2", fn, "no argument is rebound before it is written to the request", not reb, f"parameters reassigned in the method: {reb} - the guard `p is not None` then tests the rewritten value (e.g. '' turned into None and dropped)")


def lint(ctx: Ctx, cmd: Cmd, sc: Schema) -> int:
    fn = cmd.fn
    msg = sc.proto.messages[cmd.msg]
    fields = {f.name: f for f in msg.fields}
    flags = {f.name for f in msg.fields if f.name.startswith("has_")}
    a = fn.node.args
    params = [p for p in [*a.posonlyargs, *a.args, *a.kwonlyargs] if p.arg != "self"]
    defaults: dict[str, Any] = {}
    pos = [*a.posonlyargs, *a.args]
    for p, d in zip(pos[len(pos) - len(a.defaults):], a.defaults):
        defaults[p.arg] = d
    for p, d in zip(a.kwonlyargs, a.kw_defaults):
        if d is not None:
            defaults[p.arg] = d
    required = [p.arg for p in params if p.arg not in defaults]
    optional = [p.arg for p in params if p.arg in defaults and isinstance(defaults[p.arg], ast.Constant) and defaults[p.arg].value is None]
    boolfalse = [p.arg for p in params if p.arg in defaults and isinstance(defaults[p.arg], ast.Constant) and defaults[p.arg].value is False]
    where = fn
    accounted: set[int] = set()

    def names_in(e: ast.expr) -> set[str]:
        return {x.id for x in ast.walk(e) if isinstance(x, ast.Name)}

    # unknown fields
    for w in cmd.writes:
        ctx.ob("C15.R4", where, f"{cmd.msg}.{w.field} exists", w.field in fields, "write to a field the message does not have", node=w.node)

    # ---- R1 required parameters
    for p in required:
        ws = [w for w in cmd.writes if w.field == p and isinstance(w.value, ast.Name) and w.value.id == p and not w.guards]
        ctx.ob("C15.R1", where, f"required {p} -> {cmd.msg}.{p} unguarded", len(ws) == 1 and p in fields, f"{len(ws)} unguarded same-named write(s)")
        for w in ws:
            accounted.add(id(w))

    # ---- per-method exception tables
    special = SPECIAL.get(fn.name, {})

    # ---- R2/R3 optional parameters
    for p in optional:
        ws = [w for w in cmd.writes if p in names_in(w.value) or any(g.endswith(f":{p}") for g in w.guards) and w.field in (p, f"has_{p}")]
        if p in special:
            special[p](ctx, cmd, p, ws, fields, accounted)
            continue
        mine = [w for w in cmd.writes if (w.field == p) or (w.field == f"has_{p}")]
        val_w = [w for w in mine if w.field == p]
        flag_w = [w for w in mine if w.field == f"has_{p}"]
        ctx.ob("C15.R2", where, f"optional {p}: written to its own field exactly once", len(val_w) == 1 and p in fields, f"{len(val_w)} write(s) to {cmd.msg}.{p}")
        if len(val_w) != 1:
            continue
        w = val_w[0]
        accounted.add(id(w))
        ctx.ob("C15.R2", where, f"optional {p}: guarded by `{p} is not None` only", w.guards == (f"present:{p}",), f"guards {list(w.guards)} - a falsy value (0, 0.0, False, '') supplied by the caller must still be sent", node=w.node)
        if p in MS_FIELDS:
            okv = norm(w.value) in (f"int(round({p} * 1000))", f"int(round(1000 * {p}))", f"round({p} * 1000)")
            ctx.ob("C15.R5", where, f"{p}: seconds -> whole milliseconds", okv, f"value {norm(w.value)}", node=w.node)
        else:
            ctx.ob("C15.R2", where, f"optional {p}: value is the argument itself", isinstance(w.value, ast.Name) and w.value.id == p, f"value {norm(w.value)}", node=w.node)
        if f"has_{p}" in flags:
            okf = len(flag_w) == 1 and flag_w[0].guards == w.guards and isinstance(flag_w[0].value, ast.Constant) and flag_w[0].value.value is True
            ctx.ob("C15.R3", where, f"optional {p}: has_{p} set True under the same guard", okf, f"{[(norm(x.value), list(x.guards)) for x in flag_w]}")
            for x in flag_w:
                accounted.add(id(x))
        else:
            ctx.ob("C15.R3", where, f"optional {p}: no presence flag exists, none written", not flag_w, "")
    # ---- bool = False parameters
    for p in boolfalse:
        if p in special:
            ws = [w for w in cmd.writes if p in names_in(w.value) or w.field == p]
            special[p](ctx, cmd, p, ws, fields, accounted)
            continue
        ws = [w for w in cmd.writes if w.field == p]
        ok = len(ws) == 1 and isinstance(ws[0].value, ast.Name) and ws[0].value.id == p and ws[0].guards in ((), (f"truthy:{p}",))
        ctx.ob("C15.R4", where, f"flag parameter {p}: written as is (unguarded or under its own truthiness)", ok, f"{[(norm(w.value), list(w.guards)) for w in ws]}")
        for w in ws:
            accounted.add(id(w))
    # ---- R3 every flag of the message is written
    written_flags = {w.field for w in cmd.writes if w.field in flags}
    for fl in sorted(flags):
        ctx.ob("C15.R3", where, f"{cmd.msg}.{fl} is set when its field is supplied", fl in written_flags, f"the method writes {cmd.msg}.{fl[4:]} but never sets {fl}: the device ignores the value" if fl[4:] in {w.field for w in cmd.writes} else f"{fl} is never written")
    # ---- R4 nothing else
    extra = [w for w in cmd.writes if id(w) not in accounted and w.field in fields]
    for w in extra:
        ctx.ob("C15.R4", where, f"unaccounted write {cmd.msg}.{w.field} = {norm(w.value)[:40]}", False, f"guards {list(w.guards)}: a field is written that no supplied argument accounts for", node=w.node)
    return len(flags)


# ------------------------------------------------------------ special cases
def sp_rgb(ctx: Ctx, cmd: Cmd, p: str, ws: list[Write], fields, accounted: set[int]) -> None:
    want = {"red": f"{p}[0]", "green": f"{p}[1]", "blue": f"{p}[2]"}
    ok = True
    detail = []
    for f, v in want.items():
        w = [x for x in cmd.writes if x.field == f]
        good = len(w) == 1 and norm(w[0].value) == v and w[0].guards == (f"present:{p}",)
        ok = ok and good
        detail.append(f"{f}={[norm(x.value) for x in w]}")
        for x in w:
            accounted.add(id(x))
    fl = [x for x in cmd.writes if x.field == f"has_{p}"]
    ok = ok and len(fl) == 1 and fl[0].guards == (f"present:{p}",) and isinstance(fl[0].value, ast.Constant) and fl[0].value.value is True
    for x in fl:
        accounted.add(id(x))
    ctx.ob("C15.R2", cmd.fn, "rgb: colour tuple split into red/green/blue with has_rgb under `rgb is not None`", ok, "; ".join(detail))


def sp_preset(ctx: Ctx, cmd: Cmd, p: str, ws: list[Write], fields, accounted: set[int]) -> None:
    legacy = (f"present:{p}", "ver:<:1.5")
    modern = (f"present:{p}", "ver:>=:1.5")
    table = {
        ("has_legacy_away", legacy): "True",
        ("legacy_away", legacy): None,  # checked below
        ("has_preset", modern): "True",
        ("preset", modern): p,
    }
    got = {(w.field, w.guards): norm(w.value) for w in cmd.writes if w.field in ("has_legacy_away", "legacy_away", "has_preset", "preset")}
    ok = set(got) == set(table) and all(v is None or got[k] == v for k, v in table.items())
    la = got.get(("legacy_away", legacy), "")
    away = ctx.sym.eval(ast.parse("ClimatePreset.AWAY", mode="eval").body, "client")
    ok_la = la in (f"{p} == ClimatePreset.AWAY", f"ClimatePreset.AWAY == {p}") and isinstance(away, EnumVal)
    ctx.ob("C15.R6", cmd.fn, "preset: below API 1.5 encoded as legacy_away = (preset == AWAY), otherwise preset + has_preset", ok and ok_la, f"{ {f'{k[0]}@{list(k[1])}': v for k, v in got.items()} }")
    for w in cmd.writes:
        if w.field in ("has_legacy_away", "legacy_away", "has_preset", "preset"):
            accounted.add(id(w))


def sp_cover(ctx: Ctx, cmd: Cmd, p: str, ws: list[Write], fields, accounted: set[int]) -> None:
    """cover_command: position / tilt / stop with the < 1.1 legacy command mapping (checked once, for `position`)."""
    if p != "position":
        for w in cmd.writes:
            if w.field in (p, f"has_{p}"):
                accounted.add(id(w))
        return
    new = "ver:>=:1.1"
    old = "ver:<:1.1"
    got = sorted((w.field, w.guards, norm(w.value)) for w in cmd.writes if w.field != "key")
    legacy_cmd = lambda name: f"LegacyCoverCommand.{name}"  # noqa: E731
    want = sorted(
        [
            ("has_position", (new, "present:position"), "True"),
            ("position", (new, "present:position"), "position"),
            ("has_tilt", (new, "present:tilt"), "True"),
            ("tilt", (new, "present:tilt"), "tilt"),
            ("stop", (new, "truthy:stop"), "stop"),
            ("legacy_command", (old, "truthy:stop"), legacy_cmd("STOP")),
            ("has_legacy_command", (old, "truthy:stop"), "True"),
            ("legacy_command", (old, "not(truthy:stop)", "eq:position:1.0"), legacy_cmd("OPEN")),
            ("has_legacy_command", (old, "not(truthy:stop)", "eq:position:1.0"), "True"),
            ("legacy_command", (old, "not(truthy:stop)", "not(eq:position:1.0)", "eq:position:0.0"), legacy_cmd("CLOSE")),
            ("has_legacy_command", (old, "not(truthy:stop)", "not(eq:position:1.0)", "eq:position:0.0"), "True"),
        ]
    )
    ctx.ob("C15.R6", cmd.fn, "cover: API >= 1.1 position/tilt/stop with flags; below: legacy STOP / OPEN (1.0) / CLOSE (0.0)", got == want, _diff(got, want))
    for w in cmd.writes:
        if w.field != "key":
            accounted.add(id(w))
    # the enum members are what the wire expects
    for name, num in (("OPEN", 0), ("CLOSE", 1), ("STOP", 2)):
        v = ctx.sym.eval(ast.parse(f"LegacyCoverCommand.{name}", mode="eval").body, "client")
        ctx.ob("C15.R6", cmd.fn, f"LegacyCoverCommand.{name} = {num}", isinstance(v, EnumVal) and v.value == num, f"{v!r}")


def _diff(got: list, want: list) -> str:
    missing = [w for w in want if w not in got]
    extra = [g for g in got if g not in want]
    return f"missing {missing[:3]} unexpected {extra[:3]}"


SPECIAL = {
    "light_command": {"rgb": sp_rgb},
    "climate_command": {"preset": sp_preset},
    "cover_command": {"position": sp_cover, "tilt": sp_cover, "stop": sp_cover},
}


# --------------------------------------------------------- execute_service
def execute_service(ctx: Ctx, fn: Func, cmd: Cmd, sc: Schema) -> None:
    arg_msg = sc.proto.messages["ExecuteServiceArgument"]
    arg_fields = {f.name: f for f in arg_msg.fields}
    sp = [p for p in fn.param_names() if p != "self"]
    kw = {w.field: norm(w.value) for w in cmd.writes if not w.guards}
    ctx.ob("C15.R1", fn, "execute_service: key is the service's key", kw.get("key") == f"{sp[0]}.key", f"{kw}")
    members = ctx.sym.enum_members(Ref("class", "model", "UserServiceArgType")) or {}
    scalar = {"BOOL": ("bool_", "bool"), "FLOAT": ("float_", "float"), "STRING": ("string_", "string")}
    array = {"BOOL_ARRAY": ("bool_array", "bool"), "INT_ARRAY": ("int_array", "sint32"), "FLOAT_ARRAY": ("float_array", "float"), "STRING_ARRAY": ("string_array", "string")}
    for mapname, want, rep in (("USER_SERVICE_MAP_SINGLE", scalar, False), ("USER_SERVICE_MAP_ARRAY", array, True)):
        tab = ctx.sym.resolve_name("client", mapname)
        if not isinstance(tab, dict):
            raise AnalysisError(f"client.{mapname} does not fold")
        got = {k.name if isinstance(k, EnumVal) else repr(k): v for k, v in tab.items()}
        ctx.ob("C15.R6", fn, f"{mapname}: argument kind -> wire field", got == {k: v[0] for k, v in want.items()}, f"{got}")
        for k, (f, typ) in want.items():
            wf = arg_fields.get(f)
            ctx.ob("C15.R6", fn, f"{f} is a {'repeated ' if rep else ''}{typ} field of ExecuteServiceArgument", wf is not None and wf.type == typ and (wf.label == "repeated") == rep, f"{wf}")
    # INT: version gate
    # the choice is a conditional expression or (canonical spelling) an if/else assigning the field name to one local
    class _Choice:
        def __init__(self, test, body, orelse):
            self.test, self.body, self.orelse = test, body, orelse

    ifs = [_Choice(n.test, n.body, n.orelse) for n in own_nodes(fn.node) if isinstance(n, ast.IfExp)]
    for n in own_nodes(fn.node):
        if isinstance(n, ast.If) and len(n.body) == 1 and len(n.orelse) == 1 and isinstance(n.body[0], ast.Assign) and isinstance(n.orelse[0], ast.Assign) and norm(n.body[0].targets[0]) == norm(n.orelse[0].targets[0]):
            ifs.append(_Choice(n.test, n.body[0].value, n.orelse[0].value))
    for n in own_nodes(fn.node):
        # ... or (consumer sunk into the branches) two setattr calls with the constant field names
        if isinstance(n, ast.If) and len(n.body) == 1 and len(n.orelse) == 1 and all(isinstance(x, ast.Expr) and isinstance(x.value, ast.Call) and norm(x.value.func) == "setattr" and len(x.value.args) == 3 for x in (n.body[0], n.orelse[0])):
            a, b = n.body[0].value, n.orelse[0].value
            if norm(a.args[0]) == norm(b.args[0]) and norm(a.args[2]) == norm(b.args[2]):
                ifs.append(_Choice(n.test, a.args[1], b.args[1]))
    okv = False
    detail = "no version-dependent choice of the integer field"
    for e in ifs:
        t = e.test
        if isinstance(t, ast.Compare) and isinstance(t.comparators[0], ast.Call) and norm(t.comparators[0].func) == "APIVersion":
            thr = tuple(a.value for a in t.comparators[0].args if isinstance(a, ast.Constant))
            op = type(t.ops[0]).__name__
            body, orelse = (e.body.value if isinstance(e.body, ast.Constant) else None), (e.orelse.value if isinstance(e.orelse, ast.Constant) else None)
            modern, legacy = (body, orelse) if op in ("GtE",) else (orelse, body) if op in ("Lt",) else (None, None)
            okv = thr == (1, 3) and modern == "int_" and legacy == "legacy_int"
            detail = f"threshold {thr} op {op}: modern={modern} legacy={legacy}"
    ctx.ob("C15.R6", fn, "INT argument: int_ from API 1.3, legacy_int below", okv, detail)
    for f, typ in (("int_", "sint32"), ("legacy_int", "int32")):
        wf = arg_fields.get(f)
        ctx.ob("C15.R6", fn, f"{f} is a {typ} field of ExecuteServiceArgument", wf is not None and wf.type == typ, f"{wf}")
    # every described argument is encoded, in order, from the caller's data under its name
    loops = [n for n in own_nodes(fn.node) if isinstance(n, ast.For)]
    okl = len(loops) == 1 and norm(loops[0].iter) == f"{sp[0]}.args"
    ctx.ob("C15.R2", fn, "one ExecuteServiceArgument per declared argument, in order", okl, f"{[norm(l.iter) for l in loops]}")
    if okl:
        lv = norm(loops[0].target)
        vals = [n for n in ast.walk(loops[0]) if isinstance(n, ast.Assign) and isinstance(n.value, ast.Subscript) and norm(n.value.value) == sp[1]]
        ctx.ob("C15.R2", fn, "argument value looked up by the argument's name", len(vals) == 1 and norm(vals[0].value.slice) == f"{lv}.name", f"{[norm(v.value) for v in vals]}")
        apps = [c for c in ast.walk(loops[0]) if isinstance(c, ast.Call) and isinstance(c.func, ast.Attribute) and c.func.attr == "append"]
        skips = [n for n in ast.walk(loops[0]) if isinstance(n, (ast.Continue, ast.Break))]
        ctx.ob("C15.R2", fn, "every argument is appended (no skipping)", len(apps) == 1 and not skips and loops[0].body[-1] is not None and any(x is apps[0] for x in ast.walk(loops[0].body[-1])), "")
        # ... and carries the caller's value: on every path of an iteration the value is written into the argument (an
        # `extend(val)` of a repeated field or a `setattr(arg, <field>, val)`) before the argument is appended - a
        # type test on the value that skips the write would send an empty argument for some legitimate values
        if len(vals) == 1 and len(vals[0].targets) == 1 and isinstance(vals[0].targets[0], ast.Name) and len(apps) == 1:
            vv = vals[0].targets[0].id
            gx = cfg_of(ctx, fn)

            def wrote(n: Node) -> list[str]:
                out = []
                for c in node_calls(n):
                    if isinstance(c.func, ast.Attribute) and c.func.attr == "extend" and c.args and isinstance(c.args[0], ast.Name) and c.args[0].id == vv:
                        out.append("value-written")
                    if norm(c.func) == "setattr" and len(c.args) == 3 and isinstance(c.args[2], ast.Name) and c.args[2].id == vv:
                        out.append("value-written")
                if n.kind == "stmt" and isinstance(n.ast, ast.Assign) and isinstance(n.ast.value, ast.Name) and n.ast.value.id == vv and any(isinstance(t, ast.Attribute) for t in n.ast.targets):
                    out.append("value-written")
                if n.ast is vals[0]:
                    out.append("@reset")
                return out

            def stepv(n: Node, s: frozenset, label: str):
                if label == "exc":
                    return None
                ev = wrote(n)
                if "@reset" in ev:
                    s = frozenset()
                if "value-written" in ev:
                    s = s | {"w"}
                return s

            fv = disjunctive(gx, frozenset(), stepv)
            app_nodes = [n for n in gx.reachable() if any(c is apps[0] for c in node_calls(n))]
            unwritten = [n for n in app_nodes if any("w" not in st_ for st_ in fv.get(n, frozenset()))]
            ctx.ob("C15.R2", fn, "the caller's value is written into every argument before it is appended", bool(app_nodes) and not unwritten, "an argument can be appended without its value (a path skips the write)")
    ext = [c for c in own_nodes(fn.node) if isinstance(c, ast.Call) and isinstance(c.func, ast.Attribute) and c.func.attr == "extend" and norm(c.func.value) == f"{cmd.var}.args"]
    ctx.ob("C15.R2", fn, "the encoded arguments are attached to the request", len(ext) == 1, "")
    one_send(ctx, fn, cmd)
