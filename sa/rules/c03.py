"""C03 - Noise sessions interoperate with any conformant responder, for any chunking."""

from __future__ import annotations

import ast
from typing import Any

from ..astutil import attr_writes, call_arg
from ..cfg import Node, cfg_of, node_calls, walk_own
from ..closed import find_roles, resolver
from ..flow import may_occurred_before, occurred_before
from ..guard import fmt_table, truth_table, walk
from ..report import Ctx
from ..src import AnalysisError, Func, norm, own_nodes
from ..sym import Unknown
from . import c01
from .c02 import byte_role, bytes_tuple, inline

EXPLANATION = (
    "Static typestate rules on APINoiseFrameHelper. R1: the state automaton is extracted from the code (dispatch arms of the "
    "receive loop, every write of the state attribute with its constant) and compared with the specified one: HELLO -hello "
    "handler-> HANDSHAKE -handshake handler, only after read_message returned-> READY; CLOSED only in close(); no other "
    "writer. R2: delivery is reachable only through the READY arm; readiness is signalled only on the HANDSHAKE->READY path "
    "after both ciphers exist and read_message returned; the connection marks the handshake complete only after the "
    "readiness wait completed normally. R3: per-iteration pairing of the receive loop (C01.R1's analysis with the four "
    "handlers as delivery) and sentinel discipline of both reads. R4: the hello handler's guards are extracted as a truth "
    "table over {empty, protocol byte wrong, name present, expected set, names differ}: bad-name iff present, expected and "
    "different (carrying the received name); HANDSHAKE iff none of the failures. R5: protocol constants (pattern name, "
    "initiator, PSK from the validated key, prologue, hello bytes, handshake frame layout) and setup order. Decides the "
    "protocol state machine as written; that the handshake succeeds against a conformant responder (cryptography) is not decided."
)
ASSUMPTIONS = ["the noiseprotocol library implements Noise_NNpsk0_25519_ChaChaPoly_SHA256", "M1 (callbacks run to completion)"]

SPEC_PATTERN = b"Noise_NNpsk0_25519_ChaChaPoly_SHA256"
SPEC_PROLOGUE = b"NoiseAPIInit\x00\x00"
SPEC_HELLO = b"\x01\x00\x00"


def state_consts(ctx: Ctx) -> dict[str, Any]:
    out = {}
    for name in ("HELLO", "HANDSHAKE", "READY", "CLOSED"):
        v = ctx.sym.resolve_name("_frame_helper.noise", f"NOISE_STATE_{name}")
        if v is Unknown:
            raise AnalysisError(f"NOISE_STATE_{name} does not fold")
        out[name] = v
    return out


def run(ctx: Ctx) -> None:
    res = resolver(ctx)
    noise = ctx.repo.cls("APINoiseFrameHelper")
    dr = noise.methods["data_received"]
    sc = state_consts(ctx)
    inv = {v: k for k, v in sc.items()}
    ctx.ob("C03.R1", "_frame_helper.noise:states", "four distinct state constants", len(set(sc.values())) == 4, f"{sc}")

    # ---- dispatch arms
    g = cfg_of(ctx, dr)
    arms: dict[str, list[Func]] = {}
    default_arm: list[Func] = []
    conds = [n for n in g.reachable() if n.kind == "cond" and isinstance(n.ast, ast.Compare) and norm(n.ast.left) == "self._state" and isinstance(n.ast.ops[0], ast.Eq)]
    for cn in conds:
        st = inv.get(ctx.sym.eval(cn.ast.comparators[0], dr.module.name))
        tgt = [s for l, s in cn.succ if l == "true"]
        if st is None or not tgt:
            continue
        fs = [f for c in node_calls(tgt[0]) for f in res.callees(dr, c).funcs if f.cls is not None and f.cls.name == noise.name]
        arms[st] = fs
    if conds:
        last = conds[-1]
        for l, s in last.succ:
            if l == "false":
                default_arm = [f for c in node_calls(s) for f in res.callees(dr, c).funcs if f.cls is not None]
    ctx.count("C03.R1", len(arms) + (1 if default_arm else 0), 4, "dispatch arms")
    ctx.analysed["dispatch"] = {k: [f.qualname for f in v] for k, v in arms.items()} | {"<else>": [f.qualname for f in default_arm]}
    ok_arms = all(len(arms.get(s, [])) == 1 for s in ("READY", "HELLO", "HANDSHAKE")) and len(default_arm) == 1
    ctx.ob("C03.R1", dr, "one handler per state (READY, HELLO, HANDSHAKE, else)", ok_arms, f"{ctx.analysed['dispatch']}")
    if not ok_arms:
        return
    h_ready, h_hello, h_hs, h_closed = arms["READY"][0], arms["HELLO"][0], arms["HANDSHAKE"][0], default_arm[0]
    ctx.ob("C03.R1", dr, "handlers are pairwise distinct", len({h_ready.key, h_hello.key, h_hs.key, h_closed.key}) == 4, "")

    # ---- transitions = every write of _state
    writes = []
    for fn in ctx.repo.all_funcs():
        for st_, tgt, val in attr_writes(fn, "_state"):
            if fn.cls is not None and fn.cls.name == noise.name or norm(tgt.value) != "self":
                writes.append((fn, st_, inv.get(ctx.sym.eval(val, fn.module.name) if val is not None else None, f"?{norm(val)}")))
    got = sorted({(fn.qualname, s) for fn, _, s in writes})  # several write sites of one transition in one handler are one transition (when it fires: R4 truth tables)
    want = sorted([("APINoiseFrameHelper.__init__", "HELLO"), (h_hello.qualname, "HANDSHAKE"), (h_hs.qualname, "READY"), ("APINoiseFrameHelper.close", "CLOSED")])
    ctx.ob("C03.R1", "_frame_helper.noise:APINoiseFrameHelper", "extracted transitions equal the specified automaton", got == want, f"extracted {got}; specified {want}")
    # READY only after read_message returned
    gh = cfg_of(ctx, h_hs)
    rm = [n for n in gh.reachable() if any(isinstance(c.func, ast.Attribute) and c.func.attr == "read_message" for c in node_calls(n))]
    ctx.ob("C03.R1", h_hs, "handshake handler feeds the responder message to the Noise state", len(rm) == 1, "")
    before = occurred_before(gh, lambda n: (["read"] if n in rm else []) + _attr_set_tokens(n))
    for fn, st_, s in writes:
        if fn is h_hs:
            nodes = [n for n in gh.reachable() if n.ast is st_]
            ctx.ob("C03.R1", h_hs, "READY only after read_message returned", all("read" in before.get(n, frozenset()) for n in nodes), "a failing handshake (exception from read_message) would leave the helper READY", node=st_)
    if rm:
        c = [c for c in node_calls(rm[0]) if isinstance(c.func, ast.Attribute) and c.func.attr == "read_message"][0]
        mp = [p for p in h_hs.param_names() if p != "self"][0]
        ctx.ob("C03.R1", h_hs, "read_message gets the frame without its status byte", [norm(a) for a in c.args] == [f"{mp}[1:]"], f"{[norm(a) for a in c.args]}")

    # ------------------------------------------------------------------ R2
    deliver_callers = []
    for fn in ctx.repo.all_funcs():
        if fn.cls is None or fn.cls.name != noise.name:
            continue
        for c in [x for x in own_nodes(fn.node) if isinstance(x, ast.Call)]:
            if any(f.name == "process_packet" for f in res.callees(fn, c).funcs):
                deliver_callers.append(fn)
    ctx.ob("C03.R2", "_frame_helper.noise:APINoiseFrameHelper", "only the READY handler delivers", [f.key for f in deliver_callers] == [h_ready.key], f"{[f.key for f in deliver_callers]}")
    callers_ready = [fn.key for fn in ctx.repo.all_funcs() for c in own_nodes(fn.node) if isinstance(c, ast.Call) and h_ready in res.callees(fn, c).funcs]
    ctx.ob("C03.R2", "_frame_helper.noise:APINoiseFrameHelper", "the READY handler is called only from the READY arm", callers_ready == [dr.key], f"{callers_ready}")
    # readiness
    sr = [(fn, c) for fn in ctx.repo.all_funcs() if fn.cls is not None and fn.cls.name == noise.name for c in own_nodes(fn.node) if isinstance(c, ast.Call) and isinstance(c.func, ast.Attribute) and c.func.attr == "set_result" and "ready_future" in norm(c.func.value)]
    ctx.ob("C03.R2", "_frame_helper.noise:APINoiseFrameHelper", "readiness signalled at exactly one site, in the handshake handler", len(sr) == 1 and sr[0][0] is h_hs, f"{[f.key for f, _ in sr]}")
    if len(sr) == 1 and sr[0][0] is h_hs:
        nodes = [n for n in gh.reachable() if n.ast is not None and any(x is sr[0][1] for x in walk_own(n.ast))]
        f = frozenset.intersection(*[before.get(n, frozenset()) for n in nodes]) if nodes else frozenset()
        ctx.ob("C03.R2", h_hs, "readiness only after read_message returned and both ciphers exist", {"read", "set:_encrypt_cipher", "set:_decrypt_cipher"} <= f, f"before set_result on every path: {sorted(f)}")
        # same synchronous block: the handler sets READY on every path that signals readiness
        st_nodes = [n for n in gh.reachable() if n.kind == "stmt" and isinstance(n.ast, ast.Assign) and any(norm(t) == "self._state" for t in n.ast.targets)]
        # exits that signalled readiness also set READY (status-byte error path does neither)
        from ..flow import disjunctive

        def step(n: Node, s: frozenset, label: str):
            if label == "exc":
                return None
            if n in nodes:
                s = s | {"ready-signalled"}
            if n in st_nodes:
                s = s | {"state-ready"}
            return s

        dj = disjunctive(gh, frozenset(), step)
        bad = [s for s in dj.get(gh.exit, frozenset()) if ("ready-signalled" in s) != ("state-ready" in s)]
        ctx.ob("C03.R2", h_hs, "readiness signalled iff the helper became READY", not bad, f"{[sorted(b) for b in bad]}")
    cif = ctx.repo.func("connection", "APIConnection._connect_init_frame_helper")
    gc = cfg_of(ctx, cif)
    roles = find_roles(ctx)
    aw = [n for n in gc.reachable() if n.kind == "stmt" and n.ast is not None and any(isinstance(x, ast.Await) and norm(x.value).endswith("ready_future") for x in walk_own(n.ast))]
    bf = occurred_before(gc, lambda n: ["ready-awaited"] if n in aw else [])
    hs = [n for n in gc.reachable() if any(roles.setter in res.callees(cif, c).funcs for c in node_calls(n))]
    ctx.ob("C03.R2", cif, "handshake-complete only after the readiness wait returned normally", bool(hs) and bool(aw) and all("ready-awaited" in bf.get(n, frozenset()) for n in hs), "messages could be sent before the Noise handshake completed")

    # ------------------------------------------------------------------ R3
    c01.r1(ctx, dr, "C03.R3", deliver_direct=False, deliver_funcs={h_ready.key, h_hello.key, h_hs.key, h_closed.key})
    # each arm passes the frame just read
    reads = [c for c in own_nodes(dr.node) if isinstance(c, ast.Call) and isinstance(c.func, ast.Attribute) and c.func.attr == "_read" and c.args and not isinstance(c.args[0], ast.Constant)]
    from ..astutil import bound_name

    frame_var = bound_name(dr.node, reads[0]) if reads else None
    for h in (h_ready, h_hello, h_hs, h_closed):
        cs = [c for c in own_nodes(dr.node) if isinstance(c, ast.Call) and h in res.callees(dr, c).funcs]
        ctx.ob("C03.R3", dr, f"{h.name} receives the complete frame just read", len(cs) == 1 and [norm(a) for a in cs[0].args] == [frame_var], f"{[norm(a) for c in cs for a in c.args]}")

    # ------------------------------------------------------------------ R4
    ghl = cfg_of(ctx, h_hello)
    hp = [p for p in h_hello.param_names() if p != "self"][0]
    classify, name_var, idx_var = hello_classifier(ctx, h_hello)

    variables = ["nonempty", "proto_ok", "name_present", "expected_set", "names_equal"]
    bad_name_nodes = []
    hs_nodes = [n for n in ghl.reachable() if n.kind == "stmt" and isinstance(n.ast, ast.Assign) and any(norm(t) == "self._state" for t in n.ast.targets)]
    err_nodes = []
    for n in ghl.reachable():
        for c in node_calls(n):
            if any(f.name == "_handle_error_and_close" for f in res.callees(h_hello, c).funcs):
                err_nodes.append(n)
                if c.args and isinstance(c.args[0], ast.Call) and norm(c.args[0].func) == "BadNameAPIError":
                    bad_name_nodes.append((n, c.args[0]))
    ctx.ob("C03.R4", h_hello, "one bad-name site", len(bad_name_nodes) == 1, f"{len(bad_name_nodes)}")
    if len(bad_name_nodes) == 1:
        tab = truth_table(ghl, variables, classify, [bad_name_nodes[0][0]])
        ok = True
        for vals, (may, must) in tab.items():
            d = dict(zip(variables, vals))
            spec = d["nonempty"] and d["proto_ok"] and d["name_present"] and d["expected_set"] and not d["names_equal"]
            ok = ok and (may == spec) and (must == spec)
        ctx.ob("C03.R4", h_hello, "name rejected iff announced, an expected name is configured and they differ", ok, fmt_table(variables, tab)[:600])
        be = bad_name_nodes[0][1]
        ctx.ob("C03.R4", h_hello, "bad-name error carries the received name", call_arg(be, 1, "received_name") is not None and norm(call_arg(be, 1, "received_name")) == name_var, f"{[norm(a)[:30] for a in be.args] + [k.arg for k in be.keywords]}")
    tab = truth_table(ghl, variables, classify, hs_nodes)
    ok = bool(hs_nodes)
    for vals, (may, must) in tab.items():
        d = dict(zip(variables, vals))
        spec = d["nonempty"] and d["proto_ok"] and not (d["name_present"] and d["expected_set"] and not d["names_equal"])
        ok = ok and (may == spec) and (must == spec)
    ctx.ob("C03.R4", h_hello, "HANDSHAKE iff hello non-empty, protocol 0x01 and the name is acceptable", ok, fmt_table(variables, tab)[:600])
    # the name is what lies between the protocol byte and the first zero byte
    if name_var and idx_var:
        na = [n for n in own_nodes(h_hello.node) if isinstance(n, ast.Assign) and norm(n.targets[0]) == name_var][0]
        ctx.ob("C03.R4", h_hello, "device name = bytes 1..first NUL of the hello", norm(na.value) == f"{hp}[1:{idx_var}].decode()", norm(na.value))
        ia = [n for n in own_nodes(h_hello.node) if isinstance(n, ast.Assign) and norm(n.targets[0]) == idx_var][0]
        ctx.ob("C03.R4", h_hello, "... NUL searched after the protocol byte", norm(ia.value) in (f"{hp}.find(b'\\x00', 1)",), norm(ia.value))

    # ------------------------------------------------------------------ R5
    sp = noise.methods["_setup_proto"]
    gs = cfg_of(ctx, sp)
    fn_calls = [c for c in own_nodes(sp.node) if isinstance(c, ast.Call) and isinstance(c.func, ast.Attribute) and c.func.attr == "from_name"]
    pat_e = call_arg(fn_calls[0], 0, "name") if len(fn_calls) == 1 else None
    pat_v = ctx.sym.eval(pat_e, sp.module.name) if pat_e is not None else None
    ctx.ob("C03.R5", sp, "Noise pattern name", pat_v == SPEC_PATTERN, f"{norm(pat_e) if pat_e is not None else None} = {pat_v!r}")

    def ev(n: Node):
        out = []
        for c in node_calls(n):
            if isinstance(c.func, ast.Attribute) and c.func.attr in ("set_as_initiator", "set_psks", "set_prologue", "start_handshake"):
                out.append(c.func.attr)
        return out

    b = occurred_before(gs, ev)
    sh = [n for n in gs.reachable() if "start_handshake" in ev(n)]
    ctx.ob("C03.R5", sp, "initiator role, PSK and prologue are set before start_handshake", bool(sh) and all({"set_as_initiator", "set_psks", "set_prologue"} <= b.get(n, frozenset()) for n in sh), f"{[sorted(b.get(n, frozenset())) for n in sh]}")
    ctx.ob("C03.R5", sp, "start_handshake on every path", "start_handshake" in b.get(gs.exit, frozenset()), "")
    pro = [c for c in own_nodes(sp.node) if isinstance(c, ast.Call) and isinstance(c.func, ast.Attribute) and c.func.attr == "set_prologue"]
    pro_v = ctx.sym.eval(pro[0].args[0], sp.module.name) if len(pro) == 1 and pro[0].args else None
    ctx.ob("C03.R5", sp, "prologue", pro_v == SPEC_PROLOGUE, f"{norm(pro[0].args[0]) if pro and pro[0].args else None} = {pro_v!r}")
    psk = [c for c in own_nodes(sp.node) if isinstance(c, ast.Call) and isinstance(c.func, ast.Attribute) and c.func.attr == "set_psks"]
    dn = noise.methods["_decode_noise_psk"]
    parg = psk[0].args[0] if len(psk) == 1 and psk[0].args else None
    if isinstance(parg, ast.Name):
        pdefs = [n.value for n in own_nodes(sp.node) if isinstance(n, (ast.Assign, ast.AnnAssign)) and n.value is not None and any(isinstance(t, ast.Name) and t.id == parg.id for t in (n.targets if isinstance(n, ast.Assign) else [n.target]))]
        ok_psk = bool(pdefs) and all(isinstance(d, ast.Call) and dn in res.callees(sp, d).funcs for d in pdefs)
    else:
        ok_psk = isinstance(parg, ast.Call) and dn in res.callees(sp, parg).funcs
    ctx.ob("C03.R5", sp, "PSK is the validated, decoded key", ok_psk, f"{norm(parg) if parg is not None else None}")
    stored = [val for st_, tgt, val in attr_writes(sp, "_proto")]
    ctx.ob("C03.R5", sp, "the configured Noise state is the one used later", len(stored) == 1 and fn_calls and norm(stored[0]) in [norm(t) for n in own_nodes(sp.node) if isinstance(n, ast.Assign) and n.value is fn_calls[0] for t in n.targets], "")
    hello = ctx.sym.resolve_name("_frame_helper.noise", "NOISE_HELLO")
    ctx.ob("C03.R5", "_frame_helper.noise:NOISE_HELLO", "client hello bytes", hello == SPEC_HELLO, f"{hello!r}")
    shh = noise.methods["_send_hello_handshake"]
    wb = [c for c in own_nodes(shh.node) if isinstance(c, ast.Call) and isinstance(c.func, ast.Attribute) and c.func.attr == "_write_bytes"]
    okl = False
    detail = ""
    if len(wb) == 1 and wb[0].args:
        j = wb[0].args[0]
        parts = None
        if isinstance(j, ast.Call) and isinstance(j.func, ast.Attribute) and j.func.attr == "join" and isinstance(j.func.value, ast.Constant) and j.func.value.value == b"" and isinstance(j.args[0], (ast.Tuple, ast.List)):
            parts = j.args[0].elts
        elif isinstance(j, ast.BinOp) and isinstance(j.op, ast.Add):
            # a + b + c + d is the same concatenation
            parts = []
            cur = j
            while isinstance(cur, ast.BinOp) and isinstance(cur.op, ast.Add):
                parts.insert(0, cur.right)
                cur = cur.left
            parts.insert(0, cur)
        if parts is not None:
            hv = None
            for n in own_nodes(shh.node):
                if isinstance(n, ast.Assign) and isinstance(n.value, ast.Call) and isinstance(n.value.func, ast.Attribute) and n.value.func.attr == "write_message":
                    hv = norm(n.targets[0])
            if len(parts) == 4 and hv:
                p0 = ctx.sym.eval(parts[0], shh.module.name)
                hdr = bytes_tuple(inline(shh, parts[1]))
                roles_ = [byte_role(x) for x in hdr] if hdr else []
                # keep the handshake variable symbolic
                roles_txt = [(a, b.replace(f"self._proto.write_message()", hv)) for a, b in roles_]
                okl = p0 == SPEC_HELLO and roles_txt == [("const", "1"), ("hi", f"len({hv}) + 1"), ("lo", f"len({hv}) + 1")] and ctx.sym.eval(parts[2], shh.module.name) == b"\x00" and norm(parts[3]) == hv
                detail = f"{p0!r} {roles_txt} {norm(parts[2])} {norm(parts[3])}"
    ctx.ob("C03.R5", shh, "first write = hello bytes, 0x01, be16(len+1), 0x00, handshake message", okl, detail)
    cm = noise.methods["connection_made"]
    gm = cfg_of(ctx, cm)
    bm = occurred_before(gm, lambda n: (["super"] if any(isinstance(c.func, ast.Attribute) and c.func.attr == "connection_made" for c in node_calls(n)) else []) + (["hello-sent"] if any(shh in res.callees(cm, c).funcs for c in node_calls(n)) else []))
    hn = [n for n in gm.reachable() if any(shh in res.callees(cm, c).funcs for c in node_calls(n))]
    ctx.ob("C03.R5", cm, "hello is sent once the transport is installed", bool(hn) and all("super" in bm.get(n, frozenset()) for n in hn), "")


def _attr_set_tokens(n: Node) -> list[str]:
    out = []
    if n.kind == "stmt" and isinstance(n.ast, ast.Assign):
        for t in n.ast.targets:
            if isinstance(t, ast.Attribute) and norm(t.value) == "self" and not (isinstance(n.ast.value, ast.Constant) and n.ast.value.value is None):
                out.append(f"set:{t.attr}")
    return out


def hello_classifier(ctx: Ctx, h_hello: Func):
    """Atoms of the Noise hello handler (shared with C04): nonempty, proto_ok, name_present, expected_set, names_equal."""
    hp = [p for p in h_hello.param_names() if p != "self"][0]
    name_var = idx_var = None
    for n in own_nodes(h_hello.node):
        if isinstance(n, ast.Assign) and isinstance(n.value, ast.Call) and isinstance(n.value.func, ast.Attribute) and n.value.func.attr == "find":
            idx_var = norm(n.targets[0])
        if isinstance(n, ast.Assign) and isinstance(n.value, ast.Call) and isinstance(n.value.func, ast.Attribute) and n.value.func.attr == "decode":
            name_var = norm(n.targets[0])
    name_full = norm(inline(h_hello, ast.Name(id=name_var, ctx=ast.Load()))) if name_var else None
    idx_full = norm(inline(h_hello, ast.Name(id=idx_var, ctx=ast.Load()))) if idx_var else None

    def classify(n: Node):
        t = n.ast
        if t is None:
            return None
        if norm(t) == hp:
            return ("nonempty", True)
        if isinstance(t, ast.Compare) and len(t.ops) == 1:
            l, r = norm(inline(h_hello, t.left)), norm(inline(h_hello, t.comparators[0]))
            op = t.ops[0]
            if l == f"len({hp})" and isinstance(t.comparators[0], ast.Constant) and t.comparators[0].value == 0 and isinstance(op, (ast.Eq, ast.NotEq, ast.Gt)):
                return ("nonempty", not isinstance(op, ast.Eq))
            if not isinstance(op, (ast.Eq, ast.NotEq, ast.Is, ast.IsNot)):
                return None
            eq = isinstance(op, (ast.Eq, ast.Is))
            if l == f"{hp}[0]" and isinstance(t.comparators[0], ast.Constant):
                if t.comparators[0].value == 1:
                    return ("proto_ok", eq)
            if idx_full and l == idx_full and r == "-1":
                return ("name_present", not eq)
            if {l, r} == {"self._expected_name", "None"}:
                return ("expected_set", not eq)
            if name_full and {l, r} == {"self._expected_name", name_full}:
                return ("names_equal", eq)
        return None

    return classify, name_var, idx_var

