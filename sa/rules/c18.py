"""C18 - reconnect manager: one attempt at a time, specified back-off, clean stop."""

from __future__ import annotations

import ast
import copy
import itertools
from typing import Any, Callable

from ..astutil import attr_writes, is_none
from ..cfg import CFG, Node, cfg_of, must_forward, node_calls, walk_own
from ..closed import resolver
from ..effects import effects
from ..flow import disjunctive, fmt_path, occurred_before, paths_avoiding
from ..guard import fmt_table, truth_table, walk
from ..report import Ctx
from ..src import AnalysisError, Func, norm, own_nodes, walk_no_nested
from ..sym import EnumVal, Ref, Unknown

EXPLANATION = (
    "Static rules on reconnect_logic.py (roles located structurally: the lock is the attribute bound to asyncio.Lock(), the "
    "attempt function is the one calling APIClient.start_connection, the runner is its only caller, ...). "
    "R1 attempts: the client's connect phases are called only from the attempt function; it has one call site, lexically under "
    "the manager lock, reached iff state is DISCONNECTED and not stopped (truth table) with no suspension since that test; "
    "the one-shot starter creates the attempt task iff none is running or the running one is still CONNECTING (truth table), in "
    "which case it cancels it and resets the state first; the state walks CONNECTING -> HANDSHAKING -> READY in phase order. "
    "R2 lock context: the state, the stop flag and the record-accept flag have the specified writers only; every call of the "
    "locked setter is under the lock (lexically or in a function all of whose callers are); the lock-free setter is used only "
    "by the wrapper and by the starter with DISCONNECTED after cancelling. R3 back-off: the delay expression of the runner, with "
    "locals inlined, is evaluated by the checker's own evaluator for every failure count 1..200 and must equal "
    "min(round(1.8^n), 60); failure handler: +1 per ordinary failure, auth/encryption classes (exactly three) jump to a count "
    "whose delay is 60, success and start() reset to 0; expected disconnect -> 5.0 s, unexpected -> 0; a zero delay starts at "
    "once, a positive one replaces the single timer at now + delay; mDNS trigger delay 0. R4 stop: under the lock stop() sets "
    "the flag, cancels timer and task, removes the listener and sets DISCONNECTED without suspending, then closes the zeroconf "
    "manager; every site that starts an attempt, schedules one or starts listening is dominated by a *valid* not-stopped fact "
    "(MUST dataflow: established under the lock and lock-stable, or outside the lock with no suspension/unknown call since); "
    "the mDNS filter acts iff accepting, not stopped and (PTR+alias or A+name) match, triggers at most once and then stops "
    "accepting; listener add/remove paired through the listening flag. R5 callbacks: on_connect only in the attempt function "
    "after both phases returned and READY was set, under the lock; on_disconnect only in the stop hook handed to "
    "start_connection, under the lock after DISCONNECTED; on_connect_error on every failed attempt with the caught error. "
    "Decides these structural clauses; retry instants in virtual time and alternation over all histories are not decided."
    ' Also: listen / unlisten take the zeroconf instance from the manager at the call; the failure handler has no raise / early return of its own.'
)
ASSUMPTIONS = [
    "asyncio.Lock is fair and mutual-exclusive; loop.call_at fires at its deadline and a cancelled TimerHandle never runs",
    "C07 (the client's stop hook fires once per established session) and C19 (the client refuses a second connection)",
    "M1-M5 of DESIGN.md section 2",
]

CLS = "ReconnectLogic"
MOD = "reconnect_logic"


# --------------------------------------------------------------------------- helpers
def _self_attr(e: ast.AST, name: str | None = None) -> bool:
    return isinstance(e, ast.Attribute) and isinstance(e.value, ast.Name) and e.value.id == "self" and (name is None or e.attr == name)


class RL:
    """Roles of the reconnect manager, located structurally."""

    def __init__(self, ctx: Ctx) -> None:
        self.ctx = ctx
        self.res = resolver(ctx)
        self.eff = effects(ctx)
        repo = ctx.repo
        self.cls = repo.cls(CLS)
        self.funcs = [f for f in repo.funcs_in(MOD) if f.cls is self.cls]
        self.methods = self.cls.methods
        init = self.methods.get("__init__")
        ctx.require(init is not None, "ReconnectLogic.__init__ missing")
        self.init = init
        locks = [tgt.attr for st, tgt, val in attr_writes(init) if isinstance(val, ast.Call) and norm(val.func).split(".")[-1] == "Lock" and _self_attr(tgt)]
        ctx.require(len(locks) == 1, f"manager lock (attribute bound to asyncio.Lock()) not unique: {locks}")
        self.lock = locks[0]
        client = repo.cls("APIClient")
        self.client = client
        # attempt function: calls APIClient.start_connection
        att = []
        for f in self.funcs:
            for c in self.calls(f):
                if any(x.cls is client and x.name == "start_connection" for x in self.res.callees(f, c).funcs):
                    att.append(f)
        att = list(dict.fromkeys(att))
        if len(att) > 1:
            # the attempt function proper runs both phases; any other caller is reported by R1
            both = [f for f in att if any(x.cls is client and x.name == "finish_connection" for c in self.calls(f) for x in self.res.callees(f, c).funcs)]
            if len(both) == 1:
                att = both
        ctx.require(len(att) == 1, f"attempt function (caller of APIClient.start_connection) not unique: {[a.key for a in att]}")
        self.attempt = att[0]
        sites = self.call_sites(self.attempt)
        ctx.require(len(sites) >= 1, "the attempt function has no call site")
        self.runner = sites[0][0]
        # state attribute / setters
        self.state_enum = "ReconnectLogicState"
        writers = [(f, st, val) for f in self.funcs for st, tgt, val in attr_writes(f, "_connection_state") if _self_attr(tgt)]
        non_init = [w for w in writers if w[0] is not init]
        if len({w[0].key for w in non_init}) > 1:
            # the setter proper stores its own parameter; other writers are reported by R2
            proper = [w for w in non_init if isinstance(w[2], ast.Name) and w[2].id in w[0].param_names()]
            if len({w[0].key for w in proper}) == 1:
                non_init = proper
        ctx.require(len({w[0].key for w in non_init}) == 1, f"lock-free state setter not unique: {[w[0].key for w in non_init]}")
        self.set_u = non_init[0][0]
        self.state_writers = writers
        lockeds = [f for f in self.funcs if f is not self.set_u and any(isinstance(n, ast.Assert) and f".{self.lock}.locked()" in norm(n.test) for n in own_nodes(f.node))]
        ctx.require(len(lockeds) == 1, f"locked state setter (asserting the lock is held) not unique: {[f.key for f in lockeds]}")
        self.set_l = lockeds[0]
        # timer: attribute bound to loop.call_at / call_later
        arms = [(f, st, tgt.attr, val) for f in self.funcs for st, tgt, val in attr_writes(f) if _self_attr(tgt) and isinstance(val, ast.Call) and norm(val.func).split(".")[-1] in ("call_at", "call_later")]
        ctx.require(len(arms) == 1, f"retry-timer arm site not unique: {[(a[0].key, a[2]) for a in arms]}")
        self.sched, self.arm_stmt, self.timer_attr, self.arm_call = arms[0]
        cv = self.res._callable_value(self.sched, self.arm_call.args[1]) if len(self.arm_call.args) >= 2 else None
        ctx.require(cv is not None and len(cv.funcs) == 1, "retry-timer callback not resolved")
        self.once = cv.funcs[0]
        # task attribute: bound to create_eager_task(...)/create_task(...) of the runner
        tasks = []
        for f in self.funcs:
            for st, tgt, val in attr_writes(f):
                if _self_attr(tgt) and isinstance(val, ast.Call) and norm(val.func).split(".")[-1] in ("create_eager_task", "create_task", "ensure_future") and val.args and isinstance(val.args[0], ast.Call) and self.runner in self.res.callees(f, val.args[0]).funcs:
                    tasks.append((f, st, tgt.attr, val))
        ctx.require(len(tasks) == 1, f"attempt-task creation site not unique: {[(t[0].key, t[2]) for t in tasks]}")
        self.starter, self.task_stmt, self.task_attr, self.task_call = tasks[0]
        ctx.require(self.starter is self.once, f"the timer callback {self.once.key} is not the function that creates the attempt task ({self.starter.key})")
        # failure handler: called from the attempt function's except handlers
        fh = []
        for h in [n for n in own_nodes(self.attempt.node) if isinstance(n, ast.ExceptHandler)]:
            for c in [x for st in h.body for x in walk_no_nested(st) if isinstance(x, ast.Call)]:
                for x in self.res.callees(self.attempt, c).funcs:
                    if x.cls is self.cls and x not in fh:
                        fh.append(x)
        fh = [f for f in fh if f is not self.set_l]
        ctx.require(len(fh) == 1, f"failure handler (called from the attempt function's except blocks) not unique: {[f.key for f in fh]}")
        self.fail = fh[0]
        for name in ("start", "stop", "async_update_records", "_on_disconnect"):
            ctx.require(name in self.methods, f"ReconnectLogic.{name} missing")
        self.start = self.methods["start"]
        self.stop = self.methods["stop"]
        self.update = self.methods["async_update_records"]
        # stop hook: the method handed to start_connection as on_stop
        hook = None
        for c in self.calls(self.attempt):
            if any(x.cls is client and x.name == "start_connection" for x in self.res.callees(self.attempt, c).funcs):
                for kw in c.keywords:
                    if kw.arg == "on_stop":
                        cv2 = self.res._callable_value(self.attempt, kw.value)
                        if cv2 is not None and len(cv2.funcs) == 1:
                            hook = cv2.funcs[0]
                if hook is None and c.args:
                    cv2 = self.res._callable_value(self.attempt, c.args[0])
                    if cv2 is not None and len(cv2.funcs) == 1:
                        hook = cv2.funcs[0]
        ctx.require(hook is not None, "stop hook handed to APIClient.start_connection not resolved")
        self.hook = hook
        self._held: dict[str, bool] | None = None

    # ------------------------------------------------------------ structure
    def calls(self, f: Func) -> list[ast.Call]:
        return [n for n in own_nodes(f.node) if isinstance(n, ast.Call)]

    def call_sites(self, target: Func) -> list[tuple[Func, ast.Call]]:
        out = []
        for f in self.funcs:
            for c in self.calls(f):
                if _self_attr(c.func) and target in self.res.callees(f, c).funcs:
                    out.append((f, c))
        return out

    def value_refs(self, target: Func) -> list[tuple[Func, ast.Attribute]]:
        """Loads of self.<target> that are not the callee of a call (callback registrations)."""
        out = []
        for f in self.funcs:
            callee_nodes = {id(c.func) for c in self.calls(f)}
            for n in own_nodes(f.node):
                if _self_attr(n, target.name) and id(n) not in callee_nodes and isinstance(n.ctx, ast.Load):
                    out.append((f, n))
        return out

    def lock_withs(self, f: Func) -> list[ast.AsyncWith]:
        return [n for n in own_nodes(f.node) if isinstance(n, ast.AsyncWith) and any(norm(i.context_expr) == f"self.{self.lock}" for i in n.items)]

    def lexically_locked(self, f: Func, node: ast.AST) -> bool:
        for w in self.lock_withs(f):
            for st in w.body:
                for x in ast.walk(st):
                    if x is node:
                        return True
        return False

    def held(self) -> dict[str, bool]:
        """Functions that only ever run with the lock held: >= 1 call site, never registered as a
        callback value, every call site lexically under the lock or in a held function."""
        if self._held is None:
            held = {f.key: False for f in self.funcs}
            for _ in range(len(self.funcs) + 1):
                changed = False
                for f in self.funcs:
                    if held[f.key] or f.parent is not None:
                        continue
                    sites = self.call_sites(f)
                    if not sites or self.value_refs(f) or not f.name.startswith("_"):
                        continue
                    if all(self.lexically_locked(g, c) or held[g.key] for g, c in sites):
                        held[f.key] = True
                        changed = True
                if not changed:
                    break
            self._held = held
        return self._held

    def under_lock(self, f: Func, node: ast.AST) -> bool:
        return self.lexically_locked(f, node) or self.held().get(f.key, False)

    def state_const(self, f: Func, e: ast.expr | None) -> str | None:
        v = self.ctx.sym.eval(e, f.module.name) if e is not None else None
        if isinstance(v, EnumVal) and v.cls == self.state_enum:
            return v.name
        return None

    def setter_sites(self) -> list[tuple[Func, ast.Call, Func, str | None]]:
        out = []
        for f in self.funcs:
            for c in self.calls(f):
                cs = self.res.callees(f, c).funcs
                for s in (self.set_l, self.set_u):
                    if s in cs and _self_attr(c.func):
                        out.append((f, c, s, self.state_const(f, c.args[0] if c.args else None)))
        return out

    # ------------------------------------------------------------- classify
    def cl_state(self, member: str, var: str) -> Callable[[Node], "tuple[str, bool] | None"]:
        def cl(n: Node):
            t = n.ast
            if isinstance(t, ast.Compare) and len(t.ops) == 1 and _self_attr(t.left, "_connection_state"):
                m = self.state_const(self.runner, t.comparators[0])
                if m == member and isinstance(t.ops[0], (ast.Eq, ast.Is)):
                    return (var, True)
                if m == member and isinstance(t.ops[0], (ast.NotEq, ast.IsNot)):
                    return (var, False)
            return None

        return cl

    def cl_stopped(self, n: Node):
        if _self_attr(n.ast, "_is_stopped"):
            return ("stopped", True)
        return None


def _nodes_with(g: CFG, node: ast.AST) -> list[Node]:
    return [n for n in g.reachable() if n.ast is not None and n.kind in ("stmt", "cond", "with-enter", "for-init") and any(x is node for x in walk_own(n.ast))]


def _combine(*cls: Callable[[Node], Any]) -> Callable[[Node], Any]:
    def cl(n: Node):
        for c in cls:
            r = c(n)
            if r is not None:
                return r
        return None

    return cl


def _inline_locals(fn: Func, e: ast.expr, depth: int = 0) -> ast.expr:
    """Replace loads of locals that are assigned exactly once (plain Assign) by their value."""

    class T(ast.NodeTransformer):
        def visit_Name(self, n: ast.Name):  # noqa: N802
            if isinstance(n.ctx, ast.Load) and n.id not in fn.param_names() and depth < 6:
                assigns = [a for a in own_nodes(fn.node) if isinstance(a, ast.Assign) and any(isinstance(t, ast.Name) and t.id == n.id for t in a.targets)]
                others = [a for a in own_nodes(fn.node) if isinstance(a, (ast.AugAssign, ast.AnnAssign, ast.NamedExpr, ast.For)) and any(isinstance(x, ast.Name) and x.id == n.id for x in ast.walk(a.target))]
                if len(assigns) == 1 and not others:
                    return _inline_locals(fn, assigns[0].value, depth + 1)
            return n

    import copy

    return T().visit(copy.deepcopy(e))


def _subst_attr(e: ast.expr, attr: str, name: str) -> ast.expr:
    class T(ast.NodeTransformer):
        def visit_Attribute(self, n: ast.Attribute):  # noqa: N802
            if _self_attr(n, attr):
                return ast.Name(id=name, ctx=ast.Load())
            return self.generic_visit(n)

    return T().visit(e)


class _Found(Exception):
    def __init__(self, value: Any) -> None:
        self.value = value


def _fold_delay(ctx: Ctx, stmts: list[ast.stmt], sched_call: ast.Call, n: int) -> Any:
    """Constant propagation over a statement list: locals get folded values (the failure count is n), an `if`
    whose test folds is followed into the taken branch only, anything else is skipped; returns the folded
    argument of the scheduler call."""
    env: dict[str, Any] = {"__n__": n}

    def ev(e: ast.expr) -> Any:
        e2 = _subst_attr(copy.deepcopy(e), "_tries", "__n__")
        if any(isinstance(x, ast.Attribute) and _self_attr(x) for x in ast.walk(e2)) or any(isinstance(x, ast.Await) for x in ast.walk(e2)):
            return Unknown
        try:
            return ctx.sym.eval(e2, MOD, dict(env))
        except Exception:
            return Unknown

    def run(body: list[ast.stmt]) -> None:
        for st in body:
            for x in ast.walk(st):
                if x is sched_call:
                    if isinstance(st, ast.Expr) or isinstance(st, (ast.Assign, ast.Return)):
                        raise _Found(ev(sched_call.args[0]))
            if isinstance(st, ast.Assign) and len(st.targets) == 1 and isinstance(st.targets[0], ast.Name):
                env[st.targets[0].id] = ev(st.value)
            elif isinstance(st, ast.AnnAssign) and isinstance(st.target, ast.Name) and st.value is not None:
                env[st.target.id] = ev(st.value)
            elif isinstance(st, ast.AugAssign) and isinstance(st.target, ast.Name):
                env[st.target.id] = Unknown
            elif isinstance(st, ast.If):
                t = ev(st.test)
                contains = any(x is sched_call for b in (st.body, st.orelse) for y in b for x in ast.walk(y))
                if t is Unknown or isinstance(t, (Ref,)) or not isinstance(t, (bool, int, float, str, type(None))):
                    if contains:
                        # the guard of the scheduler call itself (e.g. the attempt's outcome): look inside both ways
                        run(st.body)
                        run(st.orelse)
                    else:
                        for x in ast.walk(st):
                            if isinstance(x, ast.Name) and isinstance(x.ctx, ast.Store):
                                env[x.id] = Unknown
                else:
                    run(st.body if t else st.orelse)
            elif isinstance(st, (ast.With, ast.AsyncWith, ast.Try)):
                run(st.body)
            elif isinstance(st, ast.While) and isinstance(st.test, ast.Constant) and st.test.value is True:
                run([x for x in st.body if not isinstance(x, ast.Break)])
            elif isinstance(st, ast.Return):
                return

    try:
        run(stmts)
    except _Found as f:
        return f.value
    return Unknown


def spec_backoff(n: int) -> int:
    """The statement: after the n-th consecutive failed attempt retry after min(round(1.8^n), 60) s."""
    return min(round(1.8**n), 60)


# --------------------------------------------------------------------------- not-stopped fact
def not_stopped_facts(rl: RL, f: Func, entry: bool) -> dict[Node, frozenset]:
    """MUST fact 'the manager is known not to be stopped and that knowledge is still valid'."""
    g = cfg_of(rl.ctx, f)
    held = rl.held().get(f.key, False)
    lock_nodes = set()
    for w in rl.lock_withs(f):
        lock_nodes.add(w)

    def gk(n: Node, fact: frozenset, label: str) -> frozenset:
        a = n.ast
        if n.kind in ("with-enter", "with-exit") and a in lock_nodes:
            return frozenset()  # the fact does not survive acquiring / releasing the lock
        locked = held or (a is not None and rl.lexically_locked(f, a))
        if n.kind == "cond" and _self_attr(a, "_is_stopped"):
            if label == "false":
                return fact | {"ns"}
            if label == "true":
                return fact - {"ns"}
        if n.kind == "stmt" and isinstance(a, ast.Assign) and any(_self_attr(t, "_is_stopped") for t in a.targets):
            if label == "exc":
                return fact
            if isinstance(a.value, ast.Constant) and a.value.value is False:
                return (fact | {"ns"}) if locked else fact
            return fact - {"ns"}
        if not locked and "ns" in fact:
            if rl.eff.node_suspends(f, n):
                return fact - {"ns"}
            for c in node_calls(n):
                cs = rl.res.callees(f, c)
                if cs.kind in ("value", "unknown"):
                    return fact - {"ns"}
                if any(x in (rl.stop, rl.methods.get("stop_callback")) for x in cs.funcs):
                    return fact - {"ns"}
        return fact

    return must_forward(g, gk, frozenset({"ns"}) if entry else frozenset())


def run(ctx: Ctx) -> None:
    rl = RL(ctx)
    res, eff = rl.res, rl.eff
    ctx.analysed["roles"] = {
        "lock": rl.lock, "attempt": rl.attempt.key, "runner": rl.runner.key, "starter/timer-callback": rl.once.key,
        "scheduler": rl.sched.key, "failure-handler": rl.fail.key, "locked-setter": rl.set_l.key, "lock-free-setter": rl.set_u.key,
        "stop-hook": rl.hook.key, "timer-attr": rl.timer_attr, "task-attr": rl.task_attr,
        "lock-held-functions": sorted(k for k, v in rl.held().items() if v),
    }
    r1(ctx, rl)
    r2(ctx, rl)
    r3(ctx, rl)
    r4(ctx, rl)
    r5(ctx, rl)
    # the back-off after authentication / encryption errors is chosen by the class of the error that reaches the
    # manager: nothing on the way replaces a classified error by a plainer one (rule shared with C09.R2)
    from .c09 import classified_errors_not_degraded

    classified_errors_not_degraded(ctx, "C18.R3")


# =========================================================================== R1
def r1(ctx: Ctx, rl: RL) -> None:
    res = rl.res
    T, A = rl.attempt, rl.runner
    # (a) the client's connect phases are called only from the attempt function
    n_phase = 0
    for f in ctx.repo.funcs_in(MOD):
        for c in [n for n in own_nodes(f.node) if isinstance(n, ast.Call)]:
            hit = [x for x in res.callees(f, c).funcs if x.cls is rl.client and x.name in ("start_connection", "finish_connection", "connect")]
            if hit:
                n_phase += 1
                ctx.ob("C18.R1", f, c, f is T, f"connection attempt started outside the attempt function {T.qualname}: not serialised by the lock/guard", node=c)
    ctx.count("C18.R1", n_phase, 2, "calls of the client's connect phases")
    # (b) one call site, under the lock, reached iff DISCONNECTED and not stopped
    sites = rl.call_sites(T)
    ctx.ob("C18.R1", T, "the attempt function has exactly one call site and is never registered as a callback", len(sites) == 1 and not rl.value_refs(T), f"{[(f.qualname, norm(c)) for f, c in sites]} refs={[f.qualname for f, _ in rl.value_refs(T)]}")
    for f, c in sites:
        ctx.ob("C18.R1", f, c, rl.lexically_locked(f, c), "attempt started without holding the manager lock: two attempts / attempt during disconnect handling possible", node=c)
        g = cfg_of(ctx, f)
        nodes = _nodes_with(g, c)
        cl = _combine(rl.cl_state("DISCONNECTED", "disconnected"), rl.cl_stopped)
        tab = truth_table(g, ["disconnected", "stopped"], cl, nodes)
        ok = tab[(True, False)] == (True, True) and all(not tab[k][0] for k in tab if k != (True, False))
        ctx.ob("C18.R1", f, "attempt reached iff state is DISCONNECTED and not stopped", ok, fmt_table(["disconnected", "stopped"], tab), node=c)
        # the guards are evaluated inside the lock region, no suspension between them and the attempt
        conds = [n for n in g.reachable() if n.kind == "cond" and cl(n) is not None]
        ctx.ob("C18.R1", f, "state/stop guards of the attempt are evaluated while holding the lock", bool(conds) and all(rl.lexically_locked(f, n.ast) for n in conds), f"{[n.text(50) for n in conds]}")

        def gk(n: Node, fact: frozenset, label: str, f=f, cl=cl) -> frozenset:
            if n.kind == "cond" and cl(n) is not None and cl(n)[0] == "disconnected":
                return fact | {"checked"}
            if rl.eff.node_suspends(f, n) and not any(x is c for x in (walk_own(n.ast) if n.ast is not None else [])):
                return fact - {"checked"}
            return fact

        facts = must_forward(g, gk)
        ctx.ob("C18.R1", f, "no suspension point between the DISCONNECTED test and the attempt", bool(nodes) and all("checked" in facts.get(n, frozenset()) for n in nodes), "the state may have changed since it was tested", node=c)
    # (c) one-shot starter truth table
    S = rl.once
    g = cfg_of(ctx, S)
    task = f"self.{rl.task_attr}"

    def cl_task(n: Node):
        t = n.ast
        if isinstance(t, ast.Attribute) and norm(t) == task:
            return ("has_task", True)
        if isinstance(t, ast.Compare) and len(t.ops) == 1 and norm(t.left) == task and is_none(t.comparators[0]):
            return ("has_task", isinstance(t.ops[0], (ast.IsNot, ast.NotEq)))
        if isinstance(t, ast.Call) and norm(t) == f"{task}.done()":
            return ("done", True)
        return None

    cl = _combine(cl_task, rl.cl_state("CONNECTING", "connecting"))
    create_nodes = [n for n in g.reachable() if n.ast is rl.task_stmt]
    cancel_nodes = [n for n in g.reachable() if any(_cancels_task(rl, S, c) for c in node_calls(n))]
    reset_nodes = [n for n in g.reachable() if any(rl.set_u in res.callees(S, c).funcs or rl.set_l in res.callees(S, c).funcs for c in node_calls(n))]
    vars_ = ["has_task", "done", "connecting"]
    tc = truth_table(g, vars_, cl, create_nodes)
    tk = truth_table(g, vars_, cl, cancel_nodes)
    tr = truth_table(g, vars_, cl, reset_nodes)
    ok_c = ok_k = ok_r = True
    for vals in itertools.product([False, True], repeat=3):
        has, done, connecting = vals
        running = has and not done
        want_create = (not running) or connecting
        want_cancel = running and connecting
        ok_c &= tc[vals] == (want_create, want_create)
        ok_k &= tk[vals] == (want_cancel, want_cancel)
        ok_r &= tr[vals] == (want_cancel, want_cancel)
    ctx.ob("C18.R1", S, "attempt task created iff none is running or the running one is still CONNECTING", ok_c, fmt_table(vars_, tc))
    ctx.ob("C18.R1", S, "a running attempt is cancelled iff it is still CONNECTING (never while handshaking or connected)", ok_k and bool(cancel_nodes), fmt_table(vars_, tk))
    ctx.ob("C18.R1", S, "state reset after cancelling a CONNECTING attempt (else the new attempt sees CONNECTING and gives up)", ok_r and bool(reset_nodes), fmt_table(vars_, tr))
    for n in reset_nodes:
        for c in node_calls(n):
            if rl.set_u in res.callees(S, c).funcs or rl.set_l in res.callees(S, c).funcs:
                ctx.ob("C18.R1", S, c, rl.state_const(S, c.args[0] if c.args else None) == "DISCONNECTED", "reset must be to DISCONNECTED", node=c)
    # cancel and reset precede the creation
    asg = {"has_task": True, "done": False, "connecting": True}
    no_cancel = walk(g, asg, cl, blocked=set(cancel_nodes))
    no_reset = walk(g, asg, cl, blocked=set(reset_nodes))
    ctx.ob("C18.R1", S, "cancel and reset precede the creation of the new attempt task", bool(create_nodes) and not any(n in no_cancel or n in no_reset for n in create_nodes), "with a CONNECTING attempt running, the new task can be created on a path that skips the cancel or the reset")
    # creation: exactly one task per call, its coroutine is the runner; task attribute has no other non-None writer
    tw = [(f, st, val) for f in rl.funcs for st, tgt, val in attr_writes(f, rl.task_attr) if _self_attr(tgt)]
    for f, st, val in tw:
        ok = st is rl.task_stmt or is_none(val)
        ctx.ob("C18.R1", f, st, ok, "unexpected writer of the attempt-task attribute", node=st)
    ctx.count("C18.R1.task-writers", len(tw), 3, "writes of the attempt-task attribute")
    rs = rl.call_sites(rl.runner) + [(f, c) for f in rl.funcs for c in rl.calls(f) if rl.runner in res.callees(f, c).funcs and not _self_attr(c.func)]
    ctx.ob("C18.R1", rl.runner, "the runner coroutine is created only by the one-shot starter", len(rs) == 1 and rs[0][0] is S, f"{[(f.qualname) for f, _ in rs]}")
    # (d) state order inside the attempt function
    gT = cfg_of(ctx, T)

    def phase_of(n: Node) -> list[str]:
        out = []
        for c in node_calls(n):
            for x in res.callees(T, c).funcs:
                if x.cls is rl.client and x.name in ("start_connection", "finish_connection"):
                    out.append(x.name)
                if x in (rl.set_l, rl.set_u):
                    m = rl.state_const(T, c.args[0] if c.args else None)
                    out.append(f"state:{m}")
        return out

    evT = occurred_before(gT, phase_of)
    want = {"state:CONNECTING": set(), "start_connection": {"state:CONNECTING"}, "state:HANDSHAKING": {"start_connection"}, "finish_connection": {"state:HANDSHAKING"}, "state:READY": {"finish_connection"}}
    seen = set()
    for n in gT.reachable():
        for tok in phase_of(n):
            seen.add(tok)
            if tok in want:
                ctx.ob("C18.R1", T, f"{tok} only after {sorted(want[tok]) or 'entry'}", want[tok] <= evT.get(n, frozenset()), f"before it on every path: {sorted(evT.get(n, frozenset()))}", node=n.ast)
            elif tok.startswith("state:") and not n.in_handler:
                ctx.ob("C18.R1", T, f"unexpected state write {tok} on the success path of the attempt", False, "", node=n.ast)
    ctx.ob("C18.R1", T, "the attempt walks CONNECTING -> start -> HANDSHAKING -> finish -> READY", set(want) <= seen, f"seen {sorted(seen)}")
    # finish_connection(login=True): the manager always authenticates
    for c in rl.calls(T):
        if any(x.cls is rl.client and x.name == "finish_connection" for x in res.callees(T, c).funcs):
            kw = {k.arg: k.value for k in c.keywords}
            v = kw.get("login", c.args[0] if c.args else None)
            ctx.ob("C18.R1", T, c, isinstance(v, ast.Constant) and v.value is True, "sessions of the manager must log in", node=c)


def _cancels_task(rl: RL, f: Func, c: ast.Call, depth: int = 0) -> bool:
    if norm(c.func) == f"self.{rl.task_attr}.cancel":
        return True
    if depth < 3 and _self_attr(c.func):
        for x in rl.res.callees(f, c).funcs:
            if x.cls is rl.cls and any(_cancels_task(rl, x, c2, depth + 1) for c2 in rl.calls(x)):
                return True
    return False


def _cancels_timer(rl: RL, f: Func, c: ast.Call, depth: int = 0) -> bool:
    if norm(c.func) == f"self.{rl.timer_attr}.cancel":
        return True
    if depth < 3 and _self_attr(c.func):
        for x in rl.res.callees(f, c).funcs:
            if x.cls is rl.cls and any(_cancels_timer(rl, x, c2, depth + 1) for c2 in rl.calls(x)):
                return True
    return False


# =========================================================================== R2
def r2(ctx: Ctx, rl: RL) -> None:
    res = rl.res
    # state attribute: single writer besides __init__, whole-package sweep
    n = 0
    for f in ctx.repo.all_funcs():
        for st, tgt, val in attr_writes(f, "_connection_state"):
            n += 1
            ok = f is rl.init or f is rl.set_u
            ctx.ob("C18.R2", f, st, ok, "manager state written outside the setter", node=st)
    ctx.count("C18.R2.state-writers", n, 2, "writes of _connection_state")
    iw = [(st, val) for st, tgt, val in attr_writes(rl.init, "_connection_state")]
    for st, val in iw:
        ctx.ob("C18.R2", rl.init, st, rl.state_const(rl.init, val) == "DISCONNECTED", "the manager must start DISCONNECTED")
    # setter body: state := parameter; accept flag := state in {DISCONNECTED, CONNECTING}
    p = [a for a in rl.set_u.param_names() if a != "self"]
    for st, tgt, val in attr_writes(rl.set_u, "_connection_state"):
        ctx.ob("C18.R2", rl.set_u, st, len(p) == 1 and isinstance(val, ast.Name) and val.id == p[0], "setter must store its argument")
    acc = [(f, st, val) for f in ctx.repo.all_funcs() for st, tgt, val in attr_writes(f, "_accept_zeroconf_records")]
    ctx.count("C18.R2.accept-writers", len(acc), 3, "writes of the record-accept flag")
    for f, st, val in acc:
        if f is rl.init:
            ctx.ob("C18.R2", f, st, isinstance(val, ast.Constant) and val.value is True, "accept flag starts True (state starts DISCONNECTED)")
        elif f is rl.set_u:
            ok = False
            detail = norm(val)
            if isinstance(val, ast.Compare) and len(val.ops) == 1 and isinstance(val.ops[0], ast.In) and isinstance(val.left, ast.Name) and p and val.left.id == p[0]:
                members = ctx.sym.eval(val.comparators[0], MOD)
                if isinstance(members, (frozenset, set, tuple, list)):
                    names = {m.name for m in members if isinstance(m, EnumVal)}
                    ok = names == {"DISCONNECTED", "CONNECTING"} and len(names) == len(list(members))
                    detail = f"accepting in {sorted(names)}"
            ctx.ob("C18.R2", f, st, ok, f"mDNS records must be accepted exactly while DISCONNECTED or CONNECTING (never while handshaking or connected): {detail}")
        elif f is rl.update:
            ctx.ob("C18.R2", f, st, isinstance(val, ast.Constant) and val.value is False, "the mDNS filter may only clear the accept flag")
        else:
            ctx.ob("C18.R2", f, st, False, "unexpected writer of the record-accept flag")
    # stop flag writers: __init__ True, start False under lock, stop True under lock
    sw = [(f, st, val) for f in ctx.repo.all_funcs() for st, tgt, val in attr_writes(f, "_is_stopped")]
    ctx.count("C18.R2.stop-writers", len(sw), 3, "writes of the stop flag")
    for f, st, val in sw:
        c = val.value if isinstance(val, ast.Constant) and isinstance(val.value, bool) else None
        if f is rl.init:
            ctx.ob("C18.R2", f, st, c is True, "the manager starts stopped")
        elif f is rl.start:
            ctx.ob("C18.R2", f, st, c is False and rl.lexically_locked(f, st), "start() clears the stop flag while holding the lock")
        elif f is rl.stop:
            ctx.ob("C18.R2", f, st, c is True and rl.lexically_locked(f, st), "stop() sets the stop flag while holding the lock")
        else:
            ctx.ob("C18.R2", f, st, False, "unexpected writer of the stop flag (the not-stopped fact is only lock-stable if all writers hold the lock)")
    # setter call sites
    sites = rl.setter_sites()
    nl = 0
    for f, c, s, m in sites:
        if s is rl.set_l:
            nl += 1
            ctx.ob("C18.R2", f, c, rl.under_lock(f, c), "locked setter called without the lock (lexically, and not every caller of this function holds it)", node=c)
            ctx.ob("C18.R2", f, f"{norm(c)[:80]} has a constant state", m is not None, "", node=c)
        else:
            if f is rl.set_l:
                pl = [a for a in rl.set_l.param_names() if a != "self"]
                ctx.ob("C18.R2", f, c, len(c.args) == 1 and isinstance(c.args[0], ast.Name) and pl and c.args[0].id == pl[0], "wrapper must forward its argument", node=c)
            else:
                ctx.ob("C18.R2", f, c, f is rl.once and m == "DISCONNECTED", "lock-free setter may only be used by the starter with DISCONNECTED after cancelling a CONNECTING attempt", node=c)
    ctx.count("C18.R2.locked-setter-calls", nl, 6, "calls of the locked setter")
    # where DISCONNECTED may be set
    allowed = {rl.hook.key, rl.fail.key, rl.stop.key, rl.once.key}
    for f, c, s, m in sites:
        if m == "DISCONNECTED" and f is not rl.set_l:
            ctx.ob("C18.R2", f, f"DISCONNECTED set in {f.qualname}", f.key in allowed, "state may return to DISCONNECTED only in the stop hook, the failure handler, stop() and the starter", node=c)
    # the locked setter asserts the lock and forwards
    ctx.ob("C18.R2", rl.set_l, "locked setter forwards to the lock-free one", any(s is rl.set_u and f is rl.set_l for f, c, s, m in sites), "")


# =========================================================================== R3
def r3(ctx: Ctx, rl: RL) -> None:
    res = rl.res
    A, T, F = rl.runner, rl.attempt, rl.fail
    gA = cfg_of(ctx, A)
    sched_calls = [c for c in rl.calls(A) if rl.sched in res.callees(A, c).funcs]
    ctx.ob("C18.R3", A, "the runner schedules the retry at exactly one site", len(sched_calls) == 1, f"{[norm(c) for c in sched_calls]}")
    # retry scheduled iff the attempt returned False
    tsite = [c for f, c in rl.call_sites(T) if f is A]

    def cl_att(n: Node):
        t = n.ast
        if isinstance(t, ast.Await) and tsite and t.value is tsite[0]:
            return ("attempt_ok", True)
        if isinstance(t, ast.Name):
            assigns = [a for a in own_nodes(A.node) if isinstance(a, ast.Assign) and any(isinstance(x, ast.Name) and x.id == t.id for x in a.targets)]
            if len(assigns) == 1 and isinstance(assigns[0].value, ast.Await) and tsite and assigns[0].value.value is tsite[0]:
                return ("attempt_ok", True)
        return None

    for c in sched_calls:
        nodes = _nodes_with(gA, c)
        cl = _combine(cl_att, rl.cl_state("DISCONNECTED", "disconnected"), rl.cl_stopped)
        tab = truth_table(gA, ["attempt_ok", "disconnected", "stopped"], cl, nodes)
        ok = tab[(False, True, False)] == (True, True) and not tab[(True, True, False)][0]
        ctx.ob("C18.R3", A, "retry scheduled iff the attempt failed", ok, fmt_table(["attempt_ok", "disconnected", "stopped"], tab), node=c)
        ctx.ob("C18.R3", A, c, rl.lexically_locked(A, c), "retry must be scheduled while still holding the lock (stop() cancels under the lock)", node=c)
        # the back-off function: constant propagation through the statements of the lock region that lead to
        # the scheduler call, with the failure count as the only input (branches on folded conditions are followed)
        if c.args:
            stmts = A.node.body
            bad = []
            vals = {}
            for n in range(1, 201):
                v = _fold_delay(ctx, stmts, c, n)
                if v is Unknown or not isinstance(v, (int, float)) or isinstance(v, bool):
                    raise AnalysisError(f"back-off delay {norm(c.args[0])} cannot be folded for n={n} (got {v!r}): outside the evaluator's fragment")
                vals[n] = v
                if v != spec_backoff(n):
                    bad.append((n, v, spec_backoff(n)))
            e = c.args[0]
            ctx.ob("C18.R3", A, "back-off delay equals min(round(1.8^n), 60) for every n in 1..200", not bad, f"first deviations (n, code, spec): {bad[:4]}" if bad else f"n=1..8 -> {[vals[i] for i in range(1, 9)]}", node=c)
            ctx.analysed["backoff_table"] = {str(k): vals[k] for k in (1, 2, 3, 4, 5, 6, 7, 8, 10, 11, 100, 200)}
            # zero failures cannot reach this site with delay 0 semantics hidden: n=0 gives round(1)=1 (never 'immediately')
            # auth failures
            aw = [(st, val) for st, tgt, val in attr_writes(F, "_tries") if isinstance(st, ast.Assign)]
            for st, val in aw:
                k = ctx.sym.eval(val, MOD)
                ok = isinstance(k, int) and 1 <= k <= 200 and vals.get(k) == 60
                ctx.ob("C18.R3", F, st, ok, f"after an authentication/encryption error the next delay must be 60 s (count {k!r} -> {vals.get(k) if isinstance(k, int) else '?'})", node=st)
    # failure handler: auth -> constant, else += 1, exactly one of them on every path
    gF = cfg_of(ctx, F)
    auth = ctx.sym.eval(ast.parse("AUTH_EXCEPTIONS", mode="eval").body, MOD)
    names = sorted(r.name for r in auth if isinstance(r, Ref)) if isinstance(auth, (tuple, list, frozenset)) else None
    ctx.ob("C18.R3", f"{MOD}:AUTH_EXCEPTIONS", "auth/encryption error classes are exactly the three specified", names == ["InvalidAuthAPIError", "InvalidEncryptionKeyAPIError", "RequiresEncryptionAPIError"], f"{names}")
    errp = [a for a in F.param_names() if a != "self"]

    def cl_auth(n: Node):
        t = n.ast
        if isinstance(t, ast.Call) and norm(t.func) == "isinstance" and len(t.args) == 2 and errp and norm(t.args[0]) == errp[0]:
            v = ctx.sym.eval(t.args[1], MOD)
            if v == auth and auth is not Unknown:
                return ("auth", True)
        return None

    inc = [n for n in gF.reachable() if n.kind == "stmt" and isinstance(n.ast, ast.AugAssign) and _self_attr(n.ast.target, "_tries")]
    setc = [n for n in gF.reachable() if n.kind == "stmt" and isinstance(n.ast, ast.Assign) and any(_self_attr(t, "_tries") for t in n.ast.targets)]
    ti = truth_table(gF, ["auth"], cl_auth, inc)
    ts = truth_table(gF, ["auth"], cl_auth, setc)
    ctx.ob("C18.R3", F, "ordinary failure: the failure count is incremented on every path", ti[(False,)] == (True, True) and not ti[(True,)][0], fmt_table(["auth"], ti))
    # ... and the failure handler does not opt out for some class of error: it has no raise / early return of its own
    # (an attempt it declines to count is neither reported nor retried - the manager would never reconnect)
    outs = [n for n in own_nodes(F.node) if isinstance(n, (ast.Raise, ast.Return))]
    ctx.ob("C18.R3", F, "every failed attempt is counted: the failure handler has no raise or early return of its own", not outs, f"{[(n.lineno, norm(n)[:50]) for n in outs[:3]]}")
    ctx.ob("C18.R3", F, "auth/encryption failure: the count jumps to the maximum on every path", ts[(True,)] == (True, True) and not ts[(False,)][0], fmt_table(["auth"], ts))
    for n in inc:
        ok = isinstance(n.ast.op, ast.Add) and isinstance(n.ast.value, ast.Constant) and n.ast.value.value == 1
        ctx.ob("C18.R3", F, n.ast, ok, "each failed attempt counts once", node=n.ast)
    # at most one count update per failure (no loop / double increment)
    def step(n: Node, s: frozenset, label: str):
        if label == "exc" and not rl.eff.node_raises(F, n):
            return None
        if label != "exc" and (n in inc or n in setc):
            return frozenset({"upd2"}) if ("upd" in s or "upd2" in s) else frozenset({"upd"})
        return s

    st_exit = disjunctive(gF, frozenset(), step).get(gF.exit, frozenset())
    ctx.ob("C18.R3", F, "exactly one update of the failure count per failed attempt", bool(st_exit) and all(s == frozenset({"upd"}) for s in st_exit), f"{sorted(map(sorted, st_exit))}")
    # all writers of the count
    tw = [(f, st, val) for f in ctx.repo.all_funcs() for st, tgt, val in attr_writes(f, "_tries")]
    ctx.count("C18.R3.tries-writers", len(tw), 5, "writes of the failure count")
    for f, st, val in tw:
        if f is F:
            continue
        zero = isinstance(val, ast.Constant) and val.value == 0 and not isinstance(st, ast.AugAssign)
        ctx.ob("C18.R3", f, st, zero and f in (rl.init, T, rl.start), "outside the failure handler the count may only be reset to 0 (init, success, start())", node=st)
    # success resets the count: on the path where finish_connection returned, before on_connect
    gT = cfg_of(ctx, T)
    resets = [n for n in gT.reachable() if n.kind == "stmt" and isinstance(n.ast, ast.Assign) and any(_self_attr(t, "_tries") for t in n.ast.targets)]
    fin = lambda n: ["finished"] if any(x.cls is rl.client and x.name == "finish_connection" for c in node_calls(n) for x in res.callees(T, c).funcs) else []  # noqa: E731
    evT = occurred_before(gT, lambda n: fin(n) + (["reset"] if n in resets else []))
    ret_true = [n for n in gT.reachable() if isinstance(n.ast, ast.Return) and isinstance(n.ast.value, ast.Constant) and n.ast.value.value is True]
    ctx.ob("C18.R3", T, "success resets the failure count", bool(ret_true) and all({"finished", "reset"} <= evT.get(n, frozenset()) for n in ret_true), "")
    ctx.ob("C18.R3", T, "the count is reset only after the login phase returned", all("finished" in evT.get(n, frozenset()) for n in resets), "a half-open device would be retried without back-off")
    # start(): reset + immediate attempt
    gS = cfg_of(ctx, rl.start)
    sc = [c for c in rl.calls(rl.start) if rl.sched in res.callees(rl.start, c).funcs]
    ctx.ob("C18.R3", rl.start, "start() schedules an immediate attempt", len(sc) == 1 and _delay_value(ctx, rl.start, sc[0]) == 0, f"{[norm(c) for c in sc]}")
    for c in sc:
        cl = rl.cl_state("DISCONNECTED", "disconnected")
        tab = truth_table(gS, ["disconnected"], cl, _nodes_with(gS, c))
        ctx.ob("C18.R3", rl.start, "start() schedules iff the manager is DISCONNECTED", tab[(True,)] == (True, True) and not tab[(False,)][0], fmt_table(["disconnected"], tab), node=c)
        ctx.ob("C18.R3", rl.start, c, rl.lexically_locked(rl.start, c), "start() must hold the lock while scheduling", node=c)
    # stop hook: expected -> cool-down 5.0, unexpected -> 0
    H = rl.hook
    gH = cfg_of(ctx, H)
    hp = [a for a in H.param_names() if a != "self"]
    hc = [c for c in rl.calls(H) if rl.sched in res.callees(H, c).funcs]
    ctx.ob("C18.R3", H, "the stop hook schedules the reconnect at exactly one site", len(hc) == 1, f"{[norm(c) for c in hc]}")

    def cl_exp(n: Node):
        if isinstance(n.ast, ast.Name) and hp and n.ast.id == hp[0]:
            return ("expected", True)
        return None

    for c in hc:
        for expected, want in ((True, 5.0), (False, 0)):
            v = _delay_on_paths(ctx, rl, H, gH, c, {"expected": expected}, cl_exp)
            ctx.ob("C18.R3", H, f"{'expected' if expected else 'unexpected'} disconnect -> reconnect after {want} s", v == [want], f"delay values reaching the scheduler: {v}", node=c)
    # scheduler: zero -> at once; positive -> single timer at now + delay
    S = rl.sched
    gS2 = cfg_of(ctx, S)
    dp = [a for a in S.param_names() if a != "self"]
    ctx.require(len(dp) == 1, "scheduler must take exactly the delay")

    def cl_delay(n: Node):
        t = n.ast
        if isinstance(t, ast.Name) and t.id == dp[0]:
            return ("positive", True)
        if isinstance(t, ast.Compare) and len(t.ops) == 1 and isinstance(t.left, ast.Name) and t.left.id == dp[0] and isinstance(t.comparators[0], ast.Constant) and t.comparators[0].value == 0:
            op = t.ops[0]
            if isinstance(op, (ast.Gt, ast.NotEq)):
                return ("positive", True)
            if isinstance(op, (ast.Eq, ast.LtE)):
                return ("positive", False)
        return None

    direct = [n for n in gS2.reachable() if any(rl.once in res.callees(S, c).funcs for c in node_calls(n))]
    armn = [n for n in gS2.reachable() if n.ast is rl.arm_stmt]
    td = truth_table(gS2, ["positive"], cl_delay, direct)
    ta = truth_table(gS2, ["positive"], cl_delay, armn)
    ctx.ob("C18.R3", S, "zero delay starts the attempt at once (and only then)", td[(False,)] == (True, True) and not td[(True,)][0], fmt_table(["positive"], td))
    ctx.ob("C18.R3", S, "positive delay arms the retry timer (and only then)", ta[(True,)] == (True, True) and not ta[(False,)][0], fmt_table(["positive"], ta))
    # deadline = loop.time() + delay; callback = the starter
    a0 = rl.arm_call.args[0] if rl.arm_call.args else None
    fn_name = norm(rl.arm_call.func).split(".")[-1]
    if fn_name == "call_at":
        ok = isinstance(a0, ast.BinOp) and isinstance(a0.op, ast.Add) and {_kind(a0.left, dp[0]), _kind(a0.right, dp[0])} == {"now", "delay"}
    else:
        ok = isinstance(a0, ast.Name) and a0.id == dp[0]
    ctx.ob("C18.R3", S, f"retry deadline is now + delay: {norm(rl.arm_call)[:80]}", ok, "", node=rl.arm_call)
    # previous timer cancelled before a new one is armed (at most one timer)
    cancels = [n for n in gS2.reachable() if any(_cancels_timer(rl, S, c) for c in node_calls(n))]
    evS = occurred_before(gS2, lambda n: ["cancelled"] if n in cancels else [])
    ctx.ob("C18.R3", S, "a pending retry timer is cancelled before a new one is armed (at most one timer)", bool(armn) and all("cancelled" in evS.get(n, frozenset()) for n in armn), "")
    tw2 = [(f, st, val) for f in rl.funcs for st, tgt, val in attr_writes(f, rl.timer_attr) if _self_attr(tgt)]
    for f, st, val in tw2:
        ctx.ob("C18.R3", f, st, st is rl.arm_stmt or is_none(val), "unexpected writer of the retry-timer attribute", node=st)
    # mDNS trigger: immediate
    zc = rl.methods.get("_connect_from_zeroconf")
    trig_sites = []
    for f in rl.funcs:
        if f in (A, rl.start, H, S):
            continue
        for c in rl.calls(f):
            if rl.sched in res.callees(f, c).funcs:
                trig_sites.append((f, c))
    for f, c in trig_sites:
        ctx.ob("C18.R3", f, c, _delay_value(ctx, f, c) == 0, "other triggers (mDNS) reconnect immediately", node=c)
    ctx.count("C18.R3.scheduler-calls", len(sched_calls) + len(sc) + len(hc) + len(trig_sites), 4, "call sites of the scheduler")


def _kind(e: ast.expr, delay: str) -> str:
    if isinstance(e, ast.Name) and e.id == delay:
        return "delay"
    if isinstance(e, ast.Call) and isinstance(e.func, ast.Attribute) and e.func.attr == "time" and not e.args:
        return "now"
    return "?"


def _first_arg(c: ast.Call) -> "ast.expr | None":
    """The scheduler's delay argument, positional or by keyword."""
    if c.args:
        return c.args[0]
    for k in c.keywords:
        if k.arg in ("delay", "wait", "wait_time"):
            return k.value
    return None


def _delay_value(ctx: Ctx, f: Func, c: ast.Call) -> Any:
    a = _first_arg(c)
    if a is None:
        return Unknown
    return ctx.sym.eval(_inline_locals(f, a), f.module.name)


def _delay_on_paths(ctx: Ctx, rl: RL, f: Func, g: CFG, c: ast.Call, asg: dict[str, bool], cl) -> list[Any]:
    """Values the scheduler's argument can take at call c under the assignment (locals assigned on branches)."""
    arg = _first_arg(c)
    if arg is None:
        return ["<no argument>"]
    if not isinstance(arg, ast.Name):
        return [ctx.sym.eval(arg, f.module.name)]
    reach = walk(g, asg, cl)
    if not any(n in reach for n in _nodes_with(g, c)):
        return ["<unreachable>"]
    # reaching definitions of the argument at the call, over the nodes that are reachable under the assignment (a
    # default bound before a branch is overwritten on the branch that rebinds it)
    def assigned(n: Node):
        a = n.ast
        if n.kind != "stmt":
            return None
        if isinstance(a, ast.Assign) and any(isinstance(t, ast.Name) and t.id == arg.id for t in a.targets):
            return a.value
        if isinstance(a, ast.AnnAssign) and a.value is not None and isinstance(a.target, ast.Name) and a.target.id == arg.id:
            return a.value
        return None

    def val_of(e: ast.expr):
        v = ctx.sym.eval(e, f.module.name)
        return v if isinstance(v, (int, float)) else f"<{norm(e)}>"

    def feasible(p_: Node, l_: str) -> bool:
        # the edge of a decided test that contradicts the assignment is not taken
        if p_.kind != "cond" or l_ not in ("true", "false"):
            return True
        k = cl(p_)
        if k is None or k[0] not in asg:
            return True
        return (l_ == "true") == (asg[k[0]] == k[1])

    IN: dict[Node, frozenset] = {n: frozenset() for n in reach}
    OUT: dict[Node, frozenset] = {n: frozenset() for n in reach}
    changed = True
    while changed:
        changed = False
        for n in g.reachable():
            if n not in reach:
                continue
            i = frozenset().union(*[OUT[p_] for l_, p_ in n.pred if p_ in reach and l_ != "exc" and feasible(p_, l_)]) if n.pred else frozenset()
            e = assigned(n)
            o = frozenset([val_of(e)]) if e is not None else i
            if i != IN[n] or o != OUT[n]:
                IN[n], OUT[n] = i, o
                changed = True
    vals = set()
    for n in _nodes_with(g, c):
        if n in reach:
            vals |= IN[n]
    return sorted(vals, key=str)


# =========================================================================== R4
def r4(ctx: Ctx, rl: RL) -> None:
    res, eff = rl.res, rl.eff
    stop = rl.stop
    g = cfg_of(ctx, stop)
    withs = rl.lock_withs(stop)
    ctx.ob("C18.R4", stop, "stop() has one region holding the manager lock", len(withs) == 1, f"{len(withs)} regions")
    unlisten = _listener_fn(rl, "async_remove_listener")
    listen = _listener_fn(rl, "async_add_listener")

    def events(n: Node) -> list[str]:
        out = []
        a = n.ast
        if a is None or not rl.lexically_locked(stop, a):
            # only what happens while holding the lock counts, except the final close
            for c in node_calls(n):
                if norm(c.func).endswith("_zeroconf_manager.async_close"):
                    out.append("zc-close")
            return out
        if n.kind == "stmt" and isinstance(a, ast.Assign) and any(_self_attr(t, "_is_stopped") for t in a.targets) and isinstance(a.value, ast.Constant) and a.value.value is True:
            out.append("flag")
        for c in node_calls(n):
            if _cancels_timer(rl, stop, c):
                out.append("timer-cancel")
            if _cancels_task(rl, stop, c):
                out.append("task-cancel")
            cs = res.callees(stop, c).funcs
            if unlisten is not None and unlisten in cs:
                out.append("unlisten")
            if (rl.set_l in cs or rl.set_u in cs) and rl.state_const(stop, c.args[0] if c.args else None) == "DISCONNECTED":
                out.append("state-disc")
        return out

    ev = occurred_before(g, events)
    at_exit = ev.get(g.exit, frozenset())
    for tok, why in (
        ("flag", "stop flag set"), ("timer-cancel", "retry timer cancelled"), ("task-cancel", "attempt task cancelled"),
        ("unlisten", "mDNS listener removed"), ("state-disc", "state set to DISCONNECTED"),
    ):
        ctx.ob("C18.R4", stop, f"stop(): {why} while holding the lock, on every path", tok in at_exit, f"must-events at exit: {sorted(at_exit)}")
    ctx.ob("C18.R4", stop, "stop(): the manager's zeroconf is closed before stop() returns", "zc-close" in at_exit, "")
    susp = [n for n in g.reachable() if n.ast is not None and n.kind in ("stmt", "cond") and rl.lexically_locked(stop, n.ast) and eff.node_suspends(stop, n)]
    ctx.ob("C18.R4", stop, "stop() does not suspend while holding the lock (flag, cancels and listener removal are atomic)", not susp, f"{[n.text(50) for n in susp]}")
    # cancel helpers and listener helpers keep their shape
    for helper, attr, what in ((_helper(rl, _cancels_timer), rl.timer_attr, "timer"), (_helper(rl, _cancels_task), rl.task_attr, "task")):
        if helper is None:
            ctx.ob("C18.R4", f"{MOD}:{CLS}", f"{what} cancel helper located", False, "")
            continue
        gh = cfg_of(ctx, helper)

        def cl_has(n: Node, attr=attr):
            if _self_attr(n.ast, attr):
                return ("set", True)
            t = n.ast
            if isinstance(t, ast.Compare) and len(t.ops) == 1 and _self_attr(t.left, attr) and is_none(t.comparators[0]):
                return ("set", isinstance(t.ops[0], (ast.IsNot, ast.NotEq)))
            return None

        canc = [n for n in gh.reachable() if any(norm(c.func) == f"self.{attr}.cancel" for c in node_calls(n))]
        clr = [n for n in gh.reachable() if n.kind == "stmt" and isinstance(n.ast, ast.Assign) and any(_self_attr(t, attr) for t in n.ast.targets) and is_none(n.ast.value)]
        t1 = truth_table(gh, ["set"], cl_has, canc)
        t2 = truth_table(gh, ["set"], cl_has, clr)
        ctx.ob("C18.R4", helper, f"{what} helper cancels whenever one is pending", t1[(True,)] == (True, True) and not t1[(False,)][0], fmt_table(["set"], t1))
        ctx.ob("C18.R4", helper, f"{what} helper forgets the cancelled {what}", t2[(True,)] == (True, True), fmt_table(["set"], t2))
    # listener pairing
    for fn, api, flagval, guardpol in ((listen, "async_add_listener", True, False), (unlisten, "async_remove_listener", False, True)):
        if fn is None:
            ctx.ob("C18.R4", f"{MOD}:{CLS}", f"function calling {api} located", False, "")
            continue
        gl = cfg_of(ctx, fn)

        def cl_l(n: Node):
            if _self_attr(n.ast, "_zc_listening"):
                return ("listening", True)
            if _self_attr(n.ast, "name"):
                return ("named", True)
            return None

        calls_ = [n for n in gl.reachable() if any(norm(c.func).endswith("." + api) for c in node_calls(n))]
        sets = [n for n in gl.reachable() if n.kind == "stmt" and isinstance(n.ast, ast.Assign) and any(_self_attr(t, "_zc_listening") for t in n.ast.targets)]
        tab = truth_table(gl, ["listening", "named"], cl_l, calls_)
        if api == "async_add_listener":
            ok = tab[(False, True)] == (True, True) and not tab[(True, True)][0] and not tab[(True, False)][0] and not tab[(False, False)][0]
        else:
            ok = tab[(True, True)] == (True, True) and tab[(True, False)] == (True, True) and not tab[(False, True)][0] and not tab[(False, False)][0]
        ctx.ob("C18.R4", fn, f"{api} called iff {'not yet listening (and the device name is known)' if flagval else 'listening'}", ok, fmt_table(["listening", "named"], tab))
        evl = occurred_before(gl, lambda n: ["called"] if n in calls_ else [])
        ctx.ob("C18.R4", fn, f"listening flag := {flagval} exactly with the {api} call", len(sets) == 1 and isinstance(sets[0].ast.value, ast.Constant) and sets[0].ast.value.value is flagval and "called" in evl.get(sets[0], frozenset()), "")
        for n in calls_:
            for c in node_calls(n):
                if norm(c.func).endswith("." + api):
                    ctx.ob("C18.R4", fn, c, bool(c.args) and norm(c.args[0]) == "self", "the manager registers itself", node=c)
                    # ... on the instance the zeroconf manager hands out NOW (the manager closes an instance it created
                    # itself when the logic is stopped; an instance remembered from an earlier run would be a dead one)
                    recv = c.func.value  # type: ignore[union-attr]
                    srcs = [recv]
                    if isinstance(recv, ast.Name):
                        srcs = [x.value for x in own_nodes(fn.node) if isinstance(x, (ast.Assign, ast.AnnAssign, ast.NamedExpr)) and x.value is not None and any(isinstance(t, ast.Name) and t.id == recv.id for t in (x.targets if isinstance(x, ast.Assign) else [x.target]))]
                    fresh = bool(srcs) and all(any(isinstance(y, ast.Call) and isinstance(y.func, ast.Attribute) and y.func.attr == "get_async_zeroconf" for y in ast.walk(sx)) for sx in srcs)
                    ctx.ob("C18.R4", fn, f"{api}: the instance comes from the zeroconf manager at this call", fresh, f"receiver {[norm(sx)[:50] for sx in srcs]}: an instance cached on the reconnect logic outlives the manager's own (closed on stop)", node=c)
    lw = [(f, st) for f in ctx.repo.all_funcs() for st, tgt, val in attr_writes(f, "_zc_listening")]
    for f, st in lw:
        ctx.ob("C18.R4", f, st, f in (rl.init, listen, unlisten), "unexpected writer of the listening flag", node=st)
    api_calls = [(f, c) for f in ctx.repo.funcs_in(MOD) for c in [x for x in own_nodes(f.node) if isinstance(x, ast.Call)] if norm(c.func).split(".")[-1] in ("async_add_listener", "async_remove_listener")]
    ctx.count("C18.R4.listener-api", len(api_calls), 2, "zeroconf listener add/remove call sites")
    # ---- valid not-stopped fact at every site that starts something
    entry_fact: dict[str, bool] = {}
    starters = [x for x in (rl.sched, listen, rl.methods.get("_connect_from_zeroconf")) if x is not None]
    for x in starters:
        entry_fact[x.key] = True
    facts_cache: dict[str, dict[Node, frozenset]] = {}

    def facts(f: Func) -> dict[Node, frozenset]:
        return not_stopped_facts(rl, f, entry_fact.get(f.key, False))

    site_rows = []
    for _ in range(4):
        changed = False
        site_rows = []
        for f in rl.funcs:
            fx = None
            for c in rl.calls(f):
                cs = res.callees(f, c).funcs
                tgt = [x for x in starters + [rl.attempt] if x in cs]
                if not tgt or not _self_attr(c.func):
                    continue
                fx = fx or facts(f)
                gf = cfg_of(ctx, f)
                nodes = _nodes_with(gf, c)
                ok = bool(nodes) and all("ns" in fx.get(n, frozenset()) for n in nodes)
                site_rows.append((f, c, tgt[0], ok))
        for x in starters:
            v = all(ok for f, c, t, ok in site_rows if t is x) and any(t is x for f, c, t, ok in site_rows)
            if entry_fact[x.key] != v:
                entry_fact[x.key] = v
                changed = True
        if not changed:
            break
    for f, c, t, ok in site_rows:
        ctx.ob("C18.R4", f, c, ok, f"{t.name} reached without a valid not-stopped fact: after stop() returned an attempt, a timer or the mDNS listener could be started", node=c)
    ctx.count("C18.R4.start-sites", len(site_rows), 6, "sites that start an attempt, schedule one or start listening")
    # the timer callback / starter is also entered from the loop: its effect is gated by R1 (attempt only if not stopped, under the lock)
    # ---- mDNS filter
    U = rl.update
    gU = cfg_of(ctx, U)
    trig = rl.methods.get("_connect_from_zeroconf")
    trig_nodes = [n for n in gU.reachable() if any((trig is not None and trig in res.callees(U, c).funcs) or rl.sched in res.callees(U, c).funcs for c in node_calls(n))]
    rec_alias: set[str] = set()
    for n in own_nodes(U.node):
        if isinstance(n, ast.Assign) and len(n.targets) == 1 and isinstance(n.targets[0], ast.Name) and isinstance(n.value, ast.Attribute) and n.value.attr == "new":
            rec_alias.add(n.targets[0].id)

    def is_rec(e: ast.expr) -> bool:
        return (isinstance(e, ast.Name) and e.id in rec_alias) or (isinstance(e, ast.Attribute) and e.attr == "new")

    def cl_u(n: Node):
        t = n.ast
        if _self_attr(t, "_accept_zeroconf_records"):
            return ("accept", True)
        if _self_attr(t, "_is_stopped"):
            return ("stopped", True)
        if isinstance(t, ast.Compare) and len(t.ops) == 1 and isinstance(t.ops[0], (ast.Eq, ast.NotEq)):
            l, r = t.left, t.comparators[0]
            pol = isinstance(t.ops[0], ast.Eq)
            for a, b in ((l, r), (r, l)):
                if isinstance(a, ast.Attribute) and is_rec(a.value):
                    if a.attr == "type":
                        v = norm(b)
                        if v == "TYPE_PTR":
                            return ("ptr_type", pol)
                        if v == "TYPE_A":
                            return ("a_type", pol)
                    if a.attr == "alias" and _self_attr(b, "_ptr_alias"):
                        return ("ptr_match", pol)
                    if a.attr == "name" and _self_attr(b, "_a_name"):
                        return ("a_match", pol)
        return None

    vars_ = ["accept", "stopped", "ptr_type", "ptr_match", "a_type", "a_match"]
    tab = truth_table(gU, vars_, cl_u, trig_nodes)
    # per record: from the head of the loop body (an empty batch leaves without a trigger)
    heads = [n for n in gU.reachable() if n.kind == "for"]
    ctx.require(len(heads) == 1, "the mDNS filter must iterate the record batch in one loop")
    body_start = [s for l, s in heads[0].succ if l == "true"]
    ctx.require(len(body_start) == 1, "loop body of the mDNS filter not found")
    tab_rec = truth_table(gU, vars_, cl_u, trig_nodes, start=body_start[0])
    bad = []
    for vals, (may, must) in tab.items():
        d = dict(zip(vars_, vals))
        if d["ptr_type"] and d["a_type"]:
            continue  # a record has one type
        match = (d["ptr_type"] and d["ptr_match"]) or (d["a_type"] and d["a_match"])
        want = d["accept"] and not d["stopped"] and match
        if may != want or (match and not tab_rec[vals][1]) or (not match and tab_rec[vals][0]):
            bad.append(",".join(f"{k}={'T' if v else 'F'}" for k, v in d.items()) + f"->{'may' if may else 'no'}/per-record:{'must' if tab_rec[vals][1] else 'may' if tab_rec[vals][0] else 'no'}")
    ctx.ob("C18.R4", U, "mDNS trigger iff accepting and not stopped and (PTR record with the device's alias or A record with its name)", not bad and bool(trig_nodes), f"deviating rows: {bad[:4]}")
    # TYPE_PTR / TYPE_A are zeroconf's constants, alias/name strings built from the device name
    imp = {a.asname or a.name: (n.module, a.name) for n in ctx.repo.module(MOD).tree.body if isinstance(n, ast.ImportFrom) for a in n.names}
    ctx.ob("C18.R4", f"{MOD}:<imports>", "TYPE_PTR / TYPE_A are zeroconf's record-type constants", imp.get("TYPE_PTR") == ("zeroconf.const", "_TYPE_PTR") and imp.get("TYPE_A") == ("zeroconf.const", "_TYPE_A"), f"{imp.get('TYPE_PTR')} {imp.get('TYPE_A')}")
    if listen is not None:
        for attr, want in (("_ptr_alias", "f'{self.name}._esphomelib._tcp.local.'"), ("_a_name", "f'{self.name}.local.'")):
            ws = [(f, st, val) for f in rl.funcs for st, tgt, val in attr_writes(f, attr) if f is not rl.init]
            ctx.ob("C18.R4", listen, f"{attr} is the device's mDNS name", len(ws) == 1 and ws[0][0] is listen and norm(ws[0][2]) == want, f"{[norm(w[2]) for w in ws]}")
    # after a trigger: accept flag cleared and the batch is left (at most one trigger per batch)
    clr = [n for n in gU.reachable() if n.kind == "stmt" and isinstance(n.ast, ast.Assign) and any(_self_attr(t, "_accept_zeroconf_records") for t in n.ast.targets)]
    for tn in trig_nodes:
        again = None
        for l0, s0 in tn.succ:
            if l0 == "exc" or again is not None:
                continue
            if s0 in trig_nodes:
                again = [tn, s0]
            else:
                again = paths_avoiding(gU, s0, set(trig_nodes), lambda n: False, follow=lambda a, l, b: l != "exc")
        ctx.ob("C18.R4", U, "at most one reconnect trigger per record batch", again is None, f"path back to the trigger: {fmt_path(again) if again else ''}")
        skip = paths_avoiding(gU, tn, {gU.exit}, lambda n: n in clr, follow=lambda a, l, b: l != "exc")
        ctx.ob("C18.R4", U, "after a trigger further records are ignored until the state changes", skip is None and bool(clr), "the accept flag is not cleared on some path after the trigger")
    if trig is not None:
        gt = cfg_of(ctx, trig)
        evt = occurred_before(gt, lambda n: (["unlisten"] if unlisten is not None and any(unlisten in res.callees(trig, c).funcs for c in node_calls(n)) else []) + (["sched"] if any(rl.sched in res.callees(trig, c).funcs for c in node_calls(n)) else []))
        ctx.ob("C18.R4", trig, "an mDNS trigger stops listening and schedules the attempt", {"unlisten", "sched"} <= evt.get(gt.exit, frozenset()), f"{sorted(evt.get(gt.exit, frozenset()))}")
    # the listener is removed once the TCP connect succeeded (before HANDSHAKING)
    T = rl.attempt
    gT = cfg_of(ctx, T)
    evT = occurred_before(gT, lambda n: ["unlisten"] if unlisten is not None and any(unlisten in res.callees(T, c).funcs for c in node_calls(n)) else [])
    hs = [n for n in gT.reachable() if any((rl.set_l in res.callees(T, c).funcs) and rl.state_const(T, c.args[0] if c.args else None) == "HANDSHAKING" for c in node_calls(n))]
    ctx.ob("C18.R4", T, "the mDNS listener is removed before the handshake phase", bool(hs) and all("unlisten" in evT.get(n, frozenset()) for n in hs), "")
    # listening starts only when a positive delay is waited for
    A = rl.runner
    gA = cfg_of(ctx, A)
    if listen is not None:
        ls = [c for c in rl.calls(A) if listen in res.callees(A, c).funcs]
        ctx.ob("C18.R4", A, "the runner starts listening for mDNS records when it is going to wait", len(ls) == 1, f"{[norm(c) for c in ls]}")


def _listener_fn(rl: RL, api: str) -> Func | None:
    out = [f for f in rl.funcs if any(norm(c.func).split(".")[-1] == api for c in rl.calls(f))]
    return out[0] if len(out) == 1 else None


def _helper(rl: RL, pred) -> Func | None:
    """The method that directly contains `self.<attr>.cancel(...)`."""
    attr = rl.timer_attr if pred is _cancels_timer else rl.task_attr
    out = [f for f in rl.funcs if any(norm(c.func) == f"self.{attr}.cancel" for c in rl.calls(f))]
    return out[0] if len(out) == 1 else None


# =========================================================================== R5
def r5(ctx: Ctx, rl: RL) -> None:
    res = rl.res
    T, F, H = rl.attempt, rl.fail, rl.hook

    def cb_sites(attr: str) -> list[tuple[Func, ast.Call]]:
        return [(f, c) for f in rl.funcs for c in rl.calls(f) if _self_attr(c.func, attr)]

    def cb_loads(attr: str) -> list[tuple[Func, ast.AST]]:
        return [(f, n) for f in rl.funcs for n in own_nodes(f.node) if _self_attr(n, attr) and isinstance(n.ctx, ast.Load)]

    # on_connect
    oc = cb_sites("_on_connect_cb")
    ctx.ob("C18.R5", T, "on_connect is called at exactly one site, in the attempt function", len(oc) == 1 and oc[0][0] is T and len(cb_loads("_on_connect_cb")) == 1, f"{[(f.qualname) for f, _ in oc]}")
    gT = cfg_of(ctx, T)

    def evs(n: Node) -> list[str]:
        out = []
        for c in node_calls(n):
            cs = res.callees(T, c).funcs
            for x in cs:
                if x.cls is rl.client and x.name in ("start_connection", "finish_connection"):
                    out.append(x.name)
            if rl.set_l in cs and rl.state_const(T, c.args[0] if c.args else None) == "READY":
                out.append("ready")
            if F in cs:
                out.append("failed")
            if _self_attr(c.func, "_on_connect_cb"):
                out.append("on_connect")
        return out

    ev = occurred_before(gT, evs)
    for f, c in oc:
        if f is T:
            nodes = _nodes_with(gT, c)
            ctx.ob("C18.R5", T, "on_connect only after both phases returned and READY was set", bool(nodes) and all({"start_connection", "finish_connection", "ready"} <= ev.get(n, frozenset()) for n in nodes), "", node=c)
            ctx.ob("C18.R5", T, "on_connect runs while the manager lock is held (a disconnect is processed after it)", rl.under_lock(T, c), "", node=c)
            ctx.ob("C18.R5", T, "on_connect is awaited", any(isinstance(a, ast.Await) and a.value is c for a in own_nodes(T.node)), "", node=c)

    # per path: return True => on_connect once and no failure; return False => failure handler once, no on_connect
    def step(n: Node, s: frozenset, label: str):
        if label == "exc":
            if not rl.eff.node_raises(T, n):
                return None
            return s
        toks = evs(n)
        d = dict(s)
        for t in toks:
            if t in ("failed", "on_connect"):
                d[t] = min(2, d.get(t, 0) + 1)
        if isinstance(n.ast, ast.Return):
            v = n.ast.value
            d["ret"] = v.value if isinstance(v, ast.Constant) else "?"
        return frozenset(d.items())

    ex = disjunctive(gT, frozenset(), step).get(gT.exit, frozenset())
    rows = sorted({tuple(sorted(s, key=str)) for s in ex}, key=str)
    ok = bool(ex)
    for s in ex:
        d = dict(s)
        if d.get("ret") is True:
            ok &= d.get("on_connect", 0) == 1 and d.get("failed", 0) == 0
        elif d.get("ret") is False:
            ok &= d.get("failed", 0) == 1 and d.get("on_connect", 0) == 0
        else:
            ok = False
    ctx.ob("C18.R5", T, "attempt outcome: True <=> on_connect once and no failure report; False <=> exactly one failure report", ok, f"{rows}")
    # each except handler passes the caught exception
    hs = [n for n in own_nodes(T.node) if isinstance(n, ast.ExceptHandler)]
    nfh = 0
    for h in hs:
        calls_ = [x for st in h.body for x in walk_no_nested(st) if isinstance(x, ast.Call) and F in res.callees(T, x).funcs]
        for c in calls_:
            nfh += 1
            ctx.ob("C18.R5", T, c, h.name is not None and len(c.args) == 1 and norm(c.args[0]) == h.name, "the failure handler must receive the caught error", node=c)
        ctx.ob("C18.R5", T, f"except {norm(h.type) if h.type else ''}: handler reports the failure", len(calls_) == 1 and norm(h.type) == "Exception", "every failed attempt (any Exception) is reported and counted; cancellation is not a failure", node=h)
    ctx.count("C18.R5.failure-reports", nfh, 2, "failure-handler calls in the attempt function")
    # on_connect_error in the failure handler: called iff configured, with the error
    gF = cfg_of(ctx, F)
    errp = [a for a in F.param_names() if a != "self"]
    oe = cb_sites("_on_connect_error_cb")
    ctx.ob("C18.R5", F, "on_connect_error is called at exactly one site, in the failure handler", len(oe) == 1 and oe[0][0] is F, f"{[(f.qualname) for f, _ in oe]}")

    def cl_cb(n: Node):
        t = n.ast
        if isinstance(t, ast.Compare) and len(t.ops) == 1 and _self_attr(t.left, "_on_connect_error_cb") and is_none(t.comparators[0]):
            return ("configured", isinstance(t.ops[0], (ast.IsNot, ast.NotEq)))
        if _self_attr(t, "_on_connect_error_cb"):
            return ("configured", True)
        return None

    for f, c in oe:
        if f is F:
            tab = truth_table(gF, ["configured"], cl_cb, _nodes_with(gF, c))
            ctx.ob("C18.R5", F, "on_connect_error called iff configured, on every path", tab[(True,)] == (True, True) and not tab[(False,)][0], fmt_table(["configured"], tab), node=c)
            ctx.ob("C18.R5", F, c, len(c.args) == 1 and errp and norm(c.args[0]) == errp[0], "on_connect_error must receive the attempt's error", node=c)
            ctx.ob("C18.R5", F, "on_connect_error is awaited", any(isinstance(a, ast.Await) and a.value is c for a in own_nodes(F.node)), "", node=c)
    # failure handler sets DISCONNECTED first
    evF = occurred_before(gF, lambda n: ["disc"] if any(rl.set_l in res.callees(F, c).funcs and rl.state_const(F, c.args[0] if c.args else None) == "DISCONNECTED" for c in node_calls(n)) else [])
    ctx.ob("C18.R5", F, "a failed attempt returns the manager to DISCONNECTED on every path", "disc" in evF.get(gF.exit, frozenset()), "the next attempt would be refused by the DISCONNECTED guard: the manager stops retrying")
    # on_disconnect: only in the stop hook, under the lock, after DISCONNECTED, with the hook's argument
    od = cb_sites("_on_disconnect_cb")
    ctx.ob("C18.R5", H, "on_disconnect is called at exactly one site, in the stop hook", len(od) == 1 and od[0][0] is H and len(cb_loads("_on_disconnect_cb")) == 1, f"{[(f.qualname) for f, _ in od]}")
    gH = cfg_of(ctx, H)
    hp = [a for a in H.param_names() if a != "self"]
    evH = occurred_before(gH, lambda n: ["disc"] if any(rl.set_l in res.callees(H, c).funcs and rl.state_const(H, c.args[0] if c.args else None) == "DISCONNECTED" for c in node_calls(n)) else [])
    for f, c in od:
        if f is H:
            nodes = _nodes_with(gH, c)
            ctx.ob("C18.R5", H, "on_disconnect runs under the manager lock after the state became DISCONNECTED", rl.lexically_locked(H, c) and bool(nodes) and all("disc" in evH.get(n, frozenset()) for n in nodes), "", node=c)
            ctx.ob("C18.R5", H, c, len(c.args) == 1 and hp and norm(c.args[0]) == hp[0], "on_disconnect must receive the expected-disconnect flag of the session that ended", node=c)
            ctx.ob("C18.R5", H, "on_disconnect is awaited", any(isinstance(a, ast.Await) and a.value is c for a in own_nodes(H.node)), "", node=c)
    # on_disconnect on every normal path of the hook
    evH2 = occurred_before(gH, lambda n: ["cb"] if any(_self_attr(c.func, "_on_disconnect_cb") for c in node_calls(n)) else [])
    ctx.ob("C18.R5", H, "every ended session reaches on_disconnect", "cb" in evH2.get(gH.exit, frozenset()), "")
    # the hook is used only as the stop callback of start_connection
    refs = rl.value_refs(H)
    sites = rl.call_sites(H)
    ctx.ob("C18.R5", H, "the stop hook is only handed to the client as on_stop (one on_disconnect per ended session follows from C07)", len(refs) == 1 and refs[0][0] is T and not sites, f"refs in {[f.qualname for f, _ in refs]}, direct calls in {[f.qualname for f, _ in sites]}")
    # the hook reschedules iff not stopped
    hc = [c for c in rl.calls(H) if rl.sched in res.callees(H, c).funcs]
    for c in hc:
        tab = truth_table(gH, ["stopped"], rl.cl_stopped, _nodes_with(gH, c))
        ctx.ob("C18.R5", H, "after a session ended the manager reconnects iff it is not stopped", tab[(False,)] == (True, True) and not tab[(True,)][0], fmt_table(["stopped"], tab), node=c)
