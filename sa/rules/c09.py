"""C09 - operations end in bounded time with a classified error; first cause wins."""

from __future__ import annotations

import ast
from typing import Any

from ..astutil import attr_writes, is_none
from ..cfg import Node, cfg_of, node_calls, walk_own
from ..closed import find_roles, resolver
from ..flow import occurred_before
from ..guard import fmt_table, truth_table, walk
from ..report import Ctx
from ..src import AnalysisError, Func, norm, own_nodes
from ..sym import Ref, Unknown

EXPLANATION = (
    "Static rules. R1: every await in connection.py and client.py is classified as bounded by a recognised construct - "
    "lexically inside `async with asyncio_timeout(C)`, a future with a `call_at(now + C, handle_timeout, <same future>)` armed "
    "on every path before the await, `asyncio.wait(..., timeout=C)`, a package coroutine that is itself bounded (fixpoint "
    "over the call graph), a coroutine parameter all of whose call sites pass bounded package coroutines, or the allow-list "
    "(create_connection on an already connected socket); C is folded and compared with the documented constant for that "
    "role; the TCP retry loop shrinks its address list on every failing iteration. R2: the connect phases catch everything "
    "and raise what the wrapper returns, every return of which is an APIConnectionError subclass (class table); timeout / "
    "OS errors map to the documented classes; the closer wraps foreign causes before failing waiters; write failures are "
    "reported and re-raised as SocketClosedAPIError for a handler tuple covering RuntimeError/ConnectionResetError/OSError. "
    "R3: the fatal cause has one guarded writer and is recorded before the closer runs. Decides the bounding and "
    "classification structure; actual completion instants and hangs inside third-party awaits are not decided."
    ' Added: building a connection error cannot fail (no raising lookup in the constructors and helpers); a write failure reaches the reporting handler as a class it catches; error conversions may sit in a function or around its only call.'
    ' Also: awaits of callback-completed futures are bounded by timers that only act on a pending future; the interruption sentinel stays outside the connection-error hierarchy.'
)
ASSUMPTIONS = [
    "asyncio.timeout / loop.call_at / asyncio.wait honour their deadlines",
    "handle_timeout only acts on the future it was armed for",
    "M1-M5 of DESIGN.md section 2",
]

# role of a bounded wait -> documented bound in seconds
DOCUMENTED = {
    "resolve": 30.0,
    "tcp-connect": 60.0,
    "handshake": 30.0,
    "hello-login": 30.0,
    "disconnect-wait-connect": 5.0,
    "disconnect-response": 10.0,
}


def run(ctx: Ctx) -> None:
    roles = find_roles(ctx)
    r1(ctx, roles)
    r2(ctx, roles)
    r3(ctx, roles)


# ----------------------------------------------------------------------- R1
def timeout_ctx_of(ctx: Ctx, fn: Func, aw: ast.AST) -> ast.Call | None:
    """Innermost `async with <timeout factory>(C)` lexically enclosing the await."""
    found = None

    def visit(node: ast.AST, stack: list[ast.Call]) -> None:
        nonlocal found
        if node is aw:
            found = stack[-1] if stack else None
            return
        if isinstance(node, (ast.FunctionDef, ast.AsyncFunctionDef, ast.Lambda)) and node is not fn.node:
            return
        if isinstance(node, ast.AsyncWith):
            pushed = 0
            for it in node.items:
                e = it.context_expr
                if isinstance(e, ast.Call) and is_timeout_factory(ctx, fn, e):
                    stack.append(e)
                    pushed += 1
            for b in node.body:
                visit(b, stack)
            for _ in range(pushed):
                stack.pop()
            return
        for c in ast.iter_child_nodes(node):
            visit(c, stack)

    visit(fn.node, [])
    return found


def is_timeout_factory(ctx: Ctx, fn: Func, call: ast.Call) -> bool:
    f = call.func
    if isinstance(f, ast.Name):
        b = ctx.sym.table(fn.module.name).get(f.id)
        if b and b[0] == "extimport" and b[1] in ("asyncio.timeout", "async_timeout.timeout"):
            return True
        if b and b[0] == "assign":
            return False
        # conditional import (version switch): both branches import a timeout factory
        v = ctx.sym.resolve_name(fn.module.name, f.id)
        return isinstance(v, Ref) and v.kind == "ext" and v.name in ("asyncio.timeout", "async_timeout.timeout")
    return norm(f) in ("asyncio.timeout", "async_timeout.timeout")


def fold_seconds(ctx: Ctx, fn: Func, e: ast.expr) -> Any:
    v = ctx.sym.eval(e, fn.module.name)
    if v is Unknown:
        if isinstance(e, ast.Name) and e.id in fn.param_names():
            return f"param:{e.id}"
        return Unknown
    return v


def armed_timers(ctx: Ctx, fn: Func) -> list[tuple[ast.Call, str, ast.expr]]:
    """call_at(now + C, handle_timeout, FUT) calls in fn: (call, norm(FUT), C expr)."""
    res = resolver(ctx)
    out = []
    ht = ctx.repo.func("connection", "handle_timeout")
    for n in own_nodes(fn.node):
        if isinstance(n, ast.Call) and isinstance(n.func, ast.Attribute) and n.func.attr == "call_at" and len(n.args) >= 3:
            cb = res._callable_value(fn, n.args[1])
            if cb is None or ht not in cb.funcs:
                continue
            when = n.args[0]
            c = None
            if isinstance(when, ast.BinOp) and isinstance(when.op, ast.Add):
                for side, other in ((when.left, when.right), (when.right, when.left)):
                    if isinstance(side, ast.Call) and isinstance(side.func, ast.Attribute) and side.func.attr == "time":
                        c = other
            if c is not None:
                out.append((n, norm(n.args[2]), c))
    return out


class Bounded:
    def __init__(self, ctx: Ctx) -> None:
        self.ctx = ctx
        self.res = resolver(ctx)
        self.funcs = [f for f in ctx.repo.all_funcs() if f.is_async]
        self.ok: dict[str, bool] = {f.key: True for f in self.funcs}
        self.sites: list[tuple[Func, ast.Await, str, Any, str]] = []  # fn, await, how, bound, role
        self.param_awaits: dict[tuple[str, str], bool] = {}
        for _ in range(12):
            changed = False
            for f in self.funcs:
                v = all(self.classify(f, a)[0] != "UNBOUNDED" for a in self.awaits(f))
                if v != self.ok[f.key]:
                    self.ok[f.key] = v
                    changed = True
            if not changed:
                break

    def awaits(self, fn: Func) -> list[ast.Await]:
        return [n for n in own_nodes(fn.node) if isinstance(n, ast.Await)]

    def classify(self, fn: Func, aw: ast.Await) -> tuple[str, Any]:
        ctx = self.ctx
        v = aw.value
        tc = timeout_ctx_of(ctx, fn, aw)
        if tc is not None and tc.args:
            return "timeout-context", fold_seconds(ctx, fn, tc.args[0])
        # asyncio.wait(..., timeout=C)
        if isinstance(v, ast.Call) and norm(v.func) in ("asyncio.wait", "asyncio.wait_for"):
            for kw in v.keywords:
                if kw.arg == "timeout" and not is_none(kw.value):
                    return "asyncio.wait timeout", fold_seconds(ctx, fn, kw.value)
            if norm(v.func) == "asyncio.wait_for" and len(v.args) >= 2:
                return "asyncio.wait timeout", fold_seconds(ctx, fn, v.args[1])
            return "UNBOUNDED", "asyncio.wait without timeout"
        # future with an armed timer on every path
        txt = norm(v)
        for call, fut_txt, c in armed_timers(ctx, fn):
            if fut_txt == txt:
                g = cfg_of(ctx, fn)
                facts = occurred_before(g, lambda n, call=call: ["armed"] if n.ast is not None and n.kind == "stmt" and any(x is call for x in walk_own(n.ast)) else [])
                nodes = [n for n in g.reachable() if n.ast is not None and n.kind == "stmt" and any(x is aw for x in walk_own(n.ast))]
                if nodes and all("armed" in facts.get(n, frozenset()) for n in nodes):
                    return "call_at timer on the awaited future", fold_seconds(ctx, fn, c)
        if isinstance(v, ast.Call):
            cs = self.res.callees(fn, v)
            if cs.kind == "pkg" and cs.funcs and all(f.is_async for f in cs.funcs):
                if all(self.ok.get(f.key, False) for f in cs.funcs):
                    return "bounded package coroutine", [f.key for f in cs.funcs]
                return "UNBOUNDED", f"package coroutine with an unbounded await: {[f.key for f in cs.funcs if not self.ok.get(f.key, False)]}"
            # allow-list
            if isinstance(v.func, ast.Attribute) and v.func.attr == "create_connection" and any(kw.arg == "sock" for kw in v.keywords):
                return "allow-list: create_connection(sock=<connected socket>) performs no network wait", None
            return "UNBOUNDED", f"foreign awaitable {norm(v.func)} without a recognised bound"
        if isinstance(v, ast.Name) and v.id in fn.param_names():
            # follow to the call sites
            sites = []
            for caller in self.ctx.repo.all_funcs():
                for c in [x for x in own_nodes(caller.node) if isinstance(x, ast.Call)]:
                    if fn in self.res.callees(caller, c).funcs:
                        arg = self.res.bind_args(fn, c).get(v.id)
                        sites.append((caller, arg))
            if not sites:
                return "UNBOUNDED", f"awaited parameter {v.id} and no call site in the package"
            for caller, arg in sites:
                if not isinstance(arg, ast.Call):
                    return "UNBOUNDED", f"awaited parameter {v.id}: call site in {caller.key} passes a non-call"
                cs = self.res.callees(caller, arg)
                if not (cs.kind == "pkg" and cs.funcs and all(f.is_async and self.ok.get(f.key, False) for f in cs.funcs)):
                    return "UNBOUNDED", f"awaited parameter {v.id}: {caller.key} passes {norm(arg.func)} which is not a bounded package coroutine"
            return "parameter bound to bounded package coroutines at every call site", [c.key for c, _ in sites]
        return "UNBOUNDED", f"await of {txt[:60]} without a recognised bound"


def role_of(ctx: Ctx, fn: Func, aw: ast.Await, how: str) -> str | None:
    """Which documented bound applies to this wait (identified by what is awaited, not by constant names)."""
    v = aw.value
    txt = norm(v)
    if isinstance(v, ast.Call):
        f = norm(v.func)
        if f.endswith("async_resolve_host"):
            return "resolve"
        if f.endswith("aiohappyeyeballs.start_connection") or f.endswith(".start_connection") and "aiohappyeyeballs" in f:
            return "tcp-connect"
        if f == "asyncio.wait" and fn.qualname == "APIConnection.disconnect":
            return "disconnect-wait-connect"
    if txt.endswith("ready_future"):
        return "handshake"
    return None


def r1(ctx: Ctx, roles) -> None:
    b = ctx.service("bounded", lambda: Bounded(ctx))
    n = 0
    seen_roles: dict[str, Any] = {}
    for fn in b.funcs:
        if fn.module.name not in ("connection", "client"):
            continue
        for aw in b.awaits(fn):
            n += 1
            how, bound = b.classify(fn, aw)
            ctx.ob("C09.R1", fn, f"await {norm(aw.value)[:70]}", how != "UNBOUNDED", f"{bound}" if how == "UNBOUNDED" else f"{how}: {bound}", node=aw)
            if how == "UNBOUNDED":
                continue
            if isinstance(bound, (int, float)) and bound is not Unknown:
                ctx.ob("C09.R1", fn, f"bound of await {norm(aw.value)[:50]} is positive and finite", 0 < float(bound) < 1e6, f"{bound}")
            role = role_of(ctx, fn, aw, how)
            if role is not None:
                seen_roles[role] = bound
                ctx.ob("C09.R1", fn, f"{role} bound", isinstance(bound, (int, float)) and float(bound) == DOCUMENTED[role], f"folds to {bound!r}, documented {DOCUMENTED[role]}s [{how}]", node=aw)
    ctx.count("C09.R1", n, 40, "awaits in connection.py/client.py")
    # how a wait on a *future that callbacks complete* is bounded matters: the package's timers (`handle_timeout`) only
    # act on a future that is still pending, so a result or a specific error that arrived in the same loop turn as the
    # deadline wins.  `asyncio.timeout()` / `wait_for()` around such an await cancel the waiting task regardless and
    # replace that outcome by a timeout ("first cause wins" / "completes with its result").
    n_fw = 0
    for fn in b.funcs:
        if fn.module.name != "connection":
            continue
        futs = {t.id for x in own_nodes(fn.node) if isinstance(x, (ast.Assign, ast.AnnAssign)) and isinstance(x.value, ast.Call) and isinstance(x.value.func, ast.Attribute) and x.value.func.attr == "create_future" for t in (x.targets if isinstance(x, ast.Assign) else [x.target]) if isinstance(t, ast.Name)}
        parents = {}
        for p_ in ast.walk(fn.node):
            for ch in ast.iter_child_nodes(p_):
                parents[ch] = p_
        for aw in [x for x in own_nodes(fn.node) if isinstance(x, ast.Await)]:
            v = aw.value
            is_cb_future = (isinstance(v, ast.Name) and v.id in futs) or (isinstance(v, ast.Attribute) and v.attr.endswith("ready_future"))
            wrapped = isinstance(v, ast.Call) and norm(v.func).split(".")[-1] in ("wait_for",) and v.args and ((isinstance(v.args[0], ast.Name) and v.args[0].id in futs) or (isinstance(v.args[0], ast.Attribute) and v.args[0].attr.endswith("ready_future")))
            if not (is_cb_future or wrapped):
                continue
            n_fw += 1
            cur = aw
            cancelling = wrapped
            while cur in parents and not cancelling:
                cur = parents[cur]
                if isinstance(cur, ast.AsyncWith) and any(isinstance(it.context_expr, ast.Call) and norm(it.context_expr.func).split(".")[-1] in ("asyncio_timeout", "timeout", "timeout_at") for it in cur.items):
                    cancelling = True
            ctx.ob("C09.R1", fn, f"await {norm(v)[:50]}: bounded by a timer that only acts on a pending future", not cancelling, "bounded by asyncio.timeout() / wait_for(): the deadline cancels the task even when the future was completed in the same loop turn - the result or the specific error is replaced by a timeout", node=aw)
    ctx.count("C09.R1.futures", n_fw, 2, "awaits of callback-completed futures")
    # timeouts handed to the request machinery at the hello/login and disconnect sites
    res = resolver(ctx)
    complex_fn = ctx.repo.func("connection", "APIConnection.send_messages_await_response_complex")
    single_fn = ctx.repo.func("connection", "APIConnection.send_message_await_response")
    for fn, role in ((ctx.repo.func("connection", "APIConnection._connect_hello_login"), "hello-login"), (ctx.repo.func("connection", "APIConnection.disconnect"), "disconnect-response")):
        found = False
        for c in [x for x in own_nodes(fn.node) if isinstance(x, ast.Call)]:
            cs = res.callees(fn, c)
            for callee in cs.funcs:
                if callee in (complex_fn, single_fn):
                    arg = res.bind_args(callee, c).get("timeout")
                    val = fold_seconds(ctx, fn, arg) if arg is not None else "default"
                    found = True
                    seen_roles[role] = val
                    ctx.ob("C09.R1", fn, f"{role} bound", isinstance(val, (int, float)) and float(val) == DOCUMENTED[role], f"timeout argument folds to {val!r}, documented {DOCUMENTED[role]}s", node=c)
        ctx.ob("C09.R1", fn, f"{role} request present", found, "the bounded request call was not found")
    for role in DOCUMENTED:
        ctx.ob("C09.R1", "connection:roles", f"{role} wait located", role in seen_roles, "the wait this documented bound applies to was not found (role no longer identifiable)")
    ctx.analysed["bounds"] = {k: str(v) for k, v in seen_roles.items()}
    # the request timer uses the caller's timeout parameter
    ats = armed_timers(ctx, complex_fn)
    ctx.ob("C09.R1", complex_fn, "request deadline = now + timeout parameter", len(ats) == 1 and isinstance(ats[0][2], ast.Name) and ats[0][2].id in complex_fn.param_names(), f"{[(f, norm(c)) for _, f, c in ats]}")
    d = single_fn.node.args.defaults
    ctx.ob("C09.R1", single_fn, "default request timeout is 10 s", bool(d) and isinstance(d[-1], ast.Constant) and float(d[-1].value) == 10.0, f"{[norm(x) for x in d]}")
    # TCP retry loop shrinks its work list on every failing iteration
    sc = ctx.repo.func("connection", "APIConnection._connect_socket_connect")
    loops = [n for n in own_nodes(sc.node) if isinstance(n, ast.While) and any(isinstance(x, ast.Await) for b in n.body for x in ast.walk(b))]
    ctx.require(len(loops) == 1, "TCP connect retry loop not found uniquely")
    lp = loops[0]
    var = norm(lp.test)
    g = cfg_of(ctx, sc)
    handlers = [n for n in g.reachable() if n.kind == "handler" and any(n.ast is h for t in ast.walk(lp) if isinstance(t, ast.Try) for h in t.handlers)]
    ctx.require(bool(handlers), "retry loop has no exception handler")
    head = [n for n in g.reachable() if n.kind == "join" and n.ast is lp]
    for h in handlers:
        # every path from the handler back to the loop head passes a call that shrinks the list
        def shrinks(n: Node) -> bool:
            for c in node_calls(n):
                if c.args and norm(c.args[0]) == var and ("pop" in norm(c.func)):
                    return True
                if isinstance(c.func, ast.Attribute) and norm(c.func.value) == var and c.func.attr in ("pop", "clear", "remove"):
                    return True
            return n.kind == "stmt" and isinstance(n.ast, (ast.Delete,)) and var in norm(n.ast)
        from ..flow import paths_avoiding, fmt_path

        p = paths_avoiding(g, h, set(head), shrinks, follow=lambda a, l, b: l != "exc")
        ctx.ob("C09.R1", sc, f"retry loop over {var}: handler {h.text()} shrinks the list before retrying", p is None, "a failing attempt can be retried forever with the same addresses", path=fmt_path(p) if p else None, node=h.ast)


# ----------------------------------------------------------------------- R2
def is_conn_error(ctx: Ctx, modname: str, e: ast.expr | None) -> bool:
    if e is None:
        return False
    v = ctx.sym.eval(e, modname)
    return isinstance(v, Ref) and v.kind == "class" and ctx.repo.is_subclass(v.name, "APIConnectionError")


def raised_class(ctx: Ctx, fn: Func, st: ast.Raise) -> str | None:
    e = st.exc
    if isinstance(e, ast.Call):
        e = e.func
    if e is None:
        return None
    v = ctx.sym.eval(e, fn.module.name)
    if isinstance(v, Ref) and v.kind in ("class", "builtin"):
        return v.name
    return None


def caught_locally(fn: Func, r: ast.Raise) -> bool:
    """The raise sits in a try body whose handlers include a catch of Exception (handled in place)."""
    for t in [n for n in own_nodes(fn.node) if isinstance(n, ast.Try)]:
        if any(x is r for b in t.body for x in ast.walk(b)):
            if any(h.type is None or "Exception" in norm(h.type).split(".")[-1] or norm(h.type) == "Exception" for h in t.handlers):
                return True
    return False


def r2(ctx: Ctx, roles) -> None:
    res = resolver(ctx)
    wrapper = ctx.repo.func("connection", "APIConnection._wrap_fatal_connection_exception")
    # (a) the two phases: catch-all handler, closer, raise wrapper(...)
    for name in ("start_connection", "finish_connection"):
        fn = ctx.repo.func("connection", f"APIConnection.{name}")
        g = cfg_of(ctx, fn)
        tries = [n for n in own_nodes(fn.node) if isinstance(n, ast.Try) and any(isinstance(x, ast.Await) for b in n.body for x in ast.walk(b))]
        ctx.require(len(tries) == 1, f"{name}: guarded block not found")
        t = tries[0]
        from ..cfg import _catches_all

        ca = [h for h in t.handlers if h.type is None or _catches_all(h.type)]
        ctx.ob("C09.R2", fn, "guarded block catches Exception and CancelledError", len(ca) == 1 and ca[0] is t.handlers[0], f"handlers: {[norm(h.type) for h in t.handlers]} - a cancellation or foreign error would escape unclassified")
        if not ca:
            continue
        h = ca[0]
        last = h.body[-1]
        ok = isinstance(last, ast.Raise) and isinstance(last.exc, ast.Call) and wrapper in res.callees(fn, last.exc).funcs
        ctx.ob("C09.R2", fn, "handler raises what the wrapper returns", ok, f"handler ends with {norm(last)[:70]}")
        if ok and h.name:
            args = res.bind_args(wrapper, last.exc)
            ctx.ob("C09.R2", fn, "wrapper receives the caught exception", any(isinstance(a, ast.Name) and a.id == h.name for a in args.values()), f"{[norm(a) for a in args.values()]}")
        rr = [x for b in h.body for x in ast.walk(b) if isinstance(x, ast.Return)]
        ctx.ob("C09.R2", fn, "handler never swallows", not rr, "a return inside the handler hides the failure")
    # (b) every return of the wrapper is an APIConnectionError
    gw = cfg_of(ctx, wrapper)
    rets = [n for n in own_nodes(wrapper.node) if isinstance(n, ast.Return)]
    ctx.count("C09.R2.wrapper", len(rets), 2, "returns of the wrapper")
    ex_param = [p for p in wrapper.param_names() if p not in ("self", "action")][-1]
    for r in rets:
        v = r.value
        if isinstance(v, ast.Name) and v.id == ex_param:
            # only under isinstance(ex, APIConnectionError)
            def classify(n: Node, ex_param=ex_param):
                t = n.ast
                if isinstance(t, ast.Call) and norm(t.func) == "isinstance" and len(t.args) == 2 and norm(t.args[0]) == ex_param and is_conn_error(ctx, wrapper.module.name, t.args[1]) and norm(t.args[1]).split(".")[-1] == "APIConnectionError":
                    return ("is_api_error", True)
                return None
            nodes = [n for n in gw.reachable() if n.ast is r]
            tab = truth_table(gw, ["is_api_error"], classify, nodes)
            ctx.ob("C09.R2", wrapper, f"return {v.id} only for an APIConnectionError", tab[(False,)][0] is False, fmt_table(["is_api_error"], tab), node=r)
        elif isinstance(v, ast.Name):
            assigns = [n for n in own_nodes(wrapper.node) if isinstance(n, ast.Assign) and any(isinstance(t, ast.Name) and t.id == v.id for t in n.targets)]
            okc = bool(assigns)
            detail = []
            for a in assigns:
                if isinstance(a.value, ast.Call) and isinstance(a.value.func, ast.Name):
                    kl = a.value.func.id
                    kas = [n for n in own_nodes(wrapper.node) if isinstance(n, ast.Assign) and any(isinstance(t, ast.Name) and t.id == kl for t in n.targets)]
                    if not kas:
                        okc = okc and is_conn_error(ctx, wrapper.module.name, a.value.func)
                        detail.append(kl)
                    for ka in kas:
                        val = ka.value
                        if isinstance(val, ast.Call) and norm(val.func) == "type" and len(val.args) == 1:
                            # type(X) accepted only under isinstance(X, APIConnectionError)
                            x = norm(val.args[0])
                            guard_ok = False
                            for i in [n for n in own_nodes(wrapper.node) if isinstance(n, ast.If)]:
                                if any(s is ka for s in i.body) and isinstance(i.test, ast.Call) and norm(i.test.func) == "isinstance" and norm(i.test.args[0]) == x and is_conn_error(ctx, wrapper.module.name, i.test.args[1]):
                                    guard_ok = True
                            okc = okc and guard_ok
                            detail.append(f"type({x}) under isinstance guard={guard_ok}")
                        else:
                            good = is_conn_error(ctx, wrapper.module.name, val)
                            okc = okc and good
                            detail.append(f"{norm(val)}:{good}")
                else:
                    okc = False
                    detail.append(norm(a.value)[:40])
            ctx.ob("C09.R2", wrapper, f"return {v.id}: instance of an APIConnectionError subclass", okc, f"{detail}", node=r)
        else:
            ctx.ob("C09.R2", wrapper, f"return {norm(v)[:50]}", False, "unrecognised return form in the wrapper", node=r)
    # (c) timeout / OS error mapping table
    table = [
        ("APIConnection._connect_resolve_host", "TimeoutError", {"ResolveAPIError"}),
        ("APIConnection._connect_init_frame_helper", "TimeoutError", {"TimeoutAPIError"}),
        ("APIConnection._connect_init_frame_helper", "OSError", {"HandshakeAPIError"}),
        ("APIConnection.send_messages_await_response_complex", "TimeoutError", {"TimeoutAPIError"}),
    ]
    for q, htype, want in table:
        fn = ctx.repo.func("connection", q)
        hs = [n for n in own_nodes(fn.node) if isinstance(n, ast.ExceptHandler) and n.type is not None and htype in norm(n.type)]
        if not hs:
            # the conversion may have been moved to the (only) caller, around the call of this function
            target = fn
            for caller in ctx.repo.funcs_in("connection"):
                for t in [x for x in own_nodes(caller.node) if isinstance(x, ast.Try)]:
                    if any(isinstance(c, ast.Call) and target in res.callees(caller, c).funcs for b in t.body for c in ast.walk(b)):
                        hh = [h for h in t.handlers if h.type is not None and htype in norm(h.type)]
                        if hh:
                            fn, hs = caller, hh
        ctx.ob("C09.R2", fn, f"{htype} handler present", len(hs) >= 1, f"no `except {htype}` in {q} (nor around its call)")
        for h in hs:
            g = cfg_of(ctx, fn)
            hn = [n for n in g.reachable() if n.kind == "handler" and n.ast is h]
            raises = [x for b in h.body for x in ast.walk(b) if isinstance(x, ast.Raise)]
            classes = {raised_class(ctx, fn, r) for r in raises}
            ends = isinstance(h.body[-1], ast.Raise)
            ctx.ob("C09.R2", fn, f"{htype} -> {sorted(want)}", ends and classes == want, f"handler raises {sorted(str(c) for c in classes)}; ends with raise: {ends}", node=h)
    sc = ctx.repo.func("connection", "APIConnection._connect_socket_connect")
    rs = [n for n in own_nodes(sc.node) if isinstance(n, ast.Raise)]
    classes = {raised_class(ctx, sc, r) for r in rs if not (isinstance(r.exc, ast.Name))}
    ctx.ob("C09.R2", sc, "TCP failure -> TimeoutAPIError / SocketAPIError", {"TimeoutAPIError", "SocketAPIError"} <= classes and all(c is not None and ctx.repo.is_subclass(c, "APIConnectionError") or c == "ConnectionInterruptedError" for c in classes), f"raises {sorted(str(c) for c in classes)}")
    tmo = [i for i in own_nodes(sc.node) if isinstance(i, ast.If) and isinstance(i.test, ast.Call) and norm(i.test.func) == "isinstance" and "TimeoutError" in norm(i.test.args[1]) and any(isinstance(s, ast.Raise) and raised_class(ctx, sc, s) == "TimeoutAPIError" for s in i.body)]
    ctx.ob("C09.R2", sc, "timeout of the last attempt is reported as TimeoutAPIError", len(tmo) == 1, "")
    # every raise statement in connection.py raises a package error (or re-raises / a guard RuntimeError)
    n_r = 0
    for fn in ctx.repo.funcs_in("connection"):
        for r in [n for n in own_nodes(fn.node) if isinstance(n, ast.Raise)]:
            if r.exc is None:
                continue
            n_r += 1
            cls = raised_class(ctx, fn, r)
            if cls is None:
                # raise <value>: a caught error, the wrapper's result, the recorded timeout
                ok = isinstance(r.exc, (ast.Name, ast.Call)) and (isinstance(r.exc, ast.Name) or any(f.key.endswith("_wrap_fatal_connection_exception") for f in res.callees(fn, r.exc).funcs))
                ctx.ob("C09.R2", fn, r, ok, "raises a value of unknown class")
                continue
            ok = (
                ctx.repo.is_subclass(cls, "APIConnectionError")
                or cls == "ConnectionInterruptedError"  # converted by the phase wrapper
                or (cls == "RuntimeError" and fn.qualname in ("APIConnection.start_connection", "APIConnection.finish_connection"))  # misuse guard, not a failure
                or caught_locally(fn, r)
            )
            ctx.ob("C09.R2", fn, r, ok, f"raises {cls}, which is outside the connection-error hierarchy")
    ctx.count("C09.R2", n_r, 15, "raise statements in connection.py")
    # the interruption sentinel is not itself a connection error: the phase wrapper returns connection errors as they
    # are, and only classifies what is NOT one by the recorded fatal cause ("first cause wins")
    ctx.ob("C09.R2", "connection:ConnectionInterruptedError", "the interruption sentinel is outside the connection-error hierarchy", "ConnectionInterruptedError" in ctx.repo.classes and not ctx.repo.is_subclass("ConnectionInterruptedError", "APIConnectionError"), f"bases {ctx.repo.classes['ConnectionInterruptedError'].base_names if 'ConnectionInterruptedError' in ctx.repo.classes else None}: the wrapper would hand the bare sentinel to the waiter instead of the first fatal cause")
    # (d) the closer wraps foreign causes before failing waiters
    closer = roles.closer
    se = [c for c in own_nodes(closer.node) if isinstance(c, ast.Call) and isinstance(c.func, ast.Attribute) and c.func.attr == "set_exception"]
    ctx.require(len(se) >= 1, "closer no longer fails waiters")
    for c in se:
        arg = c.args[0] if c.args else None
        ok = False
        why = f"argument {norm(arg)}"
        if isinstance(arg, ast.Name):
            gcl = cfg_of(ctx, closer)
            # on the path where the cause is NOT an APIConnectionError, the argument was re-bound to a package error
            def classify(n: Node):
                t = n.ast
                if isinstance(t, ast.Call) and norm(t.func) == "isinstance" and len(t.args) == 2 and is_conn_error(ctx, closer.module.name, t.args[1]):
                    return ("cause_is_api_error", True)
                return None
            rebinding = [n for n in gcl.reachable() if n.kind == "stmt" and isinstance(n.ast, ast.Assign) and any(isinstance(t, ast.Name) and t.id == arg.id for t in n.ast.targets) and isinstance(n.ast.value, ast.Call) and is_conn_error(ctx, closer.module.name, n.ast.value.func)]
            target = [n for n in gcl.reachable() if n.ast is not None and n.kind == "stmt" and any(x is c for x in walk_own(n.ast))]
            if target:
                # (a site that only the "cause is already a connection error" branch reaches needs no re-binding)
                reach = walk(gcl, {"cause_is_api_error": False}, classify, blocked=set(rebinding))
                ok = not (reach & set(target))
                why = "a foreign cause reaches the waiter un-wrapped" if not ok else ""
        ctx.ob("C09.R2", closer, "waiters receive an APIConnectionError (foreign causes wrapped)", ok, why, node=c)
    src = [n for n in own_nodes(closer.node) if isinstance(n, ast.Assign) and isinstance(n.value, ast.BoolOp) and isinstance(n.value.op, ast.Or)]
    ok = any(isinstance(a.value.values[0], ast.Attribute) and a.value.values[0].attr == "_fatal_exception" and isinstance(a.value.values[-1], ast.Call) and is_conn_error(ctx, closer.module.name, a.value.values[-1].func) for a in src)
    ctx.ob("C09.R2", closer, "waiters get the recorded fatal cause, else a generic APIConnectionError", ok, "expected `<cause> = self._fatal_exception or APIConnectionError(...)`")
    # (e) write failures
    sm = ctx.repo.func("connection", "APIConnection.send_messages")
    hs = [n for n in own_nodes(sm.node) if isinstance(n, ast.ExceptHandler)]
    ctx.require(len(hs) == 1, "send_messages: write-failure handler not found")
    h = hs[0]
    tv = ctx.sym.eval(h.type, sm.module.name) if h.type is not None else None
    names = {getattr(x, "name", None) for x in (tv if isinstance(tv, tuple) else (tv,))}
    ctx.ob("C09.R2", sm, "write-failure handler covers RuntimeError, ConnectionResetError, OSError", {"RuntimeError", "ConnectionResetError", "OSError"} <= names or "Exception" in names, f"catches {sorted(str(n) for n in names)}")
    g = cfg_of(ctx, sm)
    hn = [n for n in g.reachable() if n.kind == "handler" and n.ast is h][0]
    rep = ctx.repo.func("connection", "APIConnection.report_fatal_error")
    facts = occurred_before(g, lambda n: ["reported"] if any(rep in res.callees(sm, c).funcs for c in node_calls(n)) else [])
    raises = [n for n in g.reachable() if isinstance(n.ast, ast.Raise) and n.in_handler and n.ast in [x for b in h.body for x in ast.walk(b)]]
    ctx.ob("C09.R2", sm, "write failure is reported (closes the connection) before it is re-raised", bool(raises) and all("reported" in facts.get(n, frozenset()) for n in raises), "")
    wrapped = [n for b in h.body for n in ast.walk(b) if isinstance(n, ast.Assign) and isinstance(n.value, ast.Call) and raised_cls_name(ctx, sm, n.value.func) == "SocketClosedAPIError"]
    ctx.ob("C09.R2", sm, "write failure is wrapped as SocketClosedAPIError", len(wrapped) == 1 and all(isinstance(r.ast.exc, ast.Name) and r.ast.exc.id == wrapped[0].targets[0].id for r in raises), "")
    falls = [n for l, n in [(l, s) for x in g.reachable() if x.in_handler and x.ast in [y for b in h.body for y in ast.walk(b)] for l, s in x.succ] if n is g.exit]
    ctx.ob("C09.R2", sm, "write-failure handler always raises", not falls, "the handler can fall through and report success")
    write_path_unconverted(ctx, "C09.R2")
    error_construction_is_total(ctx)
    cleanup_after_await_is_guarded(ctx, "C09.R2")
    locals_bound_on_every_path(ctx, "C09.R2")
    classified_errors_not_degraded(ctx, "C09.R2")


def cleanup_after_await_is_guarded(ctx: Ctx, rule: str) -> None:
    """While a coroutine is suspended the connection may be torn down and the attributes that hold it reset to None.
    The clean-up of a `try` whose body awaits (its `finally` and `except` blocks) therefore reaches through an
    attribute declared Optional only under a test of that attribute in the same block - otherwise the raw
    AttributeError replaces the classified error that was on its way to the caller."""
    from ..totality import _guards, optional_attrs

    n_blocks = 0
    all_bad: list[str] = []
    for f in ctx.repo.all_funcs():
        if f.cls is None or not f.is_async:
            continue
        opt = optional_attrs(ctx, f.cls.name)
        if not opt:
            continue
        bad: list[str] = []
        for t in own_nodes(f.node):
            if not isinstance(t, ast.Try) or not any(isinstance(x, ast.Await) for b in t.body for x in ast.walk(b)):
                continue
            for blk in [t.finalbody] + [h.body for h in t.handlers]:
                if not blk:
                    continue
                n_blocks += 1
                g = _guards(ast.Module(body=blk, type_ignores=[]))
                for st in blk:
                    for x in ast.walk(st):
                        if isinstance(x, ast.Attribute) and isinstance(x.ctx, ast.Load) and isinstance(x.value, ast.Attribute) and norm(x.value.value) == "self" and x.value.attr in opt and not g.get(norm(x.value)):
                            bad.append(f"{f.qualname} L{x.lineno} {norm(x)[:50]}")
        if bad:
            ctx.ob(rule, f, f"{f.qualname}: clean-up after an await tests an Optional attribute before reaching through it", False, f"{bad[:3]}: when the connection went away while the coroutine was suspended this raises a raw AttributeError in place of the classified error")
        all_bad += bad
    ctx.ob(rule, "client:APIClient", f"clean-up blocks that follow an await reach through Optional attributes only under a test ({n_blocks} blocks)", not all_bad, f"{all_bad[:3]}")
    ctx.count(rule + ".cleanup_blocks", n_blocks, 6, "finally/except blocks of awaiting try statements in classes with Optional attributes")


def classified_errors_not_degraded(ctx: Ctx, rule: str) -> None:
    """A handler that names a class of the connection-error hierarchy has a classified error in its hands: it may
    handle it or re-raise it, not replace it by a newly built error (the subclass - invalid key, bad name, invalid
    password - is what callers and the reconnect manager branch on)."""
    n = 0
    bad: list[str] = []
    for f in ctx.repo.all_funcs():
        for t in own_nodes(f.node):
            if not isinstance(t, ast.Try):
                continue
            for h in t.handlers:
                if h.type is None:
                    continue
                ts = [norm(e).split(".")[-1] for e in (h.type.elts if isinstance(h.type, ast.Tuple) else [h.type])]
                api = [x for x in ts if ctx.repo.is_subclass(x, "APIConnectionError")]
                if not api:
                    continue
                n += 1
                for b in h.body:
                    for r in walk_own(b):
                        if isinstance(r, ast.Raise) and isinstance(r.exc, ast.Call):
                            bad.append(f"{f.qualname} L{r.lineno} except {'/'.join(api)}: {norm(r)[:50]}")
    ctx.ob(rule, "connection:APIConnection", f"no handler of a classified connection error replaces it by a newly built one ({n} handlers)", not bad, f"{bad[:3]}: the subclass of the error that was caught (invalid encryption key, bad name, ...) is lost to the caller")
    ctx.count(rule + ".api_handlers", n, 3, "handlers naming a class of the connection-error hierarchy")


# The one place the path-insensitive definite-assignment analysis cannot decide, read and confirmed: in
# process_packet the message class is bound by the table look-up inside the `try`; it is used in the handler of that
# try, which is only reached with the class unbound when the look-up itself raised - the IndexError with which the
# handler returns before those uses (C12 checks that branch).  The exemption is by shape, not by name: a name whose
# only binding in that function is `name = <table>[...]` in a try body, used in a handler of the same try.
UNBOUND_EXEMPT_FUNCS = {"connection:APIConnection.process_packet"}


def _lookup_bound_in_try(f: Func, name: str, line: int) -> bool:
    binds = [n for n in own_nodes(f.node) if isinstance(n, (ast.Assign, ast.AnnAssign, ast.AugAssign, ast.NamedExpr, ast.For, ast.With)) and any(isinstance(x, ast.Name) and isinstance(x.ctx, ast.Store) and x.id == name for x in ast.walk(n.target if isinstance(n, (ast.AnnAssign, ast.AugAssign, ast.NamedExpr, ast.For)) else n) if not isinstance(n, ast.With))]
    binds = [b for b in binds if not isinstance(b, (ast.For, ast.With)) or any(isinstance(x, ast.Name) and x.id == name for x in ast.walk(b.target if isinstance(b, ast.For) else b))]
    if len(binds) != 1 or not isinstance(binds[0], ast.Assign) or not isinstance(binds[0].value, ast.Subscript):
        return False
    for t in own_nodes(f.node):
        if isinstance(t, ast.Try) and any(binds[0] is x for b in t.body for x in ast.walk(b)):
            # (by containment, not by line range: statements inlined from a helper keep the helper's line numbers)
            return any(isinstance(x, ast.Name) and x.id == name and isinstance(x.ctx, ast.Load) and getattr(x, "lineno", -1) == line for h in t.handlers for b in h.body for x in ast.walk(b))
    return False


def locals_bound_on_every_path(ctx: Ctx, rule: str) -> None:
    """No path through a function of the package reaches a use of a local name it has not bound: the
    UnboundLocalError would reach the caller raw, in place of the classified error or of the result."""
    from ..totality import maybe_unbound

    n = 0
    bad: list[str] = []
    exempted = 0
    for f in ctx.repo.all_funcs():
        n += 1
        for d in maybe_unbound(ctx, f):
            name = d.split("`")[1]
            line = int(d.split(" ")[0][1:])
            if f.key in UNBOUND_EXEMPT_FUNCS and _lookup_bound_in_try(f, name, line):
                exempted += 1
                continue
            bad.append(f"{f.qualname} {d}")
            ctx.ob(rule, f, f"{f.qualname}: every local name is bound on every path that uses it", False, f"{d}: that path ends with a raw UnboundLocalError")
    ctx.ob(rule, "connection:APIConnection", f"every local name is bound on every path that uses it ({n} functions; {exempted} uses exempted by the confirmed shape in process_packet)", not bad, f"{bad[:3]}")
    ctx.count(rule + ".functions", n, 200, "functions of the package analysed for definite assignment")


def error_construction_is_total(ctx: Ctx) -> None:
    """Building a library error must not itself fail (the raw IndexError / KeyError would reach the waiter in place of
    the classified error): the constructors of the connection-error classes and the package helpers called from them,
    or inside the argument of such a constructor call anywhere in the package, contain no lookup that can raise
    (a subscript with a non-constant index) and no raise."""
    res = resolver(ctx)
    funcs: dict[str, Func] = {}
    for ci in ctx.repo.classes.values():
        if ctx.repo.is_subclass(ci.name, "APIConnectionError") and "__init__" in ci.methods:
            funcs[ci.methods["__init__"].key] = ci.methods["__init__"]
    n_sites = 0
    for fn in ctx.repo.all_funcs():
        for c in own_nodes(fn.node):
            if isinstance(c, ast.Call) and is_conn_error(ctx, fn.module.name, c.func):
                n_sites += 1
                for a in list(c.args) + [k.value for k in c.keywords]:
                    for x in ast.walk(a):
                        if isinstance(x, ast.Call):
                            for f in res.callees(fn, x).funcs:
                                if f.cls is None:
                                    funcs[f.key] = f
    todo = list(funcs.values())
    while todo:
        f = todo.pop()
        for x in own_nodes(f.node):
            if isinstance(x, ast.Call):
                for g_ in res.callees(f, x).funcs:
                    if g_.key not in funcs and g_.cls is None and g_.module.name == "core":
                        funcs[g_.key] = g_
                        todo.append(g_)
    ctx.count("C09.R2.errsites", n_sites, 40, "constructor calls of connection-error classes")
    for f in sorted(funcs.values(), key=lambda q: q.key):
        bad = []
        ann = {id(y) for a in ([f.node.args] + ([f.node.returns] if f.node.returns is not None else [])) for y in ast.walk(a)}
        ann |= {id(y) for st in own_nodes(f.node) if isinstance(st, ast.AnnAssign) for y in ast.walk(st.annotation)}
        for x in own_nodes(f.node):
            if id(x) in ann:
                continue
            if isinstance(x, ast.Subscript) and isinstance(x.ctx, ast.Load) and not isinstance(x.slice, (ast.Constant, ast.Slice)):
                bad.append(f"L{x.lineno} {norm(x)[:40]} can raise IndexError/KeyError")
            if isinstance(x, ast.Raise):
                bad.append(f"L{x.lineno} raises")
        ctx.ob("C09.R2", f, "building a connection error cannot fail (no raising lookup)", not bad, f"{bad[:3]}: the waiter would see that raw error in place of the classified one")


def write_path_unconverted(ctx: Ctx, rule: str) -> None:
    """A transport write error has to arrive at send_messages' handler (the one that reports the fatal error and so
    closes the connection) as a class that handler catches: below it nothing converts the error into another class
    or swallows it, and what the write path raises itself is covered too."""
    import builtins

    res = resolver(ctx)
    sm = ctx.repo.func("connection", "APIConnection.send_messages")
    hs = [n for n in own_nodes(sm.node) if isinstance(n, ast.ExceptHandler)]
    tries = [t for t in own_nodes(sm.node) if isinstance(t, ast.Try)]
    ctx.require(len(hs) == 1 and len(tries) == 1, "send_messages: write-failure handler not found")
    tv = ctx.sym.eval(hs[0].type, sm.module.name) if hs[0].type is not None else None
    caught = [getattr(x, "name", None) for x in (tv if isinstance(tv, tuple) else (tv,))]
    caught_b = tuple(getattr(builtins, c) for c in caught if isinstance(c, str) and isinstance(getattr(builtins, c, None), type))

    def covered(cls_name: str) -> bool:
        seen: set[str] = set()
        todo = [cls_name]
        while todo:
            k = todo.pop()
            if k in seen:
                continue
            seen.add(k)
            if k in caught:
                return True
            b = getattr(builtins, k, None)
            if isinstance(b, type) and caught_b and issubclass(b, caught_b):
                return True
            if k in ctx.repo.classes:
                todo += [x.split(".")[-1] for x in ctx.repo.classes[k].base_names]
        return False

    path: list[Func] = []
    todo_f = [f for t in tries for b in t.body for c in ast.walk(b) if isinstance(c, ast.Call) for f in res.callees(sm, c).funcs if f.module.name.startswith("_frame_helper")]
    while todo_f:
        f = todo_f.pop()
        if f in path or len(path) > 12:
            continue
        path.append(f)
        for c in own_nodes(f.node):
            if isinstance(c, ast.Call):
                todo_f += [x for x in res.callees(f, c).funcs if x.module.name.startswith("_frame_helper") and not x.name.startswith("__")]
    ctx.require(len(path) >= 3, f"write path below send_messages not found: {[f.qualname for f in path]}")
    problems = []
    for f in path:
        for n in own_nodes(f.node):
            if isinstance(n, ast.Raise) and n.exc is not None:
                e = n.exc.func if isinstance(n.exc, ast.Call) else n.exc
                nm = norm(e).split(".")[-1]
                in_handler = any(n in set(ast.walk(h)) for t in own_nodes(f.node) if isinstance(t, ast.Try) for h in t.handlers)
                if isinstance(e, ast.Name) and e.id in {h.name for t in own_nodes(f.node) if isinstance(t, ast.Try) for h in t.handlers if h.name}:
                    continue  # `raise err` of the caught exception itself
                if not covered(nm):
                    problems.append(f"{f.qualname} L{n.lineno}: raises {nm}{' in place of the transport error' if in_handler else ''}")
            if isinstance(n, ast.Try):
                for h in n.handlers:
                    if not any(isinstance(x, ast.Raise) for x in ast.walk(h)):
                        problems.append(f"{f.qualname} L{h.lineno}: except {norm(h.type) if h.type is not None else ''} swallows the error")
    ctx.ob(rule, sm, f"a write failure reaches the reporting handler as a class it catches ({len(path)} functions on the write path)", not problems, f"{problems[:3]}; the handler catches {caught}: the failure would escape send_messages without closing the connection")


def raised_cls_name(ctx: Ctx, fn: Func, e: ast.expr) -> str | None:
    v = ctx.sym.eval(e, fn.module.name)
    return v.name if isinstance(v, Ref) and v.kind == "class" else None


# ----------------------------------------------------------------------- R3
def r3(ctx: Ctx, roles) -> None:
    res = resolver(ctx)
    init = roles.conn.methods["__init__"]
    writers = []
    for fn in ctx.repo.all_funcs():
        for st, tgt, val in attr_writes(fn, "_fatal_exception"):
            writers.append((fn, st, val))
    ctx.count("C09.R3", len(writers), 2, "writes of the fatal cause")
    setters = [w for w in writers if w[0].key != init.key]
    ctx.ob("C09.R3", "connection:APIConnection", "single writer of the fatal cause", len({w[0].key for w in setters}) == 1 and len(setters) == 1, f"writers: {sorted({w[0].key for w in setters})}")
    for fn, st, val in writers:
        if fn.key == init.key:
            ctx.ob("C09.R3", fn, st, is_none(val), "the fatal cause must start unset")
    if len(setters) != 1:
        return
    sfn, sst, sval = setters[0]
    g = cfg_of(ctx, sfn)

    def classify(n: Node):
        t = n.ast
        if isinstance(t, ast.Compare) and len(t.ops) == 1 and isinstance(t.left, ast.Attribute) and t.left.attr == "_fatal_exception" and is_none(t.comparators[0]):
            return ("unset", isinstance(t.ops[0], (ast.Is, ast.Eq)))
        if isinstance(t, ast.Attribute) and t.attr == "_fatal_exception":
            return ("unset", False)
        return None

    nodes = [n for n in g.reachable() if n.ast is sst]
    tab = truth_table(g, ["unset"], classify, nodes)
    ctx.ob("C09.R3", sfn, "the fatal cause is written only while unset, and then always", tab[(True,)] == (True, True) and tab[(False,)][0] is False, fmt_table(["unset"], tab), node=sst)
    ctx.ob("C09.R3", sfn, "the written value is the reported error", isinstance(sval, ast.Name) and sval.id in sfn.param_names(), f"writes {norm(sval)}")
    # report_fatal_error records before it closes
    rep = ctx.repo.func("connection", "APIConnection.report_fatal_error")
    gr = cfg_of(ctx, rep)

    def sets(n: Node) -> bool:
        return any(sfn in res.callees(rep, c).funcs for c in node_calls(n)) or (n.kind == "stmt" and isinstance(n.ast, ast.Assign) and any(isinstance(t, ast.Attribute) and t.attr == "_fatal_exception" for t in n.ast.targets))

    closes = [n for n in gr.reachable() if any(roles.closer in res.callees(rep, c).funcs for c in node_calls(n))]
    ctx.ob("C09.R3", rep, "report_fatal_error closes the connection on every path", bool(closes) and gr.exit not in walk(gr, {}, lambda n: None, blocked=set(closes)), "")
    # with the cause unset, every path to the closer passes the recording
    reach = walk(gr, {"unset": True}, classify, blocked={n for n in gr.reachable() if sets(n)})
    ctx.ob("C09.R3", rep, "first cause recorded before the closer runs", not (reach & set(closes)), "waiters would be failed with a generic error instead of the first cause")
    # the recorded value is the parameter
    for c in [x for x in own_nodes(rep.node) if isinstance(x, ast.Call) and sfn in res.callees(rep, x).funcs]:
        a = list(res.bind_args(sfn, c).values())
        ctx.ob("C09.R3", rep, "records the reported error itself", len(a) == 1 and isinstance(a[0], ast.Name) and a[0].id in rep.param_names(), f"{[norm(x) for x in a]}")
    # readers
    readers = {fn.qualname for fn in ctx.repo.funcs_in("connection") for n in own_nodes(fn.node) if isinstance(n, ast.Attribute) and n.attr == "_fatal_exception" and isinstance(n.ctx, ast.Load)}
    # ... and in the closer the connect-phase interrupt is triggered before the frame helper is closed: closing the
    # helper fails a pending readiness wait with a generic "connection closed"; wake-ups run in FIFO order (M2), so
    # whichever is queued first decides whether the connecting task sees the recorded cause or the generic error
    from ..futures import completion_sites

    closer = roles.closer
    gcl = cfg_of(ctx, closer)

    def interrupts(fn, depth=0) -> bool:
        return any("connect_future" in norm(c.func.value) for c in completion_sites(fn))

    helper_close = []
    intr = []
    for n in gcl.reachable():
        for c in node_calls(n):
            fs = res.callees(closer, c).funcs
            if any(f.cls is not None and f.cls.name in ("APIFrameHelper", "APINoiseFrameHelper", "APIPlaintextFrameHelper") and f.name == "close" for f in fs):
                helper_close.append(n)
            if any(f.cls is roles.conn and interrupts(f) for f in fs) or ("connect_future" in norm(c.func) and isinstance(c.func, ast.Attribute) and c.func.attr in ("set_result", "set_exception")):
                intr.append(n)
    evi = occurred_before(gcl, lambda n: ["interrupt"] * (n in intr))
    n_intr = len({id(n.ast) for n in intr})
    ctx.ob("C09.R3", closer, "the closer interrupts the connect phases before it closes the frame helper", bool(helper_close) and n_intr >= 2 and all("interrupt" in evi.get(n, frozenset()) for n in helper_close) and not [n for n in intr if any(h.ast is not None and _before(gcl, h, n) for h in helper_close)], f"{n_intr} interrupt site(s), {len(helper_close)} helper close site(s): closing the helper first queues the generic 'connection closed' of the readiness wait ahead of the interrupt - the connecting task reports that instead of the recorded first cause")
    # first cause also means: a framing error already visible in the buffered bytes is recorded when those
    # bytes are processed, not after the socket error that follows (requires-encryption must not be masked)
    from .c04 import preamble_before_giveup

    pdr = ctx.repo.func("_frame_helper.plain_text", "APIPlaintextFrameHelper.data_received")
    early = preamble_before_giveup(ctx, pdr)
    ctx.ob("C09.R3", pdr, "a wrong framing marker is reported as soon as its byte is buffered (before any give-up return)", not early, f"return at {early[:2]} precedes the preamble test: the EOF/reset that follows becomes the recorded first cause")
    ctx.ob("C09.R3", "connection:APIConnection", "closer and wrapper read the recorded cause", {roles.closer.qualname, "APIConnection._wrap_fatal_connection_exception"} <= readers, f"readers: {sorted(readers)}")


def _before(g, a, b) -> bool:
    """Node a can be executed before node b on some normal path (b reachable from a)."""
    seen = {a}
    todo = [a]
    while todo:
        n = todo.pop()
        for l, s_ in n.succ:
            if l == "exc" or s_ in seen:
                continue
            if s_ is b:
                return True
            seen.add(s_)
            todo.append(s_)
    return False

