"""C16 - Bluetooth operations are matched by address and handle and never cross-talk."""

from __future__ import annotations

import ast
from typing import Any

from ..cfg import Node, cfg_of, node_calls, walk_own
from ..closed import resolver
from ..effects import effects
from ..flow import const_flag_step, disjunctive, occurred_before
from ..guard import walk,  fmt_table, lambda_table, return_table, truth_table
from ..report import Ctx
from ..src import AnalysisError, Func, norm, own_nodes
from ..sym import Ref, Unknown

EXPLANATION = (
    "Static rules on the Bluetooth paths. R1: every filter/callback of client_callbacks.py used by BLE operations is turned "
    "into a truth table over {address equal, handle equal, connection-state message / type in set, future done}: effects and "
    "True returns occur exactly when the callback's own bound address (and, for handle-scoped messages other than "
    "connection-state changes, handle) equal the message's same-named fields. R2: every handle-scoped wait subscribes its "
    "response type plus the GATT error and connection-state types, filters with its own (address, handle), and raises "
    "BluetoothGATTAPIError / BluetoothConnectionDroppedError before returning; likewise the service listing and the "
    "device-request waits. R3: on connect timeout the order unsubscribe -> disconnect request for the same address -> raise "
    "TimeoutAPIError holds on every path (must-dataflow). R4: a disjunctive exit analysis (flag idiom tracked) shows that "
    "every exit of the connect/notify operations other than success has called the remover and the success exit returns it. "
    "Concurrency isolation as observable behaviour over all interleavings is not decided."
    ' Also: the Bluetooth message callbacks contain no expression that can raise by itself; operations are not serialised behind a lock.'
)
ASSUMPTIONS = ["C11 (the request machinery releases its own handler and waiter)", "cancellation (BaseException) is outside the property's quantifier"]


def fold_types(ctx: Ctx, fn: Func, e: ast.expr, depth: int = 0) -> list[str] | None:
    """Names of the api_pb2 classes / parameters an expression of message types denotes."""
    if depth > 5:
        return None
    if isinstance(e, ast.Tuple):
        out: list[str] = []
        for el in e.elts:
            if isinstance(el, ast.Starred):
                sub = fold_types(ctx, fn, el.value, depth + 1)
                if sub is None:
                    return None
                out += sub
            else:
                sub = fold_types(ctx, fn, el, depth + 1)
                if sub is None:
                    return None
                out += sub
        return out
    if isinstance(e, ast.BinOp) and isinstance(e.op, ast.Add):
        a, b = fold_types(ctx, fn, e.left, depth + 1), fold_types(ctx, fn, e.right, depth + 1)
        return None if a is None or b is None else a + b
    if isinstance(e, ast.Call) and isinstance(e.func, ast.Name) and e.func.id == "tuple" and len(e.args) == 1 and not e.keywords:
        return fold_types(ctx, fn, e.args[0], depth + 1)
    if isinstance(e, ast.Name):
        if e.id in fn.param_names():
            return [f"<{e.id}>"]
        assigns = [n for n in own_nodes(fn.node) if isinstance(n, ast.Assign) and any(isinstance(t, ast.Name) and t.id == e.id for t in n.targets)]
        if len(assigns) == 1:
            return fold_types(ctx, fn, assigns[0].value, depth + 1)
        v = ctx.sym.resolve_name(fn.module.name, e.id)
        if isinstance(v, Ref) and v.kind == "pb":
            return [v.name]
        if isinstance(v, tuple) and all(isinstance(x, Ref) for x in v):
            return [x.name for x in v]
    return None


def run(ctx: Ctx) -> None:
    res = resolver(ctx)
    eff = effects(ctx)
    client = ctx.repo.cls("APIClient")
    cb = "client_callbacks"
    # a library callback that raises on some message takes the whole connection down (every operation in flight, on
    # every address, fails with it): the Bluetooth callbacks evaluate nothing that can raise by itself
    from ..totality import risky

    n_cb = 0
    for f_ in ctx.repo.funcs_in(cb):
        if "bluetooth" not in f_.name or f_.parent is not None:
            continue
        n_cb += 1
        rk = risky(ctx, res, f_, f_.node.body)
        ctx.ob("C16.R1", f_, f"{f_.name} cannot raise by itself on any message", not rk, f"{rk[:3]}: a message that makes it raise (an unlisted error code, say) tears down the connection and with it the operations of all other peripherals")
    ctx.count("C16.R1.callbacks", n_cb, 4, "Bluetooth message callbacks")
    # the Bluetooth operations of the client end with the outcome they computed: no path reaches a use of a local
    # name that it has not bound (the UnboundLocalError would replace the timeout / the result)
    from ..totality import maybe_unbound

    n_bt = 0
    for f_ in ctx.repo.funcs_in("client"):
        if f_.cls is not client or "bluetooth" not in f_.qualname:
            continue
        n_bt += 1
        ub = maybe_unbound(ctx, f_)
        ctx.ob("C16.R1", f_, f"{f_.qualname.split('.', 1)[-1]}: every local name is bound on every path that uses it", not ub, f"{ub[:3]}: that path ends with UnboundLocalError instead of the outcome of the operation (after a connect timeout: instead of the timeout error)")
    ctx.count("C16.R1.bluetooth_functions", n_bt, 12, "Bluetooth functions of the client")
    # operations on different handles / addresses run side by side: the client does not queue them behind each other
    # (a lock or semaphore around the request would delay an operation by another one's, and lose a response that
    # arrives before its request was even subscribed)
    serial = []
    for f_ in ctx.repo.all_funcs():
        if f_.cls is not client or "bluetooth" not in f_.name:
            continue
        for n in own_nodes(f_.node):
            if isinstance(n, ast.AsyncWith):
                for it in n.items:
                    t = norm(it.context_expr)
                    if not any(k in t for k in ("timeout", "interrupt")):
                        serial.append(f"{f_.qualname} L{n.lineno}: async with {t[:40]}")
            if isinstance(n, ast.Await) and isinstance(n.value, ast.Call) and isinstance(n.value.func, ast.Attribute) and n.value.func.attr in ("acquire", "wait"):
                serial.append(f"{f_.qualname} L{n.lineno}: await {norm(n.value)[:40]}")
    ctx.ob("C16.R2", "client:APIClient", "Bluetooth operations are not serialised behind a lock / semaphore / event", not serial, f"{serial[:3]}")

    # ------------------------------------------------------------------ R1
    def eq_atom(t: ast.AST, field: str, bound: str) -> bool | None:
        if isinstance(t, ast.Compare) and len(t.ops) == 1 and isinstance(t.ops[0], (ast.Eq, ast.NotEq)):
            names = {norm(t.left), norm(t.comparators[0])}
            if names == {bound, f"msg.{field}"}:
                return isinstance(t.ops[0], ast.Eq)
        return None

    def make_classify(fn: Func, msgp: str, addr: str | None, handle: str | None, fut: str | None = None, types: str | None = None):
        def classify(n: Node):
            t = n.ast
            if t is None:
                return None
            tt = t
            if isinstance(tt, ast.Call) and norm(tt.func) == "bool" and len(tt.args) == 1:
                tt = tt.args[0]
            if isinstance(tt, ast.Compare) and len(tt.ops) == 1:
                names = {norm(tt.left), norm(tt.comparators[0])}
                eq = isinstance(tt.ops[0], (ast.Eq, ast.Is))
                ne = isinstance(tt.ops[0], (ast.NotEq, ast.IsNot))
                if addr and names == {addr, f"{msgp}.address"} and (eq or ne):
                    return ("addr_eq", eq)
                if handle and names == {handle, f"{msgp}.handle"} and (eq or ne):
                    return ("handle_eq", eq)
                if norm(tt.left) == f"type({msgp})" and isinstance(tt.ops[0], (ast.Is, ast.IsNot, ast.Eq, ast.NotEq)):
                    v = ctx.sym.eval(tt.comparators[0], fn.module.name)
                    if isinstance(v, Ref) and v.name == "BluetoothDeviceConnectionResponse":
                        return ("conn_msg", eq)
                if types and norm(tt.left) == f"type({msgp})" and isinstance(tt.ops[0], (ast.In, ast.NotIn)) and norm(tt.comparators[0]) == types:
                    return ("type_in", isinstance(tt.ops[0], ast.In))
            if isinstance(tt, ast.Call) and isinstance(tt.func, ast.Attribute) and tt.func.attr == "done" and fut and norm(tt.func.value) == fut:
                return ("done", True)
            if isinstance(tt, ast.Attribute) and norm(tt) == f"{msgp}.connected":
                return ("connected", True)
            return None

        return classify

    # notify data
    fn = ctx.repo.func(cb, "on_bluetooth_gatt_notify_data_response")
    ps = fn.param_names()
    ctx.require(len(ps) == 4, "on_bluetooth_gatt_notify_data_response signature changed")
    g = cfg_of(ctx, fn)
    calls = [n for n in g.reachable() if any(isinstance(c.func, ast.Name) and c.func.id == ps[2] for c in node_calls(n))]
    tab = truth_table(g, ["addr_eq", "handle_eq"], make_classify(fn, ps[3], ps[0], ps[1]), calls)
    ok = all(tab[k] == ((k == (True, True)), (k == (True, True))) for k in tab)
    ctx.ob("C16.R1", fn, "notification delivered iff address and handle both match", ok and len(calls) == 1, fmt_table(["addr_eq", "handle_eq"], tab))
    c = [c for n in calls for c in node_calls(n) if isinstance(c.func, ast.Name) and c.func.id == ps[2]]
    if c:
        ctx.ob("C16.R1", fn, "notification carries its handle and the message's data", [norm(a) for a in c[0].args] in ([ps[1], f"bytearray({ps[3]}.data)"], [f"{ps[3]}.handle", f"bytearray({ps[3]}.data)"]), f"{[norm(a) for a in c[0].args]}")
    # device connection response
    fn = ctx.repo.func(cb, "on_bluetooth_device_connection_response")
    ps = fn.param_names()
    ctx.require(len(ps) == 4, "on_bluetooth_device_connection_response signature changed")
    g = cfg_of(ctx, fn)
    cl = make_classify(fn, ps[3], ps[1], None, fut=ps[0])
    calls = [n for n in g.reachable() if any(isinstance(c.func, ast.Name) and c.func.id == ps[2] for c in node_calls(n))]
    sets = [n for n in g.reachable() if any(isinstance(c.func, ast.Attribute) and c.func.attr == "set_result" and norm(c.func.value) == ps[0] for c in node_calls(n))]
    tab = truth_table(g, ["addr_eq"], cl, calls)
    ctx.ob("C16.R1", fn, "connection-state callback iff the address matches", tab[(True,)] == (True, True) and tab[(False,)][0] is False and len(calls) == 1, fmt_table(["addr_eq"], tab))
    tab = truth_table(g, ["addr_eq", "done"], cl, sets)
    ok = all(tab[k] == ((k == (True, False)), (k == (True, False))) for k in tab)
    ctx.ob("C16.R1", fn, "connect future resolved iff the address matches and it is still pending", ok and len(sets) == 1, fmt_table(["addr_eq", "done"], tab))
    c = [c for n in calls for c in node_calls(n) if isinstance(c.func, ast.Name) and c.func.id == ps[2]]
    if c:
        m = ps[3]
        ctx.ob("C16.R1", fn, "callback receives the message's own (connected, mtu, error)", [norm(a) for a in c[0].args] == [f"{m}.connected", f"{m}.mtu", f"{m}.error"], f"{[norm(a) for a in c[0].args]}")
    # handle filter
    fn = ctx.repo.func(cb, "on_bluetooth_handle_message")
    ps = fn.param_names()
    ctx.require(len(ps) == 3, "on_bluetooth_handle_message signature changed")
    g = cfg_of(ctx, fn)
    variables = ["conn_msg", "addr_eq", "handle_eq"]
    rt = return_table(g, variables, make_classify(fn, ps[2], ps[0], ps[1]))
    ok = all(rt[k] is (k[1] and (k[0] or k[2])) for k in rt)
    ctx.ob("C16.R1", fn, "handle filter: True iff address matches and (connection-state message or handle matches)", ok, " ".join(f"{''.join('T' if b else 'F' for b in k)}->{v}" for k, v in sorted(rt.items())))
    # type filter
    fn = ctx.repo.func(cb, "on_bluetooth_message_types")
    ps = fn.param_names()
    ctx.require(len(ps) == 3, "on_bluetooth_message_types signature changed")
    g = cfg_of(ctx, fn)
    variables = ["type_in", "addr_eq"]
    rt = return_table(g, variables, make_classify(fn, ps[2], ps[0], None, types=ps[1]))
    ok = all(rt[k] is (k[0] and k[1]) for k in rt)
    ctx.ob("C16.R1", fn, "type filter: True iff type is one of the given types and the address matches", ok, " ".join(f"{''.join('T' if b else 'F' for b in k)}->{v}" for k, v in sorted(rt.items())))
    # disconnect predicate (lambda)
    bd = client.methods["bluetooth_device_disconnect"]
    lams = [n for n in own_nodes(bd.node) if isinstance(n, ast.Lambda)]
    ctx.ob("C16.R1", bd, "one disconnect predicate", len(lams) == 1, f"{len(lams)}")
    if len(lams) == 1:
        lp = lams[0].args.args[0].arg
        cll = make_classify(bd, lp, "address", None)
        lt = lambda_table(lams[0], ["addr_eq", "connected"], cll)
        ok = all(lt[k] is (k[0] and not k[1]) for k in lt)
        ctx.ob("C16.R1", bd, "disconnect completes iff a not-connected state for its own address arrives", ok, " ".join(f"{''.join('T' if b else 'F' for b in k)}->{v}" for k, v in sorted(lt.items())))

    # ------------------------------------------------------------------ R2
    cx = ctx.repo.func("connection", "APIConnection.send_messages_await_response_complex")
    hmsg = ctx.repo.func(cb, "on_bluetooth_handle_message")
    tmsg = ctx.repo.func(cb, "on_bluetooth_message_types")

    def partial_of(fn: Func, e: ast.expr) -> tuple[Func | None, list[str]]:
        if isinstance(e, ast.Name):
            assigns = [n for n in own_nodes(fn.node) if isinstance(n, ast.Assign) and any(isinstance(t, ast.Name) and t.id == e.id for t in n.targets)]
            if len(assigns) == 1:
                e = assigns[0].value
        if isinstance(e, ast.Call) and norm(e.func).endswith("partial") and e.args:
            cv = res._callable_value(fn, e.args[0])
            if cv and len(cv.funcs) == 1:
                return cv.funcs[0], [norm(a) for a in e.args[1:]]
        return None, []

    sb = client.methods["_send_bluetooth_message_await_response"]
    calls_ = [c for c in own_nodes(sb.node) if isinstance(c, ast.Call) and cx in res.callees(sb, c).funcs]
    ctx.require(len(calls_) == 1, "_send_bluetooth_message_await_response: request call not unique")
    b = res.bind_args(cx, calls_[0])
    types = fold_types(ctx, sb, b["msg_types"])
    ctx.ob("C16.R2", sb, "handle-scoped wait subscribes response + GATT error + connection state", types is not None and sorted(types) == sorted(["<response_type>", "BluetoothGATTErrorResponse", "BluetoothDeviceConnectionResponse"]), f"{types}")
    for slot in ("do_append", "do_stop"):
        f, args = partial_of(sb, b[slot])
        ctx.ob("C16.R2", sb, f"{slot} is the handle filter bound to the operation's own address and handle", f is hmsg and args == ["address", "handle"], f"{f.key if f else None} {args}")
    ctx.ob("C16.R2", sb, "sends the caller's request and uses the caller's timeout", norm(b["messages"]) == "(request,)" and norm(b["timeout"]) == "timeout", f"{norm(b['messages'])} {norm(b['timeout'])}")
    g = cfg_of(ctx, sb)
    rets = [n for n in g.reachable() if isinstance(n.ast, ast.Return)]
    # the connection-change check: a method of the client or a function of its module (it uses no client state)
    rcc = client.methods.get("_raise_for_ble_connection_change") or ctx.repo.try_func("client", "_raise_for_ble_connection_change")
    ctx.require(rcc is not None, "the connection-change check (_raise_for_ble_connection_change) was not found")

    def evs(n: Node):
        out = []
        if isinstance(n.ast, ast.Raise) and isinstance(n.ast.exc, ast.Call) and norm(n.ast.exc.func) == "BluetoothGATTAPIError":
            out.append("gatt-raise")
        if any(rcc in res.callees(sb, c).funcs for c in node_calls(n)):
            out.append("conn-check")
        return out

    bf = occurred_before(g, evs)
    # (a response that is a connection-state message never reaches a return without the check; other responses may)
    respv = None
    for n in own_nodes(sb.node):
        if isinstance(n, ast.Assign) and any(c is calls_[0] for c in ast.walk(n.value)):
            for t in ast.walk(n.targets[0]):
                if isinstance(t, ast.Name):
                    respv = t.id
    chk_nodes = {n for n in g.reachable() if "conn-check" in evs(n)}
    free = walk(g, {"conn_msg": True}, make_classify(sb, respv or "resp", None, None), blocked=chk_nodes)
    unchecked = [n for n in free if isinstance(n.ast, ast.Return)]
    ctx.ob("C16.R2", sb, "connection-change check precedes the return", bool(rets) and bool(chk_nodes) and not unchecked, f"a connection-state message can be returned as the operation's result at L{[n.lineno for n in unchecked][:2]}")

    def cl_err(n: Node):
        t = n.ast
        if isinstance(t, ast.Compare) and norm(t.left).startswith("type(") and isinstance(t.ops[0], (ast.Is, ast.IsNot)):
            v = ctx.sym.eval(t.comparators[0], "client")
            if isinstance(v, Ref) and v.name == "BluetoothGATTErrorResponse":
                return ("is_error", isinstance(t.ops[0], ast.Is))
            if isinstance(v, Ref) and v.name == "BluetoothDeviceConnectionResponse":
                return ("is_conn", isinstance(t.ops[0], ast.Is))
        return None

    tab = truth_table(g, ["is_error"], cl_err, rets)
    ctx.ob("C16.R2", sb, "an error response never completes the operation normally", tab[(True,)][0] is False and tab[(False,)][0] is True, fmt_table(["is_error"], tab))
    gr = cfg_of(ctx, rcc)
    rr = [n for n in gr.reachable() if isinstance(n.ast, ast.Raise)]
    tab = truth_table(gr, ["is_conn"], cl_err, rr)
    okc = len(rr) == 1 and tab[(True,)] == (True, True) and tab[(False,)][0] is False and isinstance(rr[0].ast.exc, ast.Call) and norm(rr[0].ast.exc.func) == "BluetoothConnectionDroppedError"
    ctx.ob("C16.R2", rcc, "connection-state change raises BluetoothConnectionDroppedError, anything else passes", okc, fmt_table(["is_conn"], tab))
    cc = [c for c in own_nodes(sb.node) if isinstance(c, ast.Call) and rcc in res.callees(sb, c).funcs]
    resp_var = None
    for n in own_nodes(sb.node):
        if isinstance(n, ast.Assign) and isinstance(n.value, ast.Await) and n.value.value is calls_[0]:
            t = n.targets[0]
            resp_var = norm(t.elts[0]) if isinstance(t, (ast.List, ast.Tuple)) and len(t.elts) == 1 else norm(t)
    ctx.ob("C16.R2", sb, "checks are applied to the single response of this operation", len(cc) == 1 and [norm(a) for a in cc[0].args][:2] == ["address", resp_var], f"{[norm(a) for c in cc for a in c.args]}")
    # users of the handle-scoped wait pass their own address/handle
    for m in client.methods.values():
        for c in [x for x in own_nodes(m.node) if isinstance(x, ast.Call) and sb in res.callees(m, x).funcs]:
            a = res.bind_args(sb, c)
            ctx.ob("C16.R2", m, f"{m.name}: waits on its own address and handle", norm(a.get("address")) == "address" and norm(a.get("handle")) == "handle", f"{norm(a.get('address'))}, {norm(a.get('handle'))}")
            req = a.get("request")
            if isinstance(req, ast.Call):
                kws = {kw.arg: norm(kw.value) for kw in req.keywords}
                ctx.ob("C16.R2", m, f"{m.name}: request addresses the same address and handle", kws.get("address") == "address" and kws.get("handle") == "handle", f"{kws}")
    gw = client.methods["_bluetooth_gatt_write"]
    wr = {norm(n.targets[0]): norm(n.value) for n in own_nodes(gw.node) if isinstance(n, ast.Assign) and isinstance(n.targets[0], ast.Attribute)}
    ctx.ob("C16.R2", gw, "write request addresses the operation's address and handle", wr.get("req.address") == "address" and wr.get("req.handle") == "handle", f"{wr}")
    # services listing
    gs = client.methods["bluetooth_gatt_get_services"]
    calls_ = [c for c in own_nodes(gs.node) if isinstance(c, ast.Call) and cx in res.callees(gs, c).funcs]
    ctx.require(len(calls_) == 1, "bluetooth_gatt_get_services: request call not unique")
    b = res.bind_args(cx, calls_[0])
    types = fold_types(ctx, gs, b["msg_types"])
    want = ["BluetoothGATTGetServicesResponse", "BluetoothGATTGetServicesDoneResponse", "BluetoothGATTErrorResponse", "BluetoothDeviceConnectionResponse"]
    ctx.ob("C16.R2", gs, "service listing subscribes services, done, GATT error and connection state", types is not None and sorted(types) == sorted(want), f"{types}")
    fa, aa = partial_of(gs, b["do_append"])
    fs, sa = partial_of(gs, b["do_stop"])
    at = fold_types(ctx, gs, ast.parse(aa[1], mode="eval").body) if len(aa) == 2 else None
    st = fold_types(ctx, gs, ast.parse(sa[1], mode="eval").body) if len(sa) == 2 else None
    errs = {"BluetoothGATTErrorResponse", "BluetoothDeviceConnectionResponse"}
    ctx.ob("C16.R2", gs, "service listing collects services and failures for its own address", fa is tmsg and aa[:1] == ["address"] and at is not None and set(at) == errs | {"BluetoothGATTGetServicesResponse"}, f"{aa} -> {at}")
    ctx.ob("C16.R2", gs, "service listing ends on done or a failure for its own address", fs is tmsg and sa[:1] == ["address"] and st is not None and set(st) == errs | {"BluetoothGATTGetServicesDoneResponse"}, f"{sa} -> {st}")
    loops = [n for n in own_nodes(gs.node) if isinstance(n, ast.For)]
    okl = False
    if len(loops) == 1:
        body = loops[0].body
        has_conn = any(isinstance(c, ast.Call) and rcc in res.callees(gs, c).funcs for s in body for c in ast.walk(s))
        has_err = any(isinstance(s, ast.If) and "BluetoothGATTErrorResponse" in norm(s.test) and any(isinstance(x, ast.Raise) for x in s.body) for s in body)
        okl = has_conn and has_err
    ctx.ob("C16.R2", gs, "every collected response is checked for error and connection change", okl, "")
    dw = client.methods["_bluetooth_device_request_watch_connection"]
    dr = client.methods["_bluetooth_device_request"]
    calls_ = [c for c in own_nodes(dw.node) if isinstance(c, ast.Call) and dr in res.callees(dw, c).funcs]
    ctx.require(len(calls_) == 1, "_bluetooth_device_request_watch_connection: request call not unique")
    b = res.bind_args(dr, calls_[0])
    f, args = partial_of(dw, b["predicate_func"])
    tw = fold_types(ctx, dw, b["msg_types"])
    tf = fold_types(ctx, dw, ast.parse(args[1], mode="eval").body) if len(args) == 2 else None
    ctx.ob("C16.R2", dw, "pair/unpair/clear-cache wait: own address, response types + connection state, filter = subscription", f is tmsg and args[:1] == ["address"] and tw is not None and tw == tf and set(tw) == {"BluetoothDeviceConnectionResponse", "<msg_types>"}, f"{args} {tw} {tf}")
    ctx.ob("C16.R2", dw, "... and raises on a connection change", any(isinstance(c, ast.Call) and rcc in res.callees(dw, c).funcs for c in own_nodes(dw.node)), "")
    cdr = [c for c in own_nodes(dr.node) if isinstance(c, ast.Call) and cx in res.callees(dr, c).funcs]
    if len(cdr) == 1:
        b = res.bind_args(cx, cdr[0])
        ctx.ob("C16.R2", dr, "device request: predicate used for accept and stop, caller's types and timeout", norm(b["do_append"]) == norm(b["do_stop"]) == "predicate_func" and norm(b["msg_types"]) == "msg_types" and norm(b["timeout"]) == "timeout", f"{ {k: norm(v) for k, v in b.items()} }")
        reqs = [n for n in own_nodes(dr.node) if isinstance(n, ast.Call) and norm(n.func) == "BluetoothDeviceRequest"]
        ctx.ob("C16.R2", dr, "device request addresses the operation's address with the given request type", len(reqs) == 1 and {kw.arg: norm(kw.value) for kw in reqs[0].keywords} == {"address": "address", "request_type": "request_type"}, "")

    # ------------------------------------------------------------------ R3 / R4
    bc = client.methods["bluetooth_device_connect"]
    g = cfg_of(ctx, bc)
    unsub = None
    for n in own_nodes(bc.node):
        if isinstance(n, ast.Assign) and isinstance(n.value, ast.Call) and isinstance(n.value.func, ast.Attribute) and n.value.func.attr == "send_message_callback_response":
            unsub = norm(n.targets[0])
            reg = n.value
    ctx.require(unsub is not None, "bluetooth_device_connect: registration not found")
    guard = client.methods.get("_bluetooth_device_disconnect_guard_timeout")
    guard_merged = guard is None  # a maintainer may have merged the guard helper into the timeout branch of its only caller
    if guard_merged:
        guard = bc

    def ev3(n: Node):
        out = []
        for c in node_calls(n):
            if isinstance(c.func, ast.Name) and c.func.id == unsub:
                out.append("unsub")
            if guard in res.callees(bc, c).funcs or client.methods["bluetooth_device_disconnect"] in res.callees(bc, c).funcs:
                out.append("disconnect")
        return out

    b3 = occurred_before(g, ev3)
    # "the disconnect was asked for" also holds when that request itself failed (its own timeout is caught around it)
    from ..cfg import must_forward

    b3x = must_forward(g, lambda n, f, label: f | frozenset(e for e in ev3(n) if label != "exc" or e == "disconnect"), frozenset())
    h = [n for n in g.reachable() if n.kind == "handler" and "TimeoutError" in n.handler_type]
    ctx.ob("C16.R3", bc, "connect has a TimeoutError handler", len(h) == 1, "")
    in_handler = [n for n in g.reachable() if n.in_handler and any("TimeoutError" in t for t in n.in_handler) and not n.copy_of.startswith("finally")]
    disc = [n for n in in_handler if "disconnect" in ev3(n)]
    rais = [n for n in in_handler if isinstance(n.ast, ast.Raise)]
    ctx.ob("C16.R3", bc, "timeout: unsubscribe before the disconnect request", len(disc) == 1 and "unsub" in b3.get(disc[0], frozenset()), "the caller's state callback would see the disconnect of a connect that is about to be reported as timed out")
    ctx.ob("C16.R3", bc, "timeout: disconnect (slot recovered) before TimeoutAPIError is raised", len(rais) == 1 and {"unsub", "disconnect"} <= b3x.get(rais[0], frozenset()) and isinstance(rais[0].ast.exc, ast.Call) and norm(rais[0].ast.exc.func) == "TimeoutAPIError", "")
    if disc:
        c = [c for c in node_calls(disc[0]) if guard in res.callees(bc, c).funcs or client.methods["bluetooth_device_disconnect"] in res.callees(bc, c).funcs]
        ctx.ob("C16.R3", bc, "timeout: the disconnect is for the same address", bool(c) and norm(c[0].args[0]) == "address", f"{[norm(a) for a in c[0].args] if c else None}")
    gd = [c for c in own_nodes(guard.node) if isinstance(c, ast.Call) and client.methods["bluetooth_device_disconnect"] in res.callees(guard, c).funcs]
    ctx.ob("C16.R3", guard, "guarded disconnect passes its address on", len(gd) == 1 and norm(gd[0].args[0]) == "address", "")
    # ... and is issued unconditionally: no path through the guard function skips the disconnect request
    gg_ = cfg_of(ctx, guard)
    dn_ = [n for n in gg_.reachable() if any(c in gd for c in node_calls(n))]
    if guard_merged:
        # inside the caller: from the TimeoutError handler to the raise of TimeoutAPIError the request is unavoidable
        hstart = [n for n in gg_.reachable() if n.kind == "handler" and "TimeoutError" in n.handler_type]
        skip = walk(gg_, {}, lambda n: None, start=hstart[0], blocked=set(dn_)) if hstart else {gg_.exit}
        leaves = [n for n in skip if n is gg_.exit or (isinstance(n.ast, ast.Raise) and isinstance(n.ast.exc, ast.Call) and norm(n.ast.exc.func) == "TimeoutAPIError")]
        ctx.ob("C16.R3", guard, "the disconnect request is sent on every path of the guard (whatever the timeout value)", bool(dn_) and not leaves, "a path reports the timeout without asking the device to disconnect: the connection slot stays occupied")
    else:
        skip = walk(gg_, {}, lambda n: None, blocked=set(dn_))
        ctx.ob("C16.R3", guard, "the disconnect request is sent on every path of the guard (whatever the timeout value)", bool(dn_) and gg_.exit not in skip, "a path returns without asking the device to disconnect: the connection slot stays occupied although a timeout is reported")
    # registration is for the operation's own address
    f, args = partial_of(bc, reg.args[1]) if len(reg.args) >= 2 else (None, [])
    ctx.ob("C16.R1", bc, "connect: state callback bound to the operation's future, address and user callback", f is ctx.repo.func(cb, "on_bluetooth_device_connection_response") and args == ["connect_future", "address", "on_bluetooth_connection_state"], f"{args}")
    exits_ok(ctx, bc, unsub, eff, "C16.R4")
    # start_notify
    sn = client.methods["bluetooth_gatt_start_notify"]
    rem = None
    for n in own_nodes(sn.node):
        if isinstance(n, ast.Assign) and isinstance(n.value, ast.Call) and isinstance(n.value.func, ast.Attribute) and n.value.func.attr == "add_message_callback":
            rem = norm(n.targets[0])
            regn = n.value
    ctx.require(rem is not None, "bluetooth_gatt_start_notify: registration not found")
    f, args = partial_of(sn, regn.args[0])
    ctx.ob("C16.R1", sn, "notify: data callback bound to the operation's own address and handle", f is ctx.repo.func(cb, "on_bluetooth_gatt_notify_data_response") and args == ["address", "handle", "on_bluetooth_gatt_notify"], f"{args}")
    exits_ok(ctx, sn, rem, eff, "C16.R4")
    stop = ctx.repo.try_func("client", "APIClient.bluetooth_gatt_start_notify.stop_notify")
    if stop is not None:
        calls_rm = [c for c in own_nodes(stop.node) if isinstance(c, ast.Call) and isinstance(c.func, ast.Name) and c.func.id == rem]
        sends = [c for c in own_nodes(stop.node) if isinstance(c, ast.Call) and norm(c.func).endswith("send_message")]
        okd = len(calls_rm) == 1 and len(sends) == 1 and isinstance(sends[0].args[0], ast.Call) and {kw.arg: norm(kw.value) for kw in sends[0].args[0].keywords} == {"address": "address", "handle": "handle", "enable": "False"}
        ctx.ob("C16.R4", stop, "stop_notify removes the data callback and disables notify for the same address/handle", okd, "")


def exits_ok(ctx: Ctx, fn: Func, remover: str, eff, rule: str) -> None:
    """Every exceptional exit has called the remover; the normal exit has not and returns it."""
    g = cfg_of(ctx, fn)
    flags = set()
    for n in own_nodes(fn.node):
        if isinstance(n, ast.Assign) and isinstance(n.value, ast.Constant) and isinstance(n.value.value, bool):
            flags |= {t.id for t in n.targets if isinstance(t, ast.Name)}
    reg_nodes = [n for n in g.reachable() if n.kind == "stmt" and isinstance(n.ast, ast.Assign) and any(norm(t) == remover for t in n.ast.targets)]

    def step(n: Node, s: frozenset, label: str):
        if label == "exc" and not eff.node_raises(fn, n):
            return None
        if label == "unhandled" and n.kind == "dispatch" and any(norm(h.type).split(".")[-1] in ("Exception",) for h in n.ast.handlers if h.type is not None):
            return None  # cancellation (BaseException) is outside the property's quantifier
        s2 = const_flag_step(n, s, label, flags)
        if s2 is None:
            return None
        s = s2
        if label != "exc":
            if n in reg_nodes:
                s = s | {"registered"}
            for c in node_calls(n):
                if isinstance(c.func, ast.Name) and c.func.id == remover:
                    s = s | {"removed"}
        return s

    facts = disjunctive(g, frozenset(), step)
    bad = [s for s in facts.get(g.raise_exit, frozenset()) if "registered" in s and "removed" not in s]
    ctx.ob(rule, fn, f"every failing exit has called {remover}()", not bad, f"a handler stays subscribed after the operation failed (flags {[sorted(b) for b in bad[:1]]})")
    good = [s for s in facts.get(g.exit, frozenset())]
    ctx.ob(rule, fn, f"the successful exit keeps the subscription and hands {remover} to the caller", bool(good) and all("removed" not in s for s in good) and any(isinstance(n, ast.Return) and n.value is not None and remover in {x.id for x in ast.walk(n.value) if isinstance(x, ast.Name)} for n in own_nodes(fn.node)), "")
