"""C19 - the client never wedges and refuses work unless a session is alive."""

from __future__ import annotations

import ast

from ..astutil import attr_writes, is_none, call_arg
from ..cfg import Node, cfg_of, may_forward, node_calls, walk_own
from ..closed import find_roles, resolver
from ..effects import effects
from ..flow import disjunctive, occurred_before
from ..guard import fmt_table, truth_table, walk
from ..report import Ctx
from ..src import Func, norm, own_nodes
from ..sym import Ref

EXPLANATION = (
    "Static rules on client.py. R1: every call site in APIClient (methods and closures) that resolves to a sending / "
    "registering API of APIConnection is classified: public methods must take the receiver from the authenticated gate "
    "(directly, or through a local bound to it with no suspension point in between); the only other accepted form is an "
    "unsubscribe/response closure (non-public) that uses self._connection behind an `is not None` test - listed in the "
    "evidence, covered by the connection-level write gate (C08.R5). R2: the gate's guard is extracted as a truth table: it "
    "returns iff a connection is installed and is_connected, otherwise raises an APIConnectionError. R3: who-may-write of "
    "APIClient._connection: installed only when none is installed (else 'already connected'), cleared by the stop hook "
    "handed to the connection, on every exceptional exit of a connect phase, and after disconnect() has closed the "
    "connection unless it was already replaced (disjunctive path analysis). Decides the structural conditions; multi-session "
    "histories as behaviour are not decided."
    ' Also: nothing between closing and forgetting the connection can raise by itself; with a connection installed every path of disconnect() closes it.'
)
ASSUMPTIONS = ["C07 (the stop callback fires iff the session was established)", "C08.R5 (connection-level write gate)", "M1-M5 of DESIGN.md section 2"]

SEND_API = {"send_message", "send_messages", "send_message_callback_response", "send_messages_await_response_complex", "send_message_await_response", "add_message_callback"}


def run(ctx: Ctx) -> None:
    res = resolver(ctx)
    eff = effects(ctx)
    client = ctx.repo.cls("APIClient")
    conn = ctx.repo.cls("APIConnection")
    funcs = [f for f in ctx.repo.funcs_in("client") if f.cls is client]
    gate = None
    for m in client.methods.values():
        rets = [n for n in own_nodes(m.node) if isinstance(n, ast.Return) and n.value is not None]
        if rets and conn.name in res.ann_types(m.node.returns, "client") and not m.is_async and m.param_names() == ["self"] and not any(norm(d) == "property" for d in m.node.decorator_list):
            gate = m
    ctx.require(gate is not None, "authenticated gate (APIClient method returning the installed connection) not found")
    ctx.analysed["gate"] = gate.key

    # ------------------------------------------------------------------ R1
    n_sites = 0
    closures = []
    for fn in funcs:
        if fn is gate:
            continue
        g = None
        for call in [c for c in own_nodes(fn.node) if isinstance(c, ast.Call) and isinstance(c.func, ast.Attribute) and c.func.attr in SEND_API]:
            cs = res.callees(fn, call)
            if not any(f.cls is conn for f in cs.funcs):
                continue
            n_sites += 1
            recv = call.func.value
            public = fn.parent is None and not fn.name.startswith("_")
            if isinstance(recv, ast.Call) and gate in res.callees(fn, recv).funcs:
                ctx.ob("C19.R1", fn, f"{norm(call)[:70]}", True, "receiver is the gate call itself", node=call)
                continue
            if isinstance(recv, ast.Name):
                assigns = [n for n in own_nodes(fn.node) if isinstance(n, ast.Assign) and any(isinstance(t, ast.Name) and t.id == recv.id for t in n.targets)]
                outer = fn
                while not assigns and outer.parent is not None:
                    outer = outer.parent
                    assigns = [n for n in own_nodes(outer.node) if isinstance(n, ast.Assign) and any(isinstance(t, ast.Name) and t.id == recv.id for t in n.targets)]
                from_gate = len(assigns) == 1 and isinstance(assigns[0].value, ast.Call) and gate in res.callees(outer, assigns[0].value).funcs
                if from_gate and outer is fn:
                    g = g or cfg_of(ctx, fn)

                    def gk(n: Node, f: frozenset, label: str, a=assigns[0], fn=fn) -> frozenset:
                        if eff.node_suspends(fn, n):
                            f = f | {"suspended-since-gate"}
                        if n.ast is a and label != "exc":
                            f = f - {"suspended-since-gate"}
                        return f

                    facts = may_forward(g, gk, frozenset(["suspended-since-gate"]))
                    nodes = [n for n in g.reachable() if n.ast is not None and n.kind in ("stmt", "cond") and any(x is call for x in walk_own(n.ast))]
                    ok = bool(nodes) and all("suspended-since-gate" not in facts.get(n, frozenset()) for n in nodes)
                    ctx.ob("C19.R1", fn, f"{norm(call)[:70]}", ok, "the session may have ended between the gate and this send (suspension point in between)", node=call)
                    continue
                if from_gate and outer is not fn:
                    # closure using the connection captured by the enclosing public method: runs later
                    closures.append(fn.key)
                    ctx.ob("C19.R1", fn, f"{norm(call)[:70]}", not public, "closure re-using a gated connection", node=call)
                    continue
            # direct use of self._connection
            if isinstance(recv, ast.Attribute) and recv.attr == "_connection" and norm(recv.value) == "self":
                g = g or cfg_of(ctx, fn)

                def cl(n: Node):
                    t = n.ast
                    if isinstance(t, ast.Compare) and len(t.ops) == 1 and norm(t.left) == "self._connection" and is_none(t.comparators[0]):
                        return ("installed", isinstance(t.ops[0], (ast.IsNot, ast.NotEq)))
                    if isinstance(t, ast.Attribute) and norm(t) == "self._connection":
                        return ("installed", True)
                    return None

                nodes = [n for n in g.reachable() if n.ast is not None and n.kind in ("stmt", "cond") and any(x is call for x in walk_own(n.ast))]
                tab = truth_table(g, ["installed"], cl, nodes)
                guarded = tab[(False,)][0] is False
                closures.append(fn.key)
                ctx.ob("C19.R1", fn, f"{norm(call)[:70]}", (not public) and guarded, ("public API bypasses the authenticated gate" if public else "self._connection used without an `is not None` test: AttributeError when no session"), node=call)
                continue
            ctx.ob("C19.R1", fn, f"{norm(call)[:70]}", False, f"receiver {norm(recv)[:40]} is not obtained from the authenticated gate", node=call)
    ctx.count("C19.R1", n_sites, 43, "connection send/register call sites in APIClient")
    # session-derived state (the negotiated API version: None without a connection) is read only after the gate has
    # spoken: otherwise a command issued while disconnected dies of a TypeError instead of a connection error
    n_ver = 0
    for fn in funcs:
        if fn is gate or fn.parent is not None or any(norm(d) == "property" for d in fn.node.decorator_list):
            continue
        reads = [x for x in own_nodes(fn.node) if isinstance(x, ast.Attribute) and x.attr == "api_version" and norm(x.value) == "self" and isinstance(x.ctx, ast.Load)]
        if not reads:
            continue
        n_ver += len(reads)
        gf = cfg_of(ctx, fn)
        ev_ = occurred_before(gf, lambda n, fn=fn: ["gated"] if any(gate in res.callees(fn, c).funcs for c in node_calls(n)) else [])
        for r in reads:
            nodes = [n for n in gf.reachable() if n.ast is not None and n.kind in ("stmt", "cond") and any(x is r for x in walk_own(n.ast))]
            ok = bool(nodes) and all("gated" in ev_.get(n, frozenset()) or any(gate in res.callees(fn, c).funcs for c in node_calls(n)) for n in nodes)
            ctx.ob("C19.R1", fn, f"self.api_version read only after the authenticated gate ({norm(r)})", ok, "without a session api_version is None: the version comparison raises TypeError before the gate can refuse with a connection error", node=r)
    ctx.count("C19.R1.version-reads", n_ver, 3, "reads of the negotiated API version in APIClient methods")
    ctx.analysed["closures_using_connection_without_gate"] = sorted(set(closures))

    # ------------------------------------------------------------------ R2
    gg = cfg_of(ctx, gate)
    rets = [n for n in gg.reachable() if isinstance(n.ast, ast.Return)]
    local = None
    for n in own_nodes(gate.node):
        if isinstance(n, ast.Assign) and norm(n.value) == "self._connection":
            local = n.targets[0].id if isinstance(n.targets[0], ast.Name) else None

    def clg(n: Node):
        t = n.ast
        names = {"self._connection"} | ({local} if local else set())
        if isinstance(t, ast.Compare) and len(t.ops) == 1 and norm(t.left) in names and is_none(t.comparators[0]):
            return ("installed", isinstance(t.ops[0], (ast.IsNot, ast.NotEq)))
        if isinstance(t, (ast.Name, ast.Attribute)) and norm(t) in names:
            return ("installed", True)
        if isinstance(t, ast.Attribute) and t.attr == "is_connected":
            return ("connected", True)
        return None

    tab = truth_table(gg, ["installed", "connected"], clg, rets)
    ok = tab[(True, True)] == (True, True) and all(not tab[k][0] for k in tab if k != (True, True))
    ctx.ob("C19.R2", gate, "gate returns iff a connection is installed and connected", ok, fmt_table(["installed", "connected"], tab))
    for r in rets:
        ctx.ob("C19.R2", gate, "gate returns the installed connection", norm(r.ast.value) in ("self._connection", local or ""), f"returns {norm(r.ast.value)}")
    raises = [n for n in own_nodes(gate.node) if isinstance(n, ast.Raise)]
    for r in raises:
        v = ctx.sym.eval(r.exc.func if isinstance(r.exc, ast.Call) else r.exc, "client")
        ctx.ob("C19.R2", gate, f"gate refuses with a connection error ({norm(r)[:40]})", isinstance(v, Ref) and ctx.repo.is_subclass(v.name, "APIConnectionError"), f"raises {v!r}")
    ctx.ob("C19.R2", gate, "gate has no other effects", not [c for c in own_nodes(gate.node) if isinstance(c, ast.Call) and res.callees(gate, c).kind not in ("lib", "ctor")], "")

    # ------------------------------------------------------------------ R3
    writes = [(fn, st, val) for fn in ctx.repo.all_funcs() for st, tgt, val in attr_writes(fn, "_connection") if fn.cls is client or client.name in res.expr_types(fn, tgt.value)]
    ctx.count("C19.R3", len(writes), 5, "writes of APIClient._connection")
    init = client.methods["__init__"]
    start = client.methods["start_connection"]
    setters = [(fn, st, val) for fn, st, val in writes if not is_none(val)]
    ctx.ob("C19.R3", "client:APIClient", "connection installed at exactly one site", len(setters) == 1 and setters[0][0] is start, f"{[f.key for f, _, _ in setters]}")
    if setters and setters[0][0] is start:
        gs = cfg_of(ctx, start)
        nodes = [n for n in gs.reachable() if n.ast is setters[0][1]]

        def cls_(n: Node):
            t = n.ast
            if isinstance(t, ast.Compare) and len(t.ops) == 1 and norm(t.left) == "self._connection" and is_none(t.comparators[0]):
                return ("installed", isinstance(t.ops[0], (ast.IsNot, ast.NotEq)))
            if isinstance(t, ast.Attribute) and norm(t) == "self._connection":
                return ("installed", True)
            return None

        tab = truth_table(gs, ["installed"], cls_, nodes)
        ctx.ob("C19.R3", start, "a new connection is installed iff none is installed", tab[(False,)] == (True, True) and tab[(True,)][0] is False, fmt_table(["installed"], tab))
        # refusing raises a connection error before any effect
        refused = walk(gs, {"installed": True}, cls_)
        eff_nodes = [n for n in refused if any(res.callees(start, c).kind in ("pkg", "ctor", "value", "unknown") and not _is_exc_ctor(ctx, start, c) for c in node_calls(n))]
        ctx.ob("C19.R3", start, "'already connected' refusal has no effect", not eff_nodes and gs.exit not in refused, f"{[n.text(40) for n in eff_nodes[:2]]}")
        # the connection gets the client's stop hook
        val = setters[0][2]
        if isinstance(val, ast.Name):
            # the connection is built into a local first and installed from it
            asg = [n for n in own_nodes(start.node) if isinstance(n, (ast.Assign, ast.AnnAssign)) and any(isinstance(t, ast.Name) and t.id == val.id for t in (n.targets if isinstance(n, ast.Assign) else [n.target]))]
            if len(asg) == 1 and asg[0].value is not None:
                val = asg[0].value
        hook_ok = False
        if isinstance(val, ast.Call) and call_arg(val, 1, "on_stop") is not None:
            cv = res._callable_value(start, call_arg(val, 1, "on_stop"))
            hook_ok = cv is not None and any(f.name == "_on_stop" for f in cv.funcs)
        ctx.ob("C19.R3", start, "the connection's stop callback is the client's clearing hook", hook_ok, "the client would keep a stopped connection installed")
        # the connect phases run through the clearing wrapper
        for phase in ("start_connection", "finish_connection"):
            m = client.methods[phase]
            wrapper = client.methods.get("_execute_connection_coro")
            aw = [a for a in own_nodes(m.node) if isinstance(a, ast.Await) and isinstance(a.value, ast.Call)]
            ok = any(wrapper in res.callees(m, a.value).funcs and a.value.args and isinstance(a.value.args[0], ast.Call) and any(f.cls is conn and f.name == phase for f in res.callees(m, a.value.args[0]).funcs) for a in aw)
            direct = [a for a in aw if any(f.cls is conn and f.name == phase for f in res.callees(m, a.value).funcs)]
            ctx.ob("C19.R3", m, f"{phase} runs the connection phase through the clearing wrapper", ok and not direct, "a failed phase would leave its dead connection installed")
            # what the phase does after the wrapper returned is outside the wrapper's clearing: nothing there raises by
            # itself (a look-up that fails for some address, say), or the caller sees a failed attempt while the
            # connection stays installed
            from ..totality import risky

            gm = cfg_of(ctx, m)
            wn = [n for n in gm.reachable() if any(wrapper in res.callees(m, c).funcs for c in node_calls(n))]
            tail: list[ast.AST] = []
            for n_ in wn:
                for l_, s_ in n_.succ:
                    if l_ == "exc":
                        continue
                    for x_ in walk(gm, {}, lambda n: None, start=s_):
                        if x_.ast is not None and x_.kind in ("stmt", "cond") and x_ not in wn and x_.ast not in tail:
                            tail.append(x_.ast)
            rk_t = [r for r in risky(ctx, res, m, tail) if "self._connection may be None" not in r]
            ctx.ob("C19.R3", m, f"{phase}: nothing after the guarded phase can raise by itself", not rk_t, f"{rk_t[:3]}: the attempt fails for the caller but its connection stays installed - every later start_connection() answers 'already connected'")
    hook = client.methods.get("_on_stop")
    ctx.require(hook is not None, "APIClient._on_stop missing")
    gh = cfg_of(ctx, hook)
    f = occurred_before(gh, lambda n: ["cleared"] if n.kind == "stmt" and isinstance(n.ast, ast.Assign) and any(norm(t) == "self._connection" for t in n.ast.targets) and is_none(n.ast.value) else []).get(gh.exit, frozenset())
    ctx.ob("C19.R3", hook, "stop hook clears the connection on every path", "cleared" in f, "")
    # also before user code runs (the user's on_stop may reconnect at once)
    user_calls = [n for n in gh.reachable() if any(res.callees(hook, c).kind in ("value", "unknown") or any(x.name == "_create_background_task" for x in res.callees(hook, c).funcs) for c in node_calls(n))]
    fb = occurred_before(gh, lambda n: ["cleared"] if n.kind == "stmt" and isinstance(n.ast, ast.Assign) and any(norm(t) == "self._connection" for t in n.ast.targets) and is_none(n.ast.value) else [])
    ctx.ob("C19.R3", hook, "... before the user's stop callback is started", all("cleared" in fb.get(n, frozenset()) for n in user_calls), "a reconnect attempted from the callback would be refused")
    wrapper = client.methods.get("_execute_connection_coro")
    ctx.require(wrapper is not None, "_execute_connection_coro missing")
    gw = cfg_of(ctx, wrapper)

    # the phase's own connection: a local snapshot of self._connection taken before the phase is awaited
    snaps = set()
    for n in own_nodes(wrapper.node):
        if isinstance(n, ast.Assign) and norm(n.value) == "self._connection":
            snaps |= {t.id for t in n.targets if isinstance(t, ast.Name)}
        if isinstance(n, ast.NamedExpr) and norm(n.value) == "self._connection":
            snaps.add(n.target.id)

    def same_test(n: Node) -> "bool | None":
        """cond node comparing the installed connection with the snapshot: True if `is`, False if `is not`."""
        t = n.ast
        if n.kind == "cond" and isinstance(t, ast.Compare) and len(t.ops) == 1 and isinstance(t.ops[0], (ast.Is, ast.IsNot, ast.Eq, ast.NotEq)):
            l, r = norm(t.left), norm(t.comparators[0])
            if {l, r} == {"self._connection", next(iter(snaps & {l, r}), "<none>")}:
                return isinstance(t.ops[0], (ast.Is, ast.Eq))
        return None

    def stepw(n: Node, s: frozenset, label: str):
        if label == "exc" and not eff.node_raises(wrapper, n):
            return None
        if label == "exc" and eff.node_suspends(wrapper, n):
            return (s - {"known-same"}) | {"phase-failed"}
        st_ = same_test(n)
        if st_ is not None and label in ("true", "false"):
            if (label == "true") == st_:
                return s | {"known-same"}
            return s | {"replaced"}  # somebody else already installed / cleared another connection
        if label != "exc" and n.kind == "stmt" and isinstance(n.ast, ast.Assign) and any(norm(t) == "self._connection" for t in n.ast.targets) and is_none(n.ast.value):
            if "phase-failed" in s and "known-same" not in s:
                return s | {"cleared", "blind-clear"}
            return s | {"cleared"}
        return s

    fw = disjunctive(gw, frozenset(), stepw)
    ex_states = fw.get(gw.raise_exit, frozenset())
    bad = [s for s in ex_states if "phase-failed" in s and "cleared" not in s and "replaced" not in s]
    ctx.ob("C19.R3", wrapper, "every exceptional exit of a connect phase clears the connection (unless it was already replaced)", not bad and bool(ex_states), "after a failed (or cancelled) attempt the client would refuse every new attempt")
    blind = [s for s in ex_states if "blind-clear" in s]
    ctx.ob("C19.R3", wrapper, "a failed phase forgets only its own connection", not blind and bool(snaps), "the failing phase clears whatever is installed - a newer connection installed after disconnect() is wiped while its attempt is in flight (the attempt then ends in AttributeError and a third attempt is accepted concurrently)")
    # disconnect()
    disc = client.methods["disconnect"]
    gd = cfg_of(ctx, disc)
    aliases = {"self._connection"}
    for n in own_nodes(disc.node):
        if isinstance(n, ast.NamedExpr) and norm(n.value) == "self._connection":
            aliases.add(n.target.id)
        if isinstance(n, ast.Assign) and norm(n.value) == "self._connection":
            aliases |= {t.id for t in n.targets if isinstance(t, ast.Name)}

    def stepd(n: Node, s: frozenset, label: str):
        if label == "exc":
            return None
        for c in node_calls(n):
            if any(f.cls is conn and f.name in ("disconnect", "force_disconnect") for f in res.callees(disc, c).funcs):
                s = (s - {"cleared"}) | {"closed"}
        if n.kind == "stmt" and isinstance(n.ast, ast.Assign) and any(norm(t) == "self._connection" for t in n.ast.targets) and is_none(n.ast.value):
            s = s | {"cleared"}
        if n.kind == "cond" and isinstance(n.ast, ast.Compare) and len(n.ast.ops) == 1 and isinstance(n.ast.ops[0], (ast.Is, ast.IsNot, ast.Eq, ast.NotEq)):
            l, r = norm(n.ast.left), norm(n.ast.comparators[0])
            if {l, r} <= aliases and l != r:
                same = isinstance(n.ast.ops[0], (ast.Is, ast.Eq))
                if (label == "true") != same:
                    s = s | {"cleared"}  # already replaced / cleared by someone else
        return s

    fd = disjunctive(gd, frozenset(), stepd)
    states = fd.get(gd.exit, frozenset())
    bad = [s for s in states if "closed" in s and "cleared" not in s]
    closes = any("closed" in s for s in states)
    ctx.ob("C19.R3", disc, "disconnect() closes the installed connection", closes, "")
    # ... whenever one is installed: the only way out without closing is the "nothing installed" test (a re-entrancy
    # flag, a "disconnect already running" shortcut would make a forced disconnect a no-op while the graceful one hangs)
    def cl_inst(n: Node):
        t = n.ast
        if isinstance(t, ast.Compare) and len(t.ops) == 1 and isinstance(t.comparators[0], ast.Constant) and t.comparators[0].value is None and norm(t.left) in aliases:
            return ("installed", isinstance(t.ops[0], (ast.IsNot, ast.NotEq)))
        return None

    closers_n = {n for n in gd.reachable() if any(any(f.cls is conn and f.name in ("disconnect", "force_disconnect") for f in res.callees(disc, c).funcs) for c in node_calls(n))}
    free_d = walk(gd, {"installed": True}, cl_inst, blocked=closers_n)
    ctx.ob("C19.R3", disc, "with a connection installed every path of disconnect() closes it", bool(closers_n) and gd.exit not in free_d, "disconnect() can return with the connection installed and not closed")
    ctx.ob("C19.R3", disc, "after disconnect() closed the connection it is no longer installed", not bad, "disconnect() before the session was established leaves the closed connection installed: every later start_connection() is refused")
    # ... and nothing between the close and the forgetting can raise by itself (a diagnostic that reads state which only
    # an established connection has, say): the exception would leave with the closed connection still installed
    from ..totality import risky

    closers_d = [n for n in gd.reachable() if any(any(f.cls is conn and f.name in ("disconnect", "force_disconnect") for f in res.callees(disc, c).funcs) for c in node_calls(n))]
    clears_d = {n for n in gd.reachable() if n.kind == "stmt" and isinstance(n.ast, ast.Assign) and any(norm(t) == "self._connection" for t in n.ast.targets) and is_none(n.ast.value)}
    between: list[ast.AST] = []
    for cn_ in closers_d:
        for l_, s_ in cn_.succ:
            if l_ == "exc":
                continue
            for m in walk(gd, {}, lambda n: None, start=s_, blocked=clears_d):
                if m.ast is not None and m.kind in ("stmt", "cond") and m not in closers_d and m.ast not in between:
                    between.append(m.ast)
    rk = risky(ctx, res, disc, between)
    ctx.ob("C19.R3", disc, "nothing between closing the connection and forgetting it can raise by itself", not rk, f"{rk[:3]}: disconnect() would fail after the close and leave the closed connection installed - every later start_connection() is refused")
    allowed = {init.key, start.key, hook.key, wrapper.key, disc.key}
    for fn, st, val in writes:
        ctx.ob("C19.R3", fn, st, fn.key in allowed, f"unexpected writer of APIClient._connection: {fn.qualname}")


def _is_exc_ctor(ctx: Ctx, fn: Func, c: ast.Call) -> bool:
    v = ctx.sym.eval(c.func, fn.module.name) if isinstance(c.func, (ast.Name, ast.Attribute)) else None
    return isinstance(v, Ref) and v.kind == "class" and ctx.repo.is_subclass(v.name, "APIConnectionError")
