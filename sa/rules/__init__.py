"""Per-property rule sets (C01..C20).  Each module exposes run(ctx), EXPLANATION, ASSUMPTIONS."""
