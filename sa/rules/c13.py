"""C13 - message-id registry equals api.proto ids; traffic respects direction."""

from __future__ import annotations

import ast
from typing import Any

from ..astutil import annotation_nodes, parent_map, type_checking_nodes
from ..cfg import cfg_of, walk_own
from ..flow import occurred_before
from ..report import Ctx
from ..resolve import Resolver
from ..schema import SOURCE_NAMES, Schema, load_schema
from ..src import AnalysisError, Func, norm, own_nodes, walk_no_nested
from ..sym import Ref, Unknown

EXPLANATION = (
    "Static, exhaustive table comparison. R1: {message -> id} parsed from api.proto, decoded from the descriptor "
    "bytes literal in api_pb2.py and folded from the MESSAGE_TYPE_TO_PROTO dict literal are compared entry by entry "
    "(uniqueness, contiguity from 1); the dispatcher's own lookup expression is evaluated symbolically for every id "
    "and must select the class declared with that id; PROTO_TO_MESSAGE_TYPE must fold to the exact inverse. "
    "R2: every message/field/enum/option of the .proto text is compared with the descriptor literal (both files). "
    "R3/R4: every load of an api_pb2 class name in the package is classified by syntactic role (instantiated, "
    "passed into a parameter that is instantiated, type value used for subscription/response matching, comparison, "
    "annotation, registry); instantiated wire messages must be SOURCE_CLIENT/BOTH, subscribed ones SOURCE_SERVER/BOTH. "
    "Nothing is imported or executed; the descriptor is decoded from its literal."
    " Added: the message parsed is an instance of the class looked up for this very packet; the folded value of every registration call's type set contains only server- or both-originated types."
)
ASSUMPTIONS = [
    "protobuf wire format of FileDescriptorProto (decoded by the checker's own reader)",
    "a message class can only be sent if it is instantiated somewhere in the package (R3 decides a superset of what is sent)",
    "class objects used as values (outside calls/comparisons/annotations) are used for subscription or response matching",
]


def schema(ctx: Ctx) -> Schema:
    return ctx.service("schema", lambda: load_schema(ctx.repo))


def resolver(ctx: Ctx) -> Resolver:
    return ctx.service("resolver", lambda: Resolver(ctx.repo, ctx.sym))


def run(ctx: Ctx) -> None:
    sc = schema(ctx)
    r1(ctx, sc)
    r2(ctx, sc)
    r34(ctx, sc)


# --------------------------------------------------------------------- R1
def r1(ctx: Ctx, sc: Schema) -> None:
    proto_ids: dict[str, int] = {}
    for m in sc.proto.messages.values():
        if "id" in m.options:
            proto_ids[m.name] = int(m.options["id"], 0)
    desc_ids = {m.name: m.id for m in sc.desc.messages.values() if m.id is not None}
    table = ctx.sym.resolve_name("core", "MESSAGE_TYPE_TO_PROTO")
    if not isinstance(table, dict):
        raise AnalysisError("core.MESSAGE_TYPE_TO_PROTO does not fold to a dict literal")
    tab_ids: dict[str, int] = {}
    for k, v in table.items():
        if isinstance(k, tuple) and k and k[0] == "__dup__":
            ctx.ob("C13.R1", "core:MESSAGE_TYPE_TO_PROTO", f"duplicate key {k[2]}", False, "the same id appears twice in the dict literal (the later entry silently wins)")
            continue
        if not isinstance(k, int) or isinstance(k, bool):
            ctx.ob("C13.R1", "core:MESSAGE_TYPE_TO_PROTO", f"key {k!r}", False, "registry key is not an int literal")
            continue
        if not (isinstance(v, Ref) and v.kind == "pb"):
            ctx.ob("C13.R1", "core:MESSAGE_TYPE_TO_PROTO", f"{k}: {v!r}", False, "registry value is not an api_pb2 message class")
            continue
        if v.name in tab_ids:
            ctx.ob("C13.R1", "core:MESSAGE_TYPE_TO_PROTO", f"{v.name} under {tab_ids[v.name]} and {k}", False, "class registered under two ids")
        tab_ids[v.name] = k
    ctx.count("C13.R1", len(table), 123, "registry entries")

    names = sorted(set(proto_ids) | set(desc_ids) | set(tab_ids), key=lambda n: (proto_ids.get(n, 10**6), n))
    for n in names:
        p, d, t = proto_ids.get(n), desc_ids.get(n), tab_ids.get(n)
        ctx.ob("C13.R1", "schema:ids", f"{n}", p == d == t and p is not None, f"api.proto id={p} descriptor id={d} MESSAGE_TYPE_TO_PROTO id={t}")
    ids = sorted(proto_ids.values())
    ctx.ob("C13.R1", "schema:ids", "ids unique", len(set(ids)) == len(ids), f"duplicate ids in api.proto: {sorted({i for i in ids if ids.count(i) > 1})}")
    ctx.ob("C13.R1", "schema:ids", "ids contiguous from 1", ids == list(range(1, len(ids) + 1)), f"ids={ids[:5]}..{ids[-3:]} n={len(ids)}")

    # positional lookup, folded from the dispatcher's own expression
    lookups = find_lookups(ctx)
    ctx.require(len(lookups) >= 1, "no registry lookup (subscript/.get with a parameter-derived index) found in connection.py")
    by_id = {i: n for n, i in proto_ids.items()}
    for fn, expr, param in lookups:
        for i in sorted(by_id):
            got = eval_lookup(ctx, fn, expr, param, i)
            want = by_id[i]
            ok = isinstance(got, Ref) and got.kind == "pb" and got.name == want
            ctx.ob("C13.R1", fn, f"{norm(expr)} @ {param}={i}", ok, f"selects {got!r}, api.proto declares {want} with id {i}", node=expr)

    # ... and what gets instantiated and parsed for a packet is the value looked up for this very packet (a class kept
    # from an earlier packet, or selected any other way, is outside the table the rule above folds)
    for fn, expr, param in lookups:
        parses = [c for c in own_nodes(fn.node) if isinstance(c, ast.Call) and isinstance(c.func, ast.Attribute) and c.func.attr in ("MergeFromString", "ParseFromString")]
        if not parses:
            continue
        for pc in parses:
            recv = pc.func.value
            ctors: list[ast.expr] = []
            if isinstance(recv, ast.Name):
                for st in own_nodes(fn.node):
                    if isinstance(st, (ast.Assign, ast.AnnAssign)) and st.value is not None:
                        tg = st.targets if isinstance(st, ast.Assign) else [st.target]
                        if any(isinstance(t, ast.Name) and t.id == recv.id for t in tg):
                            ctors.append(st.value)
            elif isinstance(recv, ast.Call):
                ctors.append(recv)
            bad = []
            for cv in ctors:
                if not (isinstance(cv, ast.Call) and not cv.args and not cv.keywords):
                    bad.append(f"{norm(cv)[:50]} is not an instantiation")
                    continue
                k = cv.func
                if k is expr:
                    continue
                if isinstance(k, ast.Name):
                    kdefs = []
                    for st in own_nodes(fn.node):
                        if isinstance(st, (ast.Assign, ast.AnnAssign)) and st.value is not None:
                            tg = st.targets if isinstance(st, ast.Assign) else [st.target]
                            if any(isinstance(t, ast.Name) and t.id == k.id for t in tg):
                                kdefs.append(st.value)
                        if isinstance(st, ast.NamedExpr) and st.target.id == k.id:
                            kdefs.append(st.value)
                    wrong = [d for d in kdefs if d is not expr]
                    if wrong and all(isinstance(d, ast.Constant) and d.value is None for d in wrong):
                        # a `k = None` initialisation (what the inliner leaves behind for a helper's result) is harmless
                        # when the lookup has been executed on every path to the instantiation
                        gfn = cfg_of(ctx, fn)
                        defn = lambda n: ["lookup"] if n.ast is not None and n.kind == "stmt" and isinstance(n.ast, (ast.Assign, ast.AnnAssign)) and n.ast.value is expr else []
                        ob_ = occurred_before(gfn, defn)
                        inst_nodes = [n for n in gfn.reachable() if n.ast is not None and any(x is cv for x in walk_own(n.ast))]
                        if inst_nodes and all("lookup" in ob_.get(n, frozenset()) for n in inst_nodes):
                            wrong = []
                    if wrong or not kdefs:
                        bad.append(f"{k.id} = {[norm(d)[:50] for d in wrong] or 'no local definition'}")
                else:
                    bad.append(f"instantiates {norm(k)[:50]}")
            ctx.ob("C13.R1", fn, f"the message parsed is an instance of the class looked up for this packet ({norm(expr)[:50]})", bool(ctors) and not bad, f"{bad}: the class does not (only) come from the positional lookup of this packet's type number", node=pc)
    inv = ctx.sym.resolve_name("connection", "PROTO_TO_MESSAGE_TYPE")
    if not isinstance(inv, dict):
        raise AnalysisError("connection.PROTO_TO_MESSAGE_TYPE does not fold")
    for n, i in sorted(proto_ids.items(), key=lambda x: x[1]):
        got = inv.get(Ref("pb", "api_pb2", n), None)
        ctx.ob("C13.R1", "connection:PROTO_TO_MESSAGE_TYPE", f"{n}", got == i, f"send-side table maps {n} to {got}, api.proto id is {i}")
    extra = [k for k in inv if not (isinstance(k, Ref) and k.name in proto_ids)]
    ctx.ob("C13.R1", "connection:PROTO_TO_MESSAGE_TYPE", "no foreign keys", not extra, f"extra keys {extra[:3]}")


def find_lookups(ctx: Ctx) -> list[tuple[Func, ast.expr, str]]:
    """Expressions in connection.py that select a message class from a registry
    table by an index derived from a function parameter."""
    out: list[tuple[Func, ast.expr, str]] = []
    for fn in ctx.repo.funcs_in("connection"):
        params = set(fn.param_names())
        for n in own_nodes(fn.node):
            base = idx = None
            if isinstance(n, ast.Subscript) and isinstance(n.ctx, ast.Load):
                base, idx = n.value, n.slice
            elif isinstance(n, ast.Call) and isinstance(n.func, ast.Attribute) and n.func.attr == "get" and n.args:
                base, idx = n.func.value, n.args[0]
            if base is None or not isinstance(base, ast.Name):
                continue
            tv = ctx.sym.resolve_name("connection", base.id)
            if not _is_registry(tv):
                continue
            used = {x.id for x in ast.walk(idx) if isinstance(x, ast.Name)} & params
            if len(used) == 1:
                out.append((fn, n, used.pop()))
    return out


def _is_registry(tv: Any) -> bool:
    if isinstance(tv, tuple) and len(tv) > 50:
        return all(isinstance(x, Ref) and x.kind == "pb" for x in tv)
    if isinstance(tv, dict) and len(tv) > 50:
        vals = list(tv.values())
        return all(isinstance(x, Ref) and x.kind == "pb" for x in vals) and all(isinstance(k, int) for k in tv)
    return False


def eval_lookup(ctx: Ctx, fn: Func, expr: ast.expr, param: str, i: int) -> Any:
    """Evaluate the lookup with Python semantics (negative index wraps; IndexError/KeyError -> 'raises')."""
    if isinstance(expr, ast.Subscript):
        base = ctx.sym.eval(expr.value, fn.module.name)
        idx = ctx.sym.eval(expr.slice, fn.module.name, {param: i})
        if idx is Unknown:
            raise AnalysisError(f"cannot fold index expression {norm(expr.slice)}")
        try:
            return base[idx]
        except (IndexError, KeyError):
            return "raises"
    assert isinstance(expr, ast.Call)
    base = ctx.sym.eval(expr.func.value, fn.module.name)  # type: ignore[attr-defined]
    idx = ctx.sym.eval(expr.args[0], fn.module.name, {param: i})
    if idx is Unknown:
        raise AnalysisError(f"cannot fold index expression {norm(expr.args[0])}")
    return base.get(idx, "none")


# --------------------------------------------------------------------- R2
def _ptype(sc: Schema, pfile: Any, t: str) -> tuple[str, str]:
    """(type, type_name) a .proto field type should have in the descriptor."""
    if t in pfile.messages or (pfile is sc.proto and t in sc.options_proto.messages):
        return "message", t
    if t in pfile.enums or (pfile is sc.proto and t in sc.options_proto.enums):
        return "enum", t
    return t, ""


def r2(ctx: Ctx, sc: Schema) -> None:
    for label, pf, df in (("api.proto", sc.proto, sc.desc), ("api_options.proto", sc.options_proto, sc.options_desc)):
        where = f"schema:{label}"
        ctx.ob("C13.R2", where, "message set", set(pf.messages) == set(df.messages), f"only in .proto: {sorted(set(pf.messages) - set(df.messages))[:4]} only in descriptor: {sorted(set(df.messages) - set(pf.messages))[:4]}")
        ctx.ob("C13.R2", where, "enum set", set(pf.enums) == set(df.enums), f"only in .proto: {sorted(set(pf.enums) - set(df.enums))} only in descriptor: {sorted(set(df.enums) - set(pf.enums))}")
        ctx.ob("C13.R2", where, "message order", list(pf.messages) == list(df.messages), "declaration order differs")
        for name, pm in pf.messages.items():
            dm = df.messages.get(name)
            if dm is None:
                continue
            want = [(f.name, f.number, f.label, *_ptype(sc, pf, f.type)) for f in pm.fields]
            got = [(f.name, f.number, f.label, f.type, f.type_name) for f in dm.fields]
            ctx.ob("C13.R2", where, f"fields of {name}", want == got, _first_diff(want, got))
            pid = int(pm.options["id"], 0) if "id" in pm.options else None
            psrc = pm.options.get("source", "SOURCE_BOTH")
            dsrc = SOURCE_NAMES[dm.source]
            ctx.ob("C13.R2", where, f"options of {name}", pid == dm.id and psrc == dsrc, f".proto id={pid} source={psrc}; descriptor id={dm.id} source={dsrc}")
            wd = [f.name for f in pm.fields if f.options.get("deprecated") == "true"]
            gd = [f.name for f in dm.fields if f.deprecated]
            ctx.ob("C13.R2", where, f"deprecated fields of {name}", wd == gd, f".proto {wd} descriptor {gd}")
            ctx.ob("C13.R2", where, f"{name} has no nested types", dm.nested == 0, "descriptor has nested types the .proto reader does not model")
        for name, pe in pf.enums.items():
            de = df.enums.get(name)
            if de is None:
                continue
            ctx.ob("C13.R2", where, f"enum {name}", pe.values == de.values, _first_diff(pe.values, de.values))
        if pf.extensions:
            want_e = sorted((f.name, f.number) for lst in pf.extensions.values() for f in lst)
            got_e = sorted((f.name, f.number) for f in df.extensions)
            ctx.ob("C13.R2", where, "extensions", want_e == got_e, _first_diff(want_e, got_e))
        want_rpc = [(r.name, r.request, r.response) for r in pf.rpcs]
        ctx.ob("C13.R2", where, "service rpcs", want_rpc == df.services, _first_diff(want_rpc, df.services))
    # the option numbers the decoder relies on
    ext = {f.name: f.number for f in sc.options_desc.extensions}
    ctx.ob("C13.R2", "schema:api_options.proto", "id/source option numbers", ext.get("id") == 1036 and ext.get("source") == 1037, f"{ext}")
    src_enum = dict(sc.options_desc.enums.get("APISourceType", None).values) if "APISourceType" in sc.options_desc.enums else {}
    ctx.ob("C13.R2", "schema:api_options.proto", "APISourceType values", src_enum == {"SOURCE_BOTH": 0, "SOURCE_SERVER": 1, "SOURCE_CLIENT": 2}, f"{src_enum}")


def _first_diff(a: list[Any], b: list[Any]) -> str:
    for i, (x, y) in enumerate(zip(a, b)):
        if x != y:
            return f"first difference at #{i}: .proto {x} vs descriptor {y}"
    if len(a) != len(b):
        return f"length {len(a)} vs {len(b)}"
    return "equal"


# ------------------------------------------------------------------ R3/R4
def pb_locals(ctx: Ctx, modname: str) -> dict[str, str]:
    """local name -> api_pb2 class name, for names imported from .api_pb2."""
    out = {}
    for name, b in ctx.sym.table(modname).items():
        if b[0] == "import" and b[1] == "api_pb2":
            out[name] = b[2]
    return out


def instantiated_params(ctx: Ctx) -> dict[tuple[str, str], bool]:
    """(func key, param) -> the parameter is called like a class (fixpoint over pass-through, <= 3 levels)."""
    res = resolver(ctx)
    inst: dict[tuple[str, str], bool] = {}
    funcs = ctx.repo.all_funcs()
    for fn in funcs:
        ps = set(fn.param_names())
        for n in own_nodes(fn.node):
            if isinstance(n, ast.Call) and isinstance(n.func, ast.Name) and n.func.id in ps:
                inst[(fn.key, n.func.id)] = True
    for _ in range(3):
        changed = False
        for fn in funcs:
            ps = set(fn.param_names())
            for n in own_nodes(fn.node):
                if not isinstance(n, ast.Call):
                    continue
                cs = res.callees(fn, n)
                for callee in cs.funcs:
                    for pname, arg in res.bind_args(callee, n).items():
                        if isinstance(arg, ast.Name) and arg.id in ps and inst.get((callee.key, pname)) and not inst.get((fn.key, arg.id)):
                            inst[(fn.key, arg.id)] = True
                            changed = True
        if not changed:
            break
    return inst


def r34(ctx: Ctx, sc: Schema) -> None:
    res = resolver(ctx)
    inst_params = instantiated_params(ctx)
    n_inst = n_type = 0
    roles_count: dict[str, int] = {}
    for modname, mod in sorted(ctx.repo.modules.items()):
        pbs = pb_locals(ctx, modname)
        if not pbs:
            continue
        ctx.repo.module(modname)
        pm = parent_map(mod.tree)
        ann = annotation_nodes(mod.tree)
        tc = type_checking_nodes(mod.tree)
        func_of: dict[ast.AST, Func] = {}
        for fn in ctx.repo.funcs_in(modname):
            for n in own_nodes(fn.node):
                func_of[n] = fn
        for n in ast.walk(mod.tree):
            if not (isinstance(n, ast.Name) and isinstance(n.ctx, ast.Load) and n.id in pbs):
                continue
            cls = pbs[n.id]
            where = func_of.get(n)
            wkey: Any = where if where is not None else f"{modname}:<module>"
            role = classify(n, pm, ann, tc, modname, where, res, inst_params)
            roles_count[role] = roles_count.get(role, 0) + 1
            if cls not in sc.desc.messages:
                ctx.ob("C13.R3", wkey, f"{n.id} ({role})", False, f"{cls} is not a message of api.proto", node=n)
                continue
            src = sc.source_of(cls)
            mid = sc.id_of(cls)
            if role == "instantiated":
                n_inst += 1
                ok = mid is None or src in ("SOURCE_CLIENT", "SOURCE_BOTH")
                ctx.ob("C13.R3", wkey, f"{cls}(...) instantiated", ok, f"{cls} is {src} (id {mid}): the client must not originate it", node=n)
            elif role == "typevalue":
                n_type += 1
                ok = mid is not None and src in ("SOURCE_SERVER", "SOURCE_BOTH")
                ctx.ob("C13.R4", wkey, f"{cls} used as subscription/response type", ok, f"{cls} is {src} (id {mid}): the device never sends it", node=n)
            elif role == "unclassified":
                raise AnalysisError(f"{modname}: load of api_pb2 class {n.id} at line {n.lineno} fits no known role: {norm(pm.get(n))[:80]}")
    # value level: what every registration call actually passes as message types (after folding constants, starred
    # tuples and module-level tables) - a set computed some other way than by naming the classes is not seen by the
    # load-site rule above
    from .c16 import fold_types

    conn_cls = ctx.repo.cls("APIConnection")
    n_reg = 0
    for fn in ctx.repo.all_funcs():
        for c in own_nodes(fn.node):
            if not isinstance(c, ast.Call):
                continue
            callees = [f for f in res.callees(fn, c).funcs if f.cls is not None and f.cls.key == conn_cls.key and "msg_types" in f.param_names()]
            if not callees:
                continue
            e = res.bind_args(callees[0], c).get("msg_types")
            if e is None:
                continue
            names = fold_types(ctx, fn, e)
            n_reg += 1
            if names is None:
                why = _computed(ctx, fn, e)
                if why is None:
                    ctx.note(f"{fn.qualname}: {norm(e)[:40]} is assembled from classes named on the spot (judged by the load-site rule)")
                    continue
                ctx.ob("C13.R4", fn, f"{norm(c.func)[-40:]}: subscribed types are a foldable set of api_pb2 classes", False, f"{norm(e)[:60]}: {why} - what is subscribed to is computed, not named, and cannot be decided", node=c)
                continue
            for nm in names:
                if nm.startswith("<"):
                    continue  # the caller's own parameter: judged at its call sites
                ok = nm in sc.desc.messages and sc.id_of(nm) is not None and sc.source_of(nm) in ("SOURCE_SERVER", "SOURCE_BOTH")
                ctx.ob("C13.R4", fn, f"{norm(c.func)[-40:]}: {nm} is a type the device sends", ok, f"{nm} is {sc.source_of(nm) if nm in sc.desc.messages else 'not a message of api.proto'}", node=c)
    ctx.count("C13.R4.calls", n_reg, 20, "registration calls with a message-type set")
    ctx.analysed["pb_class_load_roles"] = roles_count
    ctx.count("C13.R3", n_inst, 56, "instantiation sites of api_pb2 classes")
    ctx.count("C13.R4", n_type, 60, "api_pb2 classes used as subscription/response types")


def classify(n: ast.Name, pm: dict, ann: set, tc: set, modname: str, where: Func | None, res: Resolver, inst_params: dict) -> str:
    if n in ann:
        return "annotation"
    p = pm.get(n)
    if n in tc:
        return "type-checking-only"
    if isinstance(p, ast.Call) and p.func is n:
        return "instantiated"
    if isinstance(p, ast.Compare):
        return "comparison"
    if isinstance(p, ast.Call) and isinstance(p.func, ast.Name) and p.func.id in ("isinstance", "issubclass", "cast"):
        return "comparison"
    if isinstance(p, ast.Subscript) and p.slice is n and isinstance(p.ctx, ast.Load):
        # TABLE[Class] read - a lookup by class, neither sent nor subscribed
        return "comparison"
    if isinstance(p, ast.Attribute) and p.value is n:
        # Class.attr (e.g. __name__, DESCRIPTOR) - neither sent nor subscribed
        return "attribute-of-class"
    if isinstance(p, ast.Dict) and modname == "core" and n in p.values:
        gp = pm.get(p)
        if isinstance(gp, ast.Assign) and any(isinstance(t, ast.Name) and t.id == "MESSAGE_TYPE_TO_PROTO" for t in gp.targets):
            return "registry"
        if isinstance(gp, ast.AnnAssign) and isinstance(gp.target, ast.Name) and gp.target.id == "MESSAGE_TYPE_TO_PROTO":
            return "registry"
    # argument of a package call whose parameter gets instantiated
    if isinstance(p, ast.Call) and where is not None:
        cs = res.callees(where, p)
        for callee in cs.funcs:
            for pname, arg in res.bind_args(callee, p).items():
                if arg is n and inst_params.get((callee.key, pname)):
                    return "instantiated"
    if isinstance(p, (ast.Tuple, ast.List, ast.Set, ast.Dict, ast.Call, ast.Starred, ast.keyword, ast.Assign, ast.Return, ast.IfExp)):
        return "typevalue"
    return "unclassified"


def _computed(ctx: Ctx, fn: Func, e: ast.expr, depth: int = 0) -> str | None:
    """None when the expression is put together from names of classes / foldable constants / the function's own
    parameters (tuples, lists, starred, tuple()/list() of those, locals assigned or appended to that way);
    otherwise what makes it a computed selection."""
    if depth > 6:
        return "too deep"
    if isinstance(e, (ast.Tuple, ast.List, ast.Set)):
        for el in e.elts:
            w = _computed(ctx, fn, el.value if isinstance(el, ast.Starred) else el, depth + 1)
            if w:
                return w
        return None
    if isinstance(e, ast.Call) and isinstance(e.func, ast.Name) and e.func.id in ("tuple", "list", "set", "frozenset") and len(e.args) == 1 and not e.keywords:
        return _computed(ctx, fn, e.args[0], depth + 1)
    if isinstance(e, ast.Name):
        if e.id in fn.param_names():
            return None
        srcs: list[ast.expr] = []
        for n in own_nodes(fn.node):
            if isinstance(n, (ast.Assign, ast.AnnAssign)) and n.value is not None:
                tg = n.targets if isinstance(n, ast.Assign) else [n.target]
                if any(isinstance(t, ast.Name) and t.id == e.id for t in tg):
                    srcs.append(n.value)
            if isinstance(n, ast.Call) and isinstance(n.func, ast.Attribute) and isinstance(n.func.value, ast.Name) and n.func.value.id == e.id and n.func.attr in ("append", "extend", "add") and n.args:
                srcs.append(n.args[0])
        if srcs:
            for v in srcs:
                w = _computed(ctx, fn, v, depth + 1)
                if w:
                    return w
            return None
        v = ctx.sym.resolve_name(fn.module.name, e.id)
        if isinstance(v, Ref) or (isinstance(v, tuple) and all(isinstance(x, Ref) for x in v)):
            return None
        return f"`{e.id}` does not fold to a tuple of classes"
    if isinstance(e, ast.BinOp) and isinstance(e.op, ast.Add):
        return _computed(ctx, fn, e.left, depth + 1) or _computed(ctx, fn, e.right, depth + 1)
    if isinstance(e, (ast.GeneratorExp, ast.ListComp, ast.SetComp, ast.DictComp)):
        return "comprehension"
    return f"`{norm(e)[:40]}`"
