"""E-TYPES (annotation based): receiver types and callee resolution.

A small, deterministic resolver sufficient for this code base: `self`, annotated
attributes / parameters / locals, constructor calls, return annotations, module
functions, nested functions, `super()`.  Everything it cannot resolve is
reported as such (kind "value" = a callable *value* whose target is unknown and
may be user code; kind "lib" = a foreign library / builtin object; kind
"unknown").  Rules treat "value"/"unknown" conservatively.
"""

from __future__ import annotations

import ast
from dataclasses import dataclass, field
from typing import Iterable

from .src import ClassInfo, Func, Repo, norm, own_nodes, walk_no_nested
from .sym import Ref, Symbols, Unknown

BUILTIN_TYPES = {"int", "float", "str", "bytes", "bool", "list", "dict", "set", "tuple", "bytearray", "memoryview", "frozenset", "object"}


_BUILTIN_METHODS = {
    m
    for t in (dict, list, set, str, bytes, tuple, bytearray)
    for m in dir(t)
    if not m.startswith("_")
}


@dataclass
class Callees:
    funcs: list[Func] = field(default_factory=list)
    kind: str = "unknown"  # "pkg" | "lib" | "value" | "unknown" | "ctor"
    note: str = ""
    cls: ClassInfo | None = None  # for constructor calls of package classes

    def __bool__(self) -> bool:
        return bool(self.funcs)


class Resolver:
    def __init__(self, repo: Repo, sym: Symbols) -> None:
        self.repo = repo
        self.sym = sym
        self._attr_types: dict[str, dict[str, set[str]]] = {}
        self._attr_sources: dict[str, dict[str, list[tuple[Func, ast.expr | None]]]] = {}
        self._local_cache: dict[tuple[str, str], set[str]] = {}
        self._busy: set[tuple[str, str]] = set()

    # ------------------------------------------------------------------ types
    def ann_types(self, ann: ast.expr | None, modname: str) -> set[str]:
        """Class names denoted by an annotation (package classes by simple name,
        foreign as 'ext:<dotted>', builtins by name, 'None')."""
        if ann is None:
            return set()
        if isinstance(ann, ast.Constant):
            if ann.value is None:
                return {"None"}
            if isinstance(ann.value, str):
                try:
                    return self.ann_types(ast.parse(ann.value, mode="eval").body, modname)
                except SyntaxError:
                    return set()
            return set()
        if isinstance(ann, ast.BinOp) and isinstance(ann.op, ast.BitOr):
            return self.ann_types(ann.left, modname) | self.ann_types(ann.right, modname)
        if isinstance(ann, ast.Subscript):
            head = norm(ann.value).split(".")[-1]
            if head in ("Optional",):
                return self.ann_types(ann.slice, modname) | {"None"}
            if head in ("Union",):
                out: set[str] = set()
                elts = ann.slice.elts if isinstance(ann.slice, ast.Tuple) else [ann.slice]
                for e in elts:
                    out |= self.ann_types(e, modname)
                return out
            if head in ("type", "Type"):
                return {f"type:{t}" for t in self.ann_types(ann.slice, modname)}
            if head in ("Callable",):
                return {"callable"}
            if head in ("Awaitable", "Coroutine"):
                return {"awaitable"}
            if head in ("list", "dict", "set", "tuple", "List", "Dict", "Set", "Tuple", "frozenset", "Iterable"):
                return {head.lower()}
            return self.ann_types(ann.value, modname)
        if isinstance(ann, ast.Name):
            if ann.id in BUILTIN_TYPES:
                return {ann.id}
            if ann.id in ("Any",):
                return {"any"}
            v = self.sym.resolve_name(modname, ann.id)
            if isinstance(v, Ref):
                if v.kind == "class":
                    return {v.name}
                if v.kind == "pb":
                    return {f"pb:{v.name}"}
                if v.kind == "ext":
                    return {f"ext:{v.name}"}
                if v.kind == "builtin":
                    return {v.name}
            if isinstance(v, str) or v is Unknown:
                # alias like `_int = int`
                tab = self.sym.table(modname).get(ann.id)
                if tab and tab[0] == "assign" and len(tab[1]) == 1 and isinstance(tab[1][0], ast.Name):
                    return self.ann_types(tab[1][0], modname)
            return set()
        if isinstance(ann, ast.Attribute):
            v = self.sym.eval(ann, modname)
            if isinstance(v, Ref):
                if v.kind == "class":
                    return {v.name}
                if v.kind == "ext":
                    return {f"ext:{v.name}"}
            return {f"ext:{norm(ann)}"}
        return set()

    def ann_elem_types(self, ann: ast.expr | None, modname: str) -> set[str]:
        """Element types of a container annotation (list[T], set[T], tuple[T, ...],
        Iterable[T]; dict[K, V] -> K)."""
        if isinstance(ann, ast.Constant) and isinstance(ann.value, str):
            try:
                ann = ast.parse(ann.value, mode="eval").body
            except SyntaxError:
                return set()
        if isinstance(ann, ast.BinOp) and isinstance(ann.op, ast.BitOr):
            return self.ann_elem_types(ann.left, modname) | self.ann_elem_types(ann.right, modname)
        if isinstance(ann, ast.Subscript):
            head = norm(ann.value).split(".")[-1]
            if head in ("list", "set", "List", "Set", "frozenset", "Iterable", "Sequence", "tuple", "Tuple", "dict", "Dict"):
                sl = ann.slice
                if isinstance(sl, ast.Tuple):
                    sl = sl.elts[0]
                return self.ann_types(sl, modname)
        return set()

    def elem_types(self, func: Func, it: ast.expr) -> set[str]:
        """Types of the elements produced by iterating *it*."""
        if isinstance(it, ast.Name):
            for sc in self.scopes(func):
                for p in sc.params():
                    if p.arg == it.id:
                        return self.ann_elem_types(p.annotation, sc.module.name)
                for st, val, ann in self.local_assignments(sc, it.id):
                    if ann is not None:
                        return self.ann_elem_types(ann, sc.module.name)
                    if val is not None:
                        return self.elem_types(sc, val)
            return set()
        if isinstance(it, ast.Attribute):
            out: set[str] = set()
            for bt in self.expr_types(func, it.value):
                ci = self.repo.classes.get(bt)
                if ci is None:
                    continue
                self.attr_types(ci, it.attr)
                for c in self.repo.mro(ci):
                    for m in c.methods.values():
                        for n in own_nodes(m.node):
                            if (
                                isinstance(n, ast.AnnAssign)
                                and isinstance(n.target, ast.Attribute)
                                and n.target.attr == it.attr
                                and norm(n.target.value) == "self"
                            ):
                                out |= self.ann_elem_types(n.annotation, c.module.name)
            return out
        if isinstance(it, ast.Call) and isinstance(it.func, ast.Attribute) and it.func.attr in ("copy", "values", "keys"):
            if it.func.attr == "copy":
                return self.elem_types(func, it.func.value)
        return set()

    def _collect_all(self) -> None:
        """Annotation pass for every class, then inference rounds to a fixpoint."""
        infer: dict[str, list[str]] = {}
        cis = [c for k, c in self.repo.classes.items() if ":" in k]
        for ci in cis:
            types: dict[str, set[str]] = {}
            sources: dict[str, list[tuple[Func, ast.expr | None]]] = {}
            for c in self.repo.mro(ci):
                for st in c.node.body:
                    if isinstance(st, ast.AnnAssign) and isinstance(st.target, ast.Name):
                        types.setdefault(st.target.id, set()).update(self.ann_types(st.annotation, c.module.name))
                for m in c.methods.values():
                    for n in own_nodes(m.node):
                        val = None
                        ann = None
                        if isinstance(n, ast.AnnAssign):
                            tgts, val, ann = [n.target], n.value, n.annotation
                        elif isinstance(n, ast.Assign):
                            tgts, val = list(n.targets), n.value
                        elif isinstance(n, ast.AugAssign):
                            tgts, val = [n.target], n.value
                        else:
                            continue
                        for t in tgts:
                            if isinstance(t, ast.Attribute) and isinstance(t.value, ast.Name) and t.value.id == "self":
                                sources.setdefault(t.attr, []).append((m, val))
                                if ann is not None:
                                    types.setdefault(t.attr, set()).update(self.ann_types(ann, c.module.name))
            self._attr_types[ci.key] = types
            self._attr_sources[ci.key] = sources
            infer[ci.key] = [a for a in sources if not types.get(a)]
        self._ready = True
        for _ in range(4):
            changed = False
            self._local_cache.clear()
            for ci in cis:
                types = self._attr_types[ci.key]
                for attr in infer[ci.key]:
                    acc: set[str] = set()
                    for m, val in self._attr_sources[ci.key][attr]:
                        if val is not None:
                            acc |= self.expr_types(m, val)
                    if acc != types.get(attr, set()):
                        types[attr] = acc
                        changed = True
            if not changed:
                break
        self._local_cache.clear()

    def attr_types(self, ci: ClassInfo, attr: str) -> set[str]:
        if not self._attr_types and not getattr(self, "_ready", False):
            self._ready = True
            self._collect_all()
        return set(self._attr_types.get(ci.key, {}).get(attr, set()))

    def attr_sources(self, ci: ClassInfo, attr: str) -> list[tuple[Func, ast.expr | None]]:
        self.attr_types(ci, attr)
        out = list(self._attr_sources[ci.key].get(attr, []))
        for sc in self.repo.subclasses(ci):
            self.attr_types(sc, attr)
            for s in self._attr_sources[sc.key].get(attr, []):
                if s not in out:
                    out.append(s)
        return out

    def scopes(self, func: Func) -> list[Func]:
        out = [func]
        while out[-1].parent is not None:
            out.append(out[-1].parent)
        return out

    def local_assignments(self, func: Func, name: str) -> list[tuple[ast.AST, ast.expr | None, ast.expr | None]]:
        """(stmt, value, annotation) for every binding of *name* in func's own body."""
        out: list[tuple[ast.AST, ast.expr | None, ast.expr | None]] = []
        for n in own_nodes(func.node):
            if isinstance(n, ast.Assign):
                for t in n.targets:
                    if isinstance(t, ast.Name) and t.id == name:
                        out.append((n, n.value, None))
                    elif isinstance(t, (ast.Tuple, ast.List)):
                        for i, el in enumerate(t.elts):
                            if isinstance(el, ast.Name) and el.id == name:
                                out.append((n, None, None))
            elif isinstance(n, ast.AnnAssign) and isinstance(n.target, ast.Name) and n.target.id == name:
                out.append((n, n.value, n.annotation))
            elif isinstance(n, ast.NamedExpr) and n.target.id == name:
                out.append((n, n.value, None))
            elif isinstance(n, (ast.For, ast.AsyncFor)):
                for el in ast.walk(n.target):
                    if isinstance(el, ast.Name) and el.id == name:
                        out.append((n, None, None))
            elif isinstance(n, (ast.With, ast.AsyncWith)):
                for it in n.items:
                    if it.optional_vars is not None:
                        for el in ast.walk(it.optional_vars):
                            if isinstance(el, ast.Name) and el.id == name:
                                out.append((n, None, None))
            elif isinstance(n, ast.ExceptHandler) and n.name == name:
                out.append((n, None, n.type))
            elif isinstance(n, ast.AugAssign) and isinstance(n.target, ast.Name) and n.target.id == name:
                out.append((n, None, None))
            elif isinstance(n, ast.comprehension):
                for el in ast.walk(n.target):
                    if isinstance(el, ast.Name) and el.id == name:
                        out.append((n, None, None))
        return out

    def name_types(self, func: Func, name: str) -> set[str]:
        key = (func.key, name)
        if key in self._local_cache:
            return set(self._local_cache[key])
        if key in self._busy:
            return set()
        self._busy.add(key)
        try:
            res = self._name_types(func, name)
        finally:
            self._busy.discard(key)
        self._local_cache[key] = res
        return set(res)

    def _name_types(self, func: Func, name: str) -> set[str]:
        for sc in self.scopes(func):
            if name in sc.param_names():
                if name in ("self",) and sc.cls is not None and sc.parent is None:
                    return {sc.cls.name}
                if name == "cls" and sc.cls is not None and sc.parent is None:
                    return {f"type:{sc.cls.name}"}
                for p in sc.params():
                    if p.arg == name:
                        return self.ann_types(p.annotation, sc.module.name)
            assigns = self.local_assignments(sc, name)
            if assigns:
                out: set[str] = set()
                for st, val, ann in assigns:
                    if ann is not None and not isinstance(st, ast.ExceptHandler):
                        out |= self.ann_types(ann, sc.module.name)
                    elif val is not None:
                        out |= self.expr_types(sc, val)
                    elif isinstance(st, (ast.For, ast.AsyncFor)) and isinstance(st.target, ast.Name):
                        out |= self.elem_types(sc, st.iter)
                    elif isinstance(st, ast.comprehension) and isinstance(st.target, ast.Name):
                        out |= self.elem_types(sc, st.iter)
                return out
            # nested function definition
            for n in own_nodes(sc.node):
                if isinstance(n, (ast.FunctionDef, ast.AsyncFunctionDef)) and n.name == name:
                    return {"function"}
        v = self.sym.resolve_name(func.module.name, name)
        if isinstance(v, Ref):
            if v.kind == "class":
                return {f"type:{v.name}"}
            if v.kind == "pb":
                return {f"type:pb:{v.name}"}
            if v.kind == "ext":
                return {f"extobj:{v.name}"}
            if v.kind == "module":
                return {f"module:{v.module}"}
            if v.kind == "func":
                return {"function"}
            if v.kind == "builtin":
                return {f"builtin:{v.name}"}
        # module-level instance, e.g. `_LOGGER = logging.getLogger(...)`
        home = func.module.name
        tab = self.sym.table(home).get(name)
        hops = 0
        while tab and tab[0] == "import" and tab[1] in self.repo.modules and hops < 5:
            home, name = tab[1], tab[2]
            tab = self.sym.table(home).get(name)
            hops += 1
        if tab and tab[0] == "assign":
            out2: set[str] = set()
            for val in tab[1]:
                if isinstance(val, ast.Call):
                    f = val.func
                    root = f
                    while isinstance(root, ast.Attribute):
                        root = root.value
                    if isinstance(root, ast.Name):
                        r = self.sym.resolve_name(home, root.id)
                        if isinstance(r, Ref) and r.kind in ("ext", "builtin"):
                            out2.add(f"ext:{norm(f)}()")
                        elif isinstance(r, Ref) and r.kind == "pb":
                            out2.add(f"pb:{r.name}")
                        elif isinstance(r, Ref) and r.kind == "class":
                            out2.add(r.name)
                elif isinstance(val, (ast.Tuple, ast.List, ast.Dict, ast.Set, ast.Constant, ast.DictComp)):
                    out2.add("builtin-value")
            return out2
        return set()

    def expr_types(self, func: Func, e: ast.expr) -> set[str]:
        if isinstance(e, ast.Name):
            return self.name_types(func, e.id)
        if isinstance(e, ast.Constant):
            if e.value is None:
                return {"None"}
            return {type(e.value).__name__}
        if isinstance(e, (ast.JoinedStr,)):
            return {"str"}
        if isinstance(e, (ast.Tuple,)):
            return {"tuple"}
        if isinstance(e, (ast.List, ast.ListComp)):
            return {"list"}
        if isinstance(e, (ast.Dict, ast.DictComp)):
            return {"dict"}
        if isinstance(e, (ast.Set, ast.SetComp)):
            return {"set"}
        if isinstance(e, ast.Await):
            return self.expr_types(func, e.value)
        if isinstance(e, ast.NamedExpr):
            return self.expr_types(func, e.value)
        if isinstance(e, ast.IfExp):
            return self.expr_types(func, e.body) | self.expr_types(func, e.orelse)
        if isinstance(e, ast.BoolOp):
            out: set[str] = set()
            for v in e.values:
                out |= self.expr_types(func, v)
            return out
        if isinstance(e, ast.Attribute):
            out2: set[str] = set()
            for bt in self.expr_types(func, e.value):
                ci = self.repo.classes.get(bt)
                if ci is not None:
                    at = self.attr_types(ci, e.attr)
                    if at:
                        out2 |= at
                        continue
                    m = self.repo.lookup_method(ci, e.attr)
                    if m is not None:
                        if any(norm(d) in ("property", "cached_property") for d in m.node.decorator_list):
                            out2 |= self.ann_types(m.node.returns, m.module.name)
                        else:
                            out2.add("boundmethod")
                        continue
                    for sc in self.repo.subclasses(ci):
                        at = self.attr_types(sc, e.attr)
                        out2 |= at
                elif bt.startswith("ext:") or bt.startswith("extobj:") or bt.startswith("module:") or bt in BUILTIN_TYPES:
                    out2.add(f"ext:{bt.split(':', 1)[-1]}.{e.attr}")
                elif bt.startswith("pb:"):
                    out2.add("pbfield")
            return out2
        if isinstance(e, ast.Call):
            cs = self.callees(func, e)
            if cs.kind == "ctor" and cs.cls is not None:
                return {cs.cls.name}
            out3: set[str] = set()
            for f in cs.funcs:
                out3 |= self.ann_types(f.node.returns, f.module.name)
            if not cs.funcs:
                # constructor of a pb class / foreign call
                ft = self.expr_types(func, e.func) if isinstance(e.func, (ast.Name, ast.Attribute)) else set()
                for t in ft:
                    if t.startswith("type:pb:"):
                        out3.add(t[len("type:") :])
                    elif t.startswith("type:"):
                        out3.add(t[len("type:") :])
                    elif t.startswith("ext") or t.startswith("builtin"):
                        out3.add(f"ext:{norm(e.func)}()")
                if not out3 and cs.kind == "lib":
                    out3.add(f"ext:{norm(e.func)}()")
            return out3
        if isinstance(e, ast.Subscript):
            bts = self.expr_types(func, e.value)
            if bts and bts <= {"bytes", "str", "bytearray", "memoryview"}:
                return bts if isinstance(e.slice, ast.Slice) else ({"int"} if bts <= {"bytes", "bytearray", "memoryview"} else {"str"})
            return set()
        if isinstance(e, (ast.BinOp, ast.Compare, ast.UnaryOp)):
            return {"builtin-value"}
        return set()

    # ---------------------------------------------------------------- callees
    def callees(self, func: Func, call: ast.Call) -> Callees:
        f = call.func
        modname = func.module.name
        if isinstance(f, ast.Name):
            # nested function in an enclosing scope?
            for sc in self.scopes(func):
                for n in own_nodes(sc.node):
                    if isinstance(n, (ast.FunctionDef, ast.AsyncFunctionDef)) and n.name == f.id:
                        fn = self.repo.funcs.get(f"{sc.module.name}:{sc.qualname}.{n.name}")
                        if fn is not None:
                            return Callees([fn], "pkg")
                if f.id in sc.param_names() or self.local_assignments(sc, f.id):
                    # a callable value held in a parameter / local
                    vals = [v for _, v, _ in self.local_assignments(sc, f.id) if v is not None]
                    if vals and f.id not in sc.param_names():
                        fs: list[Func] = []
                        allres = True
                        for v in vals:
                            sub = self._callable_value(sc, v)
                            if sub is None:
                                allres = False
                            else:
                                fs.extend(sub.funcs)
                                if sub.kind in ("value", "unknown"):
                                    allres = False
                        if allres and fs:
                            return Callees(fs, "pkg")
                        if allres and not fs:
                            return Callees([], "lib", "local bound to library callable")
                    return Callees([], "value", f"callable value '{f.id}'")
            v = self.sym.resolve_name(modname, f.id)
            if isinstance(v, Ref):
                if v.kind == "func":
                    fn = self.repo.funcs.get(f"{v.module}:{v.name}")
                    if fn is not None:
                        return Callees([fn], "pkg")
                if v.kind == "class":
                    ci = self.repo.classes.get(f"{v.module}:{v.name}")
                    if ci is not None:
                        init = self.repo.lookup_method(ci, "__init__")
                        post = self.repo.lookup_method(ci, "__post_init__")
                        fs2 = [m for m in (init, post) if m is not None]
                        return Callees(fs2, "ctor", cls=ci)
                if v.kind in ("ext", "builtin", "pb"):
                    return Callees([], "lib", f"{v.kind} {v.name}")
            # module-level alias of a function: `_handle_timeout = handle_timeout`,
            # `make_hello_request = lru_cache(...)(_make_hello_request)`
            tab = self.sym.table(modname).get(f.id)
            if tab and tab[0] == "assign":
                fs3: list[Func] = []
                ok = True
                for val in tab[1]:
                    sub = self._callable_value(func, val, module_level=True)
                    if sub is None or sub.kind in ("value", "unknown"):
                        ok = False
                    else:
                        fs3.extend(sub.funcs)
                if ok and fs3:
                    return Callees(fs3, "pkg")
                if ok:
                    return Callees([], "lib")
            if tab and tab[0] == "import":
                v2 = self.sym.resolve_name(modname, f.id)
                if v2 is Unknown:
                    # imported alias of a function in another package module
                    tgt_tab = self.sym.table(tab[1]).get(tab[2]) if tab[1] in self.repo.modules else None
                    if tgt_tab and tgt_tab[0] == "assign":
                        fs4: list[Func] = []
                        ok = True
                        tmpf = next((x for x in self.repo.funcs.values() if x.module.name == tab[1]), None)
                        for val in tgt_tab[1]:
                            sub = self._callable_value(tmpf or func, val, module_level=True, modname=tab[1])
                            if sub is None or sub.kind in ("value", "unknown"):
                                ok = False
                            else:
                                fs4.extend(sub.funcs)
                        if ok and fs4:
                            return Callees(fs4, "pkg")
                        if ok:
                            return Callees([], "lib")
            return Callees([], "unknown", f"name '{f.id}'")
        if isinstance(f, ast.Attribute):
            # super().m()
            if isinstance(f.value, ast.Call) and isinstance(f.value.func, ast.Name) and f.value.func.id == "super":
                if func.cls is not None:
                    mro = self.repo.mro(func.cls)
                    for c in mro[1:]:
                        if f.attr in c.methods:
                            return Callees([c.methods[f.attr]], "pkg")
                    return Callees([], "lib", "super() into foreign base")
            bts = self.expr_types(func, f.value)
            fs5: list[Func] = []
            kinds: set[str] = set()
            for bt in bts:
                if bt == "None":
                    continue
                isclass = bt.startswith("type:")
                cname = bt[5:] if isclass else bt
                ci = self.repo.classes.get(cname)
                if ci is not None:
                    impls = self.repo.method_impls(ci, f.attr)
                    if impls:
                        for m in impls:
                            if m not in fs5:
                                fs5.append(m)
                        kinds.add("pkg")
                        continue
                    # data attribute holding a callable?
                    srcs = self.attr_sources(ci, f.attr)
                    if srcs:
                        allres = True
                        for m, val in srcs:
                            if val is None:
                                allres = False
                                continue
                            if isinstance(val, ast.Constant) and val.value is None:
                                continue
                            sub = self._callable_value(m, val)
                            if sub is None or sub.kind in ("value", "unknown"):
                                allres = False
                            else:
                                for x in sub.funcs:
                                    if x not in fs5:
                                        fs5.append(x)
                                kinds.add(sub.kind)
                        if not allres:
                            kinds.add("value")
                        continue
                    # enum / foreign base class method (e.g. IntEnum, RecordUpdateListener)
                    kinds.add("lib")
                    continue
                if bt.startswith("module:"):
                    v = self.sym.resolve_name(bt[7:], f.attr)
                    if isinstance(v, Ref) and v.kind == "func":
                        fn = self.repo.funcs.get(f"{v.module}:{v.name}")
                        if fn is not None:
                            fs5.append(fn)
                            kinds.add("pkg")
                            continue
                    if isinstance(v, Ref) and v.kind == "class":
                        ci2 = self.repo.classes.get(f"{v.module}:{v.name}")
                        if ci2 is not None:
                            return Callees([m for m in (self.repo.lookup_method(ci2, "__init__"),) if m], "ctor", cls=ci2)
                    kinds.add("unknown")
                    continue
                if bt in ("callable", "any", "awaitable"):
                    kinds.add("value")
                    continue
                # foreign / builtin / pb object
                kinds.add("lib")
            if not bts:
                if f.attr in _BUILTIN_METHODS and not any(f.attr in c.methods for c in self.repo.classes.values()):
                    return Callees([], "lib", f"builtin-container method .{f.attr} on unresolved receiver")
                return Callees([], "unknown", f"receiver of .{f.attr} unresolved: {norm(f.value)}")
            if "value" in kinds:
                return Callees(fs5, "value", f"callable attribute .{f.attr}")
            if "unknown" in kinds:
                return Callees(fs5, "unknown", f".{f.attr}")
            if fs5:
                return Callees(fs5, "pkg")
            return Callees([], "lib", f"{sorted(bts)}.{f.attr}")
        if isinstance(f, ast.Call):
            # e.g. lru_cache(maxsize=16)(fn)(...) / partial(...)()
            return Callees([], "unknown", "call of a call result")
        if isinstance(f, ast.Subscript):
            return Callees([], "value", "subscripted callable")
        return Callees([], "unknown", norm(f))

    def _callable_value(self, func: Func, val: ast.expr, module_level: bool = False, modname: str | None = None) -> Callees | None:
        """What a callable-valued expression denotes (function reference, bound
        method, partial(...), lru_cache(...)(f), foreign bound method)."""
        mod = modname or func.module.name
        if isinstance(val, ast.Constant) and val.value is None:
            return Callees([], "lib", "None")
        if isinstance(val, ast.Name):
            if not module_level:
                for sc in self.scopes(func):
                    for n in own_nodes(sc.node):
                        if isinstance(n, (ast.FunctionDef, ast.AsyncFunctionDef)) and n.name == val.id:
                            fn = self.repo.funcs.get(f"{sc.module.name}:{sc.qualname}.{n.name}")
                            if fn is not None:
                                return Callees([fn], "pkg")
                    if val.id in sc.param_names() or self.local_assignments(sc, val.id):
                        return Callees([], "value", val.id)
            v = self.sym.resolve_name(mod, val.id)
            if isinstance(v, Ref) and v.kind == "func":
                fn = self.repo.funcs.get(f"{v.module}:{v.name}")
                return Callees([fn], "pkg") if fn else None
            if isinstance(v, Ref) and v.kind in ("ext", "builtin"):
                return Callees([], "lib")
            tab = self.sym.table(mod).get(val.id)
            if tab and tab[0] == "assign" and len(tab[1]) == 1 and tab[1][0] is not None:
                return self._callable_value(func, tab[1][0], True, mod)
            return None
        if isinstance(val, ast.Attribute):
            bts = self.expr_types(func, val.value) if not module_level else set()
            if module_level:
                v = self.sym.eval(val, mod)
                if isinstance(v, Ref) and v.kind == "ext":
                    return Callees([], "lib")
                root: ast.expr = val
                while isinstance(root, (ast.Attribute, ast.Call)):
                    root = root.value if isinstance(root, ast.Attribute) else root.func
                if isinstance(root, ast.Name):
                    rv = self.sym.resolve_name(mod, root.id)
                    if isinstance(rv, Ref) and rv.kind in ("ext", "builtin"):
                        return Callees([], "lib")
                return None
            fs: list[Func] = []
            lib = False
            for bt in bts:
                if bt == "None":
                    continue
                ci = self.repo.classes.get(bt[5:] if bt.startswith("type:") else bt)
                if ci is not None:
                    impls = self.repo.method_impls(ci, val.attr)
                    if impls:
                        fs.extend(impls)
                        continue
                    return Callees([], "value", f".{val.attr}")
                lib = True
            if fs:
                return Callees(fs, "pkg")
            if lib:
                return Callees([], "lib")
            return None
        if isinstance(val, ast.Call):
            fn_txt = norm(val.func)
            if fn_txt.split(".")[-1] == "partial" and val.args:
                return self._callable_value(func, val.args[0], module_level, mod)
            if isinstance(val.func, ast.Call) and norm(val.func.func).split(".")[-1] in ("lru_cache", "cache") and val.args:
                return self._callable_value(func, val.args[0], module_level, mod)
            if fn_txt.split(".")[-1] in ("lru_cache", "cache") and val.args:
                return self._callable_value(func, val.args[0], module_level, mod)
            if not module_level:
                # a callable returned by a package function: follow its return expressions
                key = ("retval", func.key, id(val))
                if key in self._busy:
                    return None
                self._busy.add(key)  # type: ignore[arg-type]
                try:
                    cs = self.callees(func, val)
                    if cs.kind == "pkg" and cs.funcs:
                        fs: list[Func] = []
                        lib = False
                        for c in cs.funcs:
                            rets = [n.value for n in own_nodes(c.node) if isinstance(n, ast.Return) and n.value is not None]
                            if not rets:
                                return None
                            for r in rets:
                                sub = self._callable_value(c, r)
                                if sub is None or sub.kind in ("value", "unknown"):
                                    return None
                                fs.extend(x for x in sub.funcs if x not in fs)
                                lib = lib or sub.kind == "lib"
                        if fs:
                            return Callees(fs, "pkg")
                        if lib:
                            return Callees([], "lib")
                finally:
                    self._busy.discard(key)  # type: ignore[arg-type]
            return None
        if isinstance(val, ast.Subscript) or (isinstance(val, ast.Call) and isinstance(val.func, ast.Attribute) and val.func.attr == "get"):
            base = val.value if isinstance(val, ast.Subscript) else val.func.value  # type: ignore[union-attr]
            tv = self.sym.eval(base, mod)
            vals = list(tv.values()) if isinstance(tv, dict) else list(tv) if isinstance(tv, (tuple, list)) else []
            if vals and all(isinstance(x, Ref) and x.kind == "pb" for x in vals):
                return Callees([], "lib", "api_pb2 class from a registry table")
            return None
        if isinstance(val, ast.Lambda):
            return Callees([], "value", "lambda")
        return None

    # ------------------------------------------------------------ arguments
    def bind_args(self, callee: Func, call: ast.Call, bound_self: bool | None = None) -> dict[str, ast.expr]:
        """Map callee parameter names to argument expressions of *call*."""
        a = callee.node.args
        pos = [p.arg for p in [*a.posonlyargs, *a.args]]
        is_method = callee.cls is not None and callee.parent is None
        static = any(norm(d) == "staticmethod" for d in callee.node.decorator_list)
        if bound_self is None:
            bound_self = is_method and not static
        if bound_self and pos:
            pos = pos[1:]
        out: dict[str, ast.expr] = {}
        for i, arg in enumerate(call.args):
            if isinstance(arg, ast.Starred):
                break
            if i < len(pos):
                out[pos[i]] = arg
        for kw in call.keywords:
            if kw.arg is not None:
                out[kw.arg] = kw.value
        return out


def calls_in(node: ast.AST) -> Iterable[ast.Call]:
    for n in walk_no_nested(node):
        if isinstance(n, ast.Call):
            yield n
