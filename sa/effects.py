"""E-EFF: simple interprocedural effect summaries (fixpoints over the resolved call graph).

may_raise(f):   an exception can propagate out of f for a reason visible in package code
                (raise statement, await, call of an unknown/user callable, assert, or a callee
                that may raise).  Library calls are taken as non-raising here - this summary is
                only used to avoid phantom exceptional exits in pairing rules, never to prove
                absence of exceptions.
may_suspend(f): f contains a primitive suspension point (M1) or awaits a package coroutine that does.
"""

from __future__ import annotations

import ast
from typing import Any

from .cfg import CFG, Node, cfg_of, walk_own
from .resolve import Resolver
from .src import Func, own_nodes


class Effects:
    def __init__(self, ctx: Any, res: Resolver) -> None:
        self.ctx = ctx
        self.res = res
        self.funcs = ctx.repo.all_funcs()
        self.may_raise: dict[str, bool] = {f.key: False for f in self.funcs}
        self.may_suspend: dict[str, bool] = {f.key: False for f in self.funcs}
        self._solve()

    def node_raises(self, fn: Func, n: Node) -> bool:
        """Can node n really raise (for the purposes above)?"""
        if n.kind in ("with-enter", "with-exit") and n.is_async:
            return True
        if n.kind == "for" and n.is_async:
            return True
        if n.ast is None or n.kind in ("handler", "dispatch", "join", "with-exit", "for"):
            return False
        if isinstance(n.ast, (ast.Raise, ast.Assert)):
            return True
        for x in walk_own(n.ast):
            if isinstance(x, (ast.Await, ast.Yield, ast.YieldFrom)):
                return True
            if isinstance(x, ast.Call):
                cs = self.res.callees(fn, x)
                if cs.kind in ("value", "unknown"):
                    return True
                if cs.kind in ("pkg", "ctor"):
                    for c in cs.funcs:
                        if c.is_async:
                            continue  # creating the coroutine object does not run it
                        if self.may_raise.get(c.key, True):
                            return True
            if isinstance(x, ast.Starred) or (isinstance(x, ast.Assign) and any(isinstance(t, (ast.List, ast.Tuple)) for t in x.targets)):
                pass
        return False

    def node_suspends(self, fn: Func, n: Node) -> bool:
        if n.kind in ("with-enter", "with-exit", "for") and n.is_async:
            return True
        if n.ast is None or n.kind in ("handler", "dispatch", "join", "with-exit", "for"):
            return False
        for x in walk_own(n.ast):
            if isinstance(x, ast.Await):
                v = x.value
                if isinstance(v, ast.Call):
                    cs = self.res.callees(fn, v)
                    if cs.kind == "pkg" and cs.funcs and all(c.is_async for c in cs.funcs):
                        if any(self.may_suspend.get(c.key, True) for c in cs.funcs):
                            return True
                        continue
                return True
        return False

    def raise_reachable(self, fn: Func) -> bool:
        g = cfg_of(self.ctx, fn)
        seen = {g.entry}
        todo = [g.entry]
        while todo:
            n = todo.pop()
            if n is g.raise_exit:
                return True
            really = None
            for label, s in n.succ:
                if label == "exc":
                    if really is None:
                        really = self.node_raises(fn, n)
                    if not really:
                        continue
                if s not in seen:
                    seen.add(s)
                    todo.append(s)
        return False

    def _solve(self) -> None:
        for _ in range(20):
            changed = False
            for f in self.funcs:
                if not self.may_raise[f.key] and self.raise_reachable(f):
                    self.may_raise[f.key] = True
                    changed = True
                if not self.may_suspend[f.key]:
                    g = cfg_of(self.ctx, f)
                    if any(self.node_suspends(f, n) for n in g.reachable()):
                        self.may_suspend[f.key] = True
                        changed = True
            if not changed:
                break


def effects(ctx: Any) -> Effects:
    from .closed import resolver

    return ctx.service("effects", lambda: Effects(ctx, resolver(ctx)))
