"""E-MUT: checker self-test.  Each variant is one small edit of a scratch copy of
the package (outside /repo and /verif, removed at once) that still compiles; the
named rule set must report a violation (exit 1) for it, and must be silent on
the behaviour-preserving variants (expect="silent").

Variants are text edits anchored on a unique source fragment; a variant whose
anchor no longer exists in the current tree is skipped and counted as skipped.
"""

from __future__ import annotations

import json
import os
import py_compile
import shutil
import subprocess
import sys
import tempfile
from concurrent.futures import ThreadPoolExecutor
from dataclasses import dataclass
from pathlib import Path

from .src import PKG, repo_root

VERIF = Path(__file__).resolve().parent.parent


@dataclass
class Variant:
    vid: str
    prop: str
    file: str  # relative to the package dir
    old: str
    new: str
    expect: str = "fire"  # "fire" | "silent"
    rule: str = ""  # substring expected in the report (rule id), optional
    count: int = 1  # which occurrence (1-based) of `old` to replace; 0 = must be unique


def load_variants() -> list[Variant]:
    out: list[Variant] = []
    d = VERIF / "sa" / "variants"
    for p in sorted(d.glob("*.json")):
        for rec in json.loads(p.read_text()):
            out.append(Variant(**rec))
    return out


def run_variant(v: Variant, src_pkg: Path) -> dict:
    tmp = Path(tempfile.mkdtemp(prefix="sa-mut-"))
    try:
        dst = tmp / PKG
        shutil.copytree(src_pkg, dst, ignore=shutil.ignore_patterns("__pycache__", "*.so", "*.pyc"))
        f = dst / v.file
        if not f.is_file():
            return {"vid": v.vid, "status": "skipped", "why": "file missing"}
        text = f.read_text()
        n = text.count(v.old)
        if n == 0 or (v.count == 0 and n != 1) or (v.count > n):
            return {"vid": v.vid, "status": "skipped", "why": f"anchor occurs {n}x"}
        if v.count in (0, 1):
            new_text = text.replace(v.old, v.new, 1)
        else:
            idx = -1
            for _ in range(v.count):
                idx = text.index(v.old, idx + 1)
            new_text = text[:idx] + v.new + text[idx + len(v.old) :]
        f.write_text(new_text)
        if f.suffix == ".py":
            try:
                py_compile.compile(str(f), doraise=True, cfile=str(tmp / "x.pyc"))
            except py_compile.PyCompileError as e:
                return {"vid": v.vid, "status": "broken-variant", "why": str(e)[:200]}
        env = dict(os.environ)
        env["VERIF_REPO"] = str(tmp)
        env["VERIF_EVIDENCE_DIR"] = str(tmp / "evidence")
        env.pop("VERIF_TIER", None)
        p = subprocess.run(
            [sys.executable, "-m", "sa", "check", v.prop, "--tier", "quick"],
            cwd=str(VERIF), env=env, capture_output=True, text=True, timeout=300,
        )
        out = p.stdout + p.stderr
        fired = p.returncode == 1 and "VIOLATION" in out
        if v.expect == "fire":
            ok = fired and (not v.rule or v.rule in out)
        else:
            ok = p.returncode == 0 and "VIOLATION" not in out
        return {
            "vid": v.vid, "prop": v.prop, "expect": v.expect, "rc": p.returncode,
            "status": "ok" if ok else "MISSED" if v.expect == "fire" else "FALSE-ALARM",
            "report": [ln for ln in out.splitlines() if "VIOLATION" in ln or "ANALYSIS-ERROR" in ln or (v.rule and v.rule in ln)][:4],
        }
    finally:
        shutil.rmtree(tmp, ignore_errors=True)


@dataclass
class Seeded:
    sid: str  # directory name under /verif/seeded
    prop: str
    patch: Path
    fired: list[str]  # checks recorded as firing when the change was confirmed


def load_seeded() -> list[Seeded]:
    out: list[Seeded] = []
    d = VERIF / "seeded"
    if not d.is_dir():
        return out
    for m in sorted(d.glob("*/meta.json")):
        meta = json.loads(m.read_text())
        out.append(Seeded(m.parent.name, meta["property"], m.parent / "patch.diff", list(meta.get("checks_that_fire", []))))
    return out


def run_seeded(sd: Seeded, prop: str, src_pkg: Path) -> dict:
    """Apply an independently written breaking change (kept under /verif/seeded) to a scratch copy
    and require the check of `prop` to report it."""
    tmp = Path(tempfile.mkdtemp(prefix="sa-seed-"))
    try:
        shutil.copytree(src_pkg, tmp / PKG, ignore=shutil.ignore_patterns("__pycache__", "*.so", "*.pyc"))
        p = subprocess.run(["git", "apply", "--whitespace=nowarn", str(sd.patch)], cwd=str(tmp), capture_output=True, text=True)
        if p.returncode != 0:
            return {"vid": f"seeded:{sd.sid}", "prop": prop, "status": "skipped", "why": "patch no longer applies"}
        env = dict(os.environ)
        env["VERIF_REPO"] = str(tmp)
        env["VERIF_EVIDENCE_DIR"] = str(tmp / "evidence")
        env.pop("VERIF_TIER", None)
        q = subprocess.run([sys.executable, "-m", "sa", "check", prop, "--tier", "quick"], cwd=str(VERIF), env=env, capture_output=True, text=True, timeout=300)
        out = q.stdout + q.stderr
        fired = q.returncode == 1 and "VIOLATION" in out
        return {
            "vid": f"seeded:{sd.sid}", "prop": prop, "expect": "fire", "rc": q.returncode, "status": "ok" if fired else "MISSED",
            "report": [ln for ln in out.splitlines() if "VIOLATION" in ln or "ANALYSIS-ERROR" in ln][:3],
        }
    finally:
        shutil.rmtree(tmp, ignore_errors=True)


def load_refactors() -> list[tuple[str, str, Path]]:
    """(id, property it was written for, diff) of the behaviour-preserving changes kept under /verif/refactors."""
    out = []
    d = VERIF / "refactors"
    if d.is_dir():
        for p in sorted(list(d.glob("C*-R*.diff")) + list(d.glob("C*-S*.diff")) + list(d.glob("C*-T*.diff")) + list(d.glob("C*-U*.diff")) + list(d.glob("C*-V*.diff")) + list(d.glob("C*-W*.diff")) + list(d.glob("C*-X*.diff"))):
            out.append((p.stem, p.stem.split("-")[0], p))
    return out


def run_refactor(rid: str, prop: str, diff: Path, src_pkg: Path) -> dict:
    """A behaviour-preserving change written by an independent sub-agent: the check must stay silent (exit 0)."""
    tmp = Path(tempfile.mkdtemp(prefix="sa-refac-"))
    try:
        shutil.copytree(src_pkg, tmp / PKG, ignore=shutil.ignore_patterns("__pycache__", "*.so", "*.pyc"))
        p = subprocess.run(["git", "apply", "--whitespace=nowarn", str(diff)], cwd=str(tmp), capture_output=True, text=True)
        if p.returncode != 0:
            return {"vid": f"refactor:{rid}", "prop": prop, "status": "skipped", "why": "diff no longer applies"}
        env = dict(os.environ)
        env["VERIF_REPO"] = str(tmp)
        env["VERIF_EVIDENCE_DIR"] = str(tmp / "evidence")
        env.pop("VERIF_TIER", None)
        q = subprocess.run([sys.executable, "-m", "sa", "check", prop, "--tier", "quick"], cwd=str(VERIF), env=env, capture_output=True, text=True, timeout=300)
        out = q.stdout + q.stderr
        return {
            "vid": f"refactor:{rid}", "prop": prop, "expect": "silent", "rc": q.returncode, "status": "ok" if q.returncode == 0 else "FALSE-ALARM",
            "report": [ln for ln in out.splitlines() if "VIOLATION" in ln or "ANALYSIS-ERROR" in ln][:3],
        }
    finally:
        shutil.rmtree(tmp, ignore_errors=True)


def selftest(props: list[str] | None = None, jobs: int = 16, only: str | None = None, seeded: bool = True) -> tuple[list[dict], int]:
    vs = [v for v in load_variants() if (not props or v.prop in props) and (not only or only in v.vid)]
    src_pkg = repo_root() / PKG
    jobs_: list = [("v", v) for v in vs]
    if seeded:
        for sd in load_seeded():
            for p in sd.fired:
                if (not props or p in props) and (not only or only in sd.sid):
                    jobs_.append(("s", (sd, p)))

    if seeded:
        for rid, rprop, diff in load_refactors():
            if (not props or rprop in props) and (not only or only in rid):
                jobs_.append(("r", (rid, rprop, diff)))

    def one(j):
        kind, x = j
        try:
            if kind == "r":
                return run_refactor(x[0], x[1], x[2], src_pkg)
            return run_variant(x, src_pkg) if kind == "v" else run_seeded(x[0], x[1], src_pkg)
        except subprocess.TimeoutExpired:
            return {"vid": getattr(x, "vid", str(x)), "status": "broken-variant", "why": "timeout"}

    with ThreadPoolExecutor(max_workers=jobs) as ex:
        results = list(ex.map(one, jobs_))
    bad = sum(1 for r in results if r["status"] in ("MISSED", "FALSE-ALARM", "broken-variant"))
    return results, bad


if __name__ == "__main__":
    import argparse

    ap = argparse.ArgumentParser()
    ap.add_argument("props", nargs="*")
    ap.add_argument("--only")
    ap.add_argument("-v", action="store_true")
    a = ap.parse_args()
    results, bad = selftest([p.upper() for p in a.props] or None, only=a.only)
    for r in results:
        if a.v or r["status"] != "ok":
            print(r)
    from collections import Counter

    print(Counter(r["status"] for r in results))
    sys.exit(1 if bad else 0)
