"""E-CFG: per-function control-flow graph over the statement kinds the repo uses.

Nodes are simple statements, condition atoms (short-circuit tests are split, so
every atom has a 'true' and a 'false' out-edge), loop heads, with-enter/exit,
except-dispatch points.  `finally` bodies and with-exits are inlined once per
way of leaving the protected region (normal, exception, return, break,
continue).  Any node whose expression can raise has an 'exc' edge to the
innermost handler / cleanup / the function's exceptional exit.

E-DF: `forward()` is a plain worklist solver for monotone forward analyses.
"""

from __future__ import annotations

import ast
from dataclasses import dataclass, field
from typing import Any, Callable, Iterator

from .src import AnalysisError, Func, norm, short

RAISING = (ast.Call, ast.Await, ast.Subscript, ast.Raise, ast.Assert, ast.Delete, ast.Import, ast.ImportFrom, ast.Yield, ast.YieldFrom)


@dataclass(eq=False)
class Node:
    id: int
    kind: str  # entry exit raise stmt cond for-init for with-enter with-exit dispatch handler join
    ast: ast.AST | None = None
    succ: list[tuple[str, "Node"]] = field(default_factory=list)
    pred: list[tuple[str, "Node"]] = field(default_factory=list)
    is_async: bool = False  # async with / async for
    copy_of: str = ""  # "finally"/"with-exit" copies: which way of leaving ("normal","exc","return","break","continue")
    handler_type: str = ""  # for handler nodes: normalised exception type expr ("" = bare)
    in_handler: tuple[str, ...] = ()  # enclosing except-handler types (innermost last)
    depth_try: int = 0

    @property
    def lineno(self) -> int:
        return getattr(self.ast, "lineno", 0) if self.ast is not None else 0

    def text(self, n: int = 90) -> str:
        if self.ast is None:
            return f"<{self.kind}>"
        if self.kind in ("with-enter", "with-exit"):
            items = ", ".join(norm(i.context_expr) for i in self.ast.items)  # type: ignore[attr-defined]
            a = "async " if self.is_async else ""
            return f"<{self.kind} {a}with {short(ast.parse('x').body[0], 1) if False else items[:n]}>"
        if self.kind == "for":
            return f"<for {norm(self.ast.target)} in ...>"  # type: ignore[attr-defined]
        if self.kind == "for-init":
            return f"<iter {short(self.ast.iter, n)}>"  # type: ignore[attr-defined]
        if self.kind == "handler":
            return f"<except {self.handler_type or 'BaseException'}>"
        if self.kind == "cond":
            return f"<test {short(self.ast, n)}>"
        if isinstance(self.ast, (ast.FunctionDef, ast.AsyncFunctionDef, ast.ClassDef)):
            return f"<def {self.ast.name}>"
        return short(self.ast, n)

    def __repr__(self) -> str:
        return f"N{self.id}:{self.kind}:{self.text(40)}"


class CFG:
    def __init__(self, func: Func) -> None:
        self.func = func
        self.nodes: list[Node] = []
        self._reach: list[Node] | None = None
        self.entry = self.new("entry")
        self.exit = self.new("exit")
        self.raise_exit = self.new("raise")
        _Builder(self).build()

    def new(self, kind: str, node: ast.AST | None = None, **kw: Any) -> Node:
        n = Node(len(self.nodes), kind, node, **kw)
        self.nodes.append(n)
        return n

    def edge(self, a: Node, label: str, b: Node) -> None:
        if (label, b) not in a.succ:
            a.succ.append((label, b))
            b.pred.append((label, a))

    def reachable(self) -> list[Node]:
        """Reachable nodes in a deterministic order (construction order ~ source order)."""
        if self._reach is None:
            seen = {self.entry}
            st = [self.entry]
            while st:
                n = st.pop()
                for _, s in n.succ:
                    if s not in seen:
                        seen.add(s)
                        st.append(s)
            self._reach = sorted(seen, key=lambda n: n.id)
        return self._reach

    def nodes_for(self, a: ast.AST) -> list[Node]:
        """CFG nodes (incl. finally copies) whose ast is *a*."""
        return [n for n in self.nodes if n.ast is a]

    def find(self, pred: Callable[[Node], bool]) -> list[Node]:
        return [n for n in self.reachable() if pred(n)]

    def dump(self) -> str:
        out = []
        for n in self.nodes:
            out.append(f"{n!r} -> " + ", ".join(f"{l}:N{s.id}" for l, s in n.succ))
        return "\n".join(out)


Frontier = list  # list[tuple[Node, str]]


@dataclass
class _Ctx:
    exc: Callable[[], Node]  # where a raising node goes
    brk: Callable[[], Node] | None = None
    cont: Callable[[], Node] | None = None
    ret: Callable[[], Node] | None = None
    in_handler: tuple[str, ...] = ()


class _Builder:
    def __init__(self, cfg: CFG) -> None:
        self.g = cfg

    def build(self) -> None:
        g = self.g
        ctx = _Ctx(exc=lambda: g.raise_exit, ret=lambda: g.exit)
        fr = self.block(g.func.node.body, [(g.entry, "next")], ctx)
        self.connect(fr, g.exit)

    # ------------------------------------------------------------- helpers
    def connect(self, fr: Frontier, to: Node) -> None:
        for n, label in fr:
            self.g.edge(n, label, to)

    def node(self, kind: str, a: ast.AST | None, ctx: _Ctx, **kw: Any) -> Node:
        n = self.g.new(kind, a, **kw)
        n.in_handler = ctx.in_handler
        return n

    def may_raise(self, a: ast.AST) -> bool:
        for x in walk_own(a):
            if isinstance(x, RAISING):
                return True
        return False

    def raising(self, n: Node, ctx: _Ctx, force: bool = False) -> None:
        if force or (n.ast is not None and self.may_raise(n.ast)):
            self.g.edge(n, "exc", ctx.exc())

    def block(self, stmts: list[ast.stmt], fr: Frontier, ctx: _Ctx) -> Frontier:
        for st in stmts:
            if not fr:
                break  # unreachable code after return/raise
            fr = self.stmt(st, fr, ctx)
        return fr

    # ------------------------------------------------------------ conditions
    def cond(self, test: ast.expr, fr: Frontier, ctx: _Ctx) -> tuple[Frontier, Frontier]:
        """Returns (true frontier, false frontier)."""
        while isinstance(test, ast.Call) and isinstance(test.func, ast.Name) and test.func.id == "bool" and len(test.args) == 1 and not test.keywords:
            test = test.args[0]  # bool(E) in a test position is E
        if isinstance(test, ast.BoolOp):
            if isinstance(test.op, ast.And):
                falses: Frontier = []
                cur = fr
                for v in test.values:
                    t, f = self.cond(v, cur, ctx)
                    falses.extend(f)
                    cur = t
                return cur, falses
            trues: Frontier = []
            cur = fr
            for v in test.values:
                t, f = self.cond(v, cur, ctx)
                trues.extend(t)
                cur = f
            return trues, cur
        if isinstance(test, ast.UnaryOp) and isinstance(test.op, ast.Not):
            t, f = self.cond(test.operand, fr, ctx)
            return f, t
        n = self.node("cond", test, ctx)
        self.connect(fr, n)
        self.raising(n, ctx)
        if isinstance(test, ast.Constant):
            if test.value:
                return [(n, "true")], []
            return [], [(n, "false")]
        if norm(test) in ("TYPE_CHECKING", "typing.TYPE_CHECKING"):
            return [], [(n, "false")]
        return [(n, "true")], [(n, "false")]

    # ------------------------------------------------------------ statements
    def stmt(self, st: ast.stmt, fr: Frontier, ctx: _Ctx) -> Frontier:
        g = self.g
        if isinstance(st, ast.If):
            t, f = self.cond(st.test, fr, ctx)
            out = self.block(st.body, t, ctx)
            out = out + (self.block(st.orelse, f, ctx) if st.orelse else f)
            return out
        if isinstance(st, ast.While):
            head = self.node("join", st, ctx)
            self.connect(fr, head)
            t, f = self.cond(st.test, [(head, "next")], ctx)
            after = self.node("join", None, ctx)
            lctx = _Ctx(ctx.exc, brk=lambda: after, cont=lambda: head, ret=ctx.ret, in_handler=ctx.in_handler)
            body_out = self.block(st.body, t, lctx)
            for n, label in body_out:
                g.edge(n, "back" if label == "next" else label, head)
            out = self.block(st.orelse, f, ctx) if st.orelse else f
            self.connect(out, after)
            return [(after, "next")]
        if isinstance(st, (ast.For, ast.AsyncFor)):
            init = self.node("for-init", st, ctx)
            self.connect(fr, init)
            self.raising(init, ctx)
            head = self.node("for", st, ctx, is_async=isinstance(st, ast.AsyncFor))
            g.edge(init, "next", head)
            if isinstance(st, ast.AsyncFor):
                self.raising(head, ctx, force=True)
            after = self.node("join", None, ctx)
            lctx = _Ctx(ctx.exc, brk=lambda: after, cont=lambda: head, ret=ctx.ret, in_handler=ctx.in_handler)
            body_out = self.block(st.body, [(head, "true")], lctx)
            for n, label in body_out:
                g.edge(n, "back" if label == "next" else label, head)
            out = self.block(st.orelse, [(head, "false")], ctx) if st.orelse else [(head, "false")]
            self.connect(out, after)
            return [(after, "next")]
        if isinstance(st, ast.Try):
            return self.try_(st, fr, ctx)
        if isinstance(st, (ast.With, ast.AsyncWith)):
            return self.with_(st, fr, ctx)
        if isinstance(st, ast.Return):
            n = self.node("stmt", st, ctx)
            self.connect(fr, n)
            self.raising(n, ctx)
            assert ctx.ret is not None
            g.edge(n, "return", ctx.ret())
            return []
        if isinstance(st, ast.Raise):
            n = self.node("stmt", st, ctx)
            self.connect(fr, n)
            g.edge(n, "exc", ctx.exc())
            return []
        if isinstance(st, ast.Break):
            n = self.node("stmt", st, ctx)
            self.connect(fr, n)
            if ctx.brk is None:
                raise AnalysisError("break outside loop")
            g.edge(n, "break", ctx.brk())
            return []
        if isinstance(st, ast.Continue):
            n = self.node("stmt", st, ctx)
            self.connect(fr, n)
            if ctx.cont is None:
                raise AnalysisError("continue outside loop")
            g.edge(n, "continue", ctx.cont())
            return []
        if isinstance(st, (ast.Assign, ast.AugAssign, ast.AnnAssign, ast.Expr, ast.Pass, ast.Delete, ast.Assert, ast.Global, ast.Nonlocal, ast.Import, ast.ImportFrom, ast.FunctionDef, ast.AsyncFunctionDef, ast.ClassDef)):
            if isinstance(st, ast.AnnAssign) and st.value is None:
                return fr  # bare annotation: no runtime effect
            n = self.node("stmt", st, ctx)
            self.connect(fr, n)
            if not isinstance(st, (ast.FunctionDef, ast.AsyncFunctionDef, ast.ClassDef)):
                self.raising(n, ctx)
            return [(n, "next")]
        raise AnalysisError(f"{self.g.func.key}: statement kind {type(st).__name__} is outside the CFG builder's fragment (line {st.lineno})")

    # ------------------------------------------------------------------ try
    def try_(self, st: ast.Try, fr: Frontier, ctx: _Ctx) -> Frontier:
        g = self.g
        has_fin = bool(st.finalbody)

        def fin_copy(way: str, then: Callable[[], Node], octx: _Ctx) -> Callable[[], Node]:
            """Lazy inlined copy of the finally body for one way of leaving; returns its entry."""
            cache: list[Node] = []

            def get() -> Node:
                if cache:
                    return cache[0]
                entry = self.node("join", None, octx, copy_of=f"finally:{way}")
                cache.append(entry)
                before = len(g.nodes)
                out = self.block(st.finalbody, [(entry, "next")], octx)
                for n in g.nodes[before:]:
                    if not n.copy_of:
                        n.copy_of = f"finally:{way}"
                self.connect(out, then())
                return entry

            return get

        if has_fin:
            exc_after = fin_copy("exc", ctx.exc, ctx)
            ret_after = fin_copy("return", ctx.ret, ctx) if ctx.ret else None  # type: ignore[arg-type]
            brk_after = fin_copy("break", ctx.brk, ctx) if ctx.brk else None
            cont_after = fin_copy("continue", ctx.cont, ctx) if ctx.cont else None
        else:
            exc_after, ret_after, brk_after, cont_after = ctx.exc, ctx.ret, ctx.brk, ctx.cont

        # context for handlers / else: exceptions leave through finally
        def hctx(types: tuple[str, ...]) -> _Ctx:
            return _Ctx(exc_after, brk=brk_after, cont=cont_after, ret=ret_after, in_handler=types)

        dispatch: list[Node] = []

        def get_dispatch() -> Node:
            if not dispatch:
                d = self.node("dispatch", st, ctx)
                dispatch.append(d)
                catch_all = False
                for h in st.handlers:
                    ht = norm(h.type) if h.type is not None else ""
                    hn = self.node("handler", h, ctx, handler_type=ht)
                    hn.in_handler = ctx.in_handler + (ht or "BaseException",)
                    g.edge(d, "handler", hn)
                    out = self.block(h.body, [(hn, "next")], hctx(ctx.in_handler + (ht or "BaseException",)))
                    handler_outs.extend(out)
                    if h.type is None or _catches_all(h.type):
                        catch_all = True
                if not catch_all:
                    g.edge(d, "unhandled", exc_after())
            return dispatch[0]

        handler_outs: Frontier = []
        if st.handlers:
            body_ctx = _Ctx(get_dispatch, brk=brk_after, cont=cont_after, ret=ret_after, in_handler=ctx.in_handler)
        else:
            body_ctx = _Ctx(exc_after, brk=brk_after, cont=cont_after, ret=ret_after, in_handler=ctx.in_handler)
        body_out = self.block(st.body, fr, body_ctx)
        if st.orelse:
            body_out = self.block(st.orelse, body_out, hctx(ctx.in_handler))
        normal = body_out + handler_outs
        if has_fin and normal:
            entry = self.node("join", None, ctx, copy_of="finally:normal")
            self.connect(normal, entry)
            before = len(g.nodes)
            out = self.block(st.finalbody, [(entry, "next")], ctx)
            for n in g.nodes[before:]:
                if not n.copy_of:
                    n.copy_of = "finally:normal"
            return out
        return normal

    # ----------------------------------------------------------------- with
    def with_(self, st: ast.With | ast.AsyncWith, fr: Frontier, ctx: _Ctx) -> Frontier:
        g = self.g
        is_async = isinstance(st, ast.AsyncWith)
        enter = self.node("with-enter", st, ctx, is_async=is_async)
        self.connect(fr, enter)
        self.raising(enter, ctx, force=True)

        def exit_copy(way: str, then: Callable[[], Node] | None) -> Callable[[], Node] | None:
            if then is None:
                return None
            cache: list[Node] = []

            def get() -> Node:
                if not cache:
                    x = self.node("with-exit", st, ctx, is_async=is_async, copy_of=f"with:{way}")
                    cache.append(x)
                    assert then is not None
                    g.edge(x, "next" if way != "exc" else "exc", then())
                    if way != "exc":
                        g.edge(x, "exc", ctx.exc())
                return cache[0]

            return get

        exc_x = exit_copy("exc", ctx.exc)
        assert exc_x is not None
        bctx = _Ctx(exc_x, brk=exit_copy("break", ctx.brk), cont=exit_copy("continue", ctx.cont), ret=exit_copy("return", ctx.ret), in_handler=ctx.in_handler)
        out = self.block(st.body, [(enter, "next")], bctx)
        if out:
            x = self.node("with-exit", st, ctx, is_async=is_async, copy_of="with:normal")
            self.connect(out, x)
            g.edge(x, "exc", ctx.exc())
            return [(x, "next")]
        return []


def _catches_all(t: ast.expr) -> bool:
    """`except BaseException` or a tuple naming Exception together with CancelledError:
    nothing the rules care about (everything except KeyboardInterrupt/SystemExit/
    GeneratorExit) gets past it."""
    names = [norm(e).split(".")[-1] for e in (t.elts if isinstance(t, ast.Tuple) else [t])]
    if "BaseException" in names:
        return True
    return "Exception" in names and "CancelledError" in names


# ----------------------------------------------------------------- walking
def walk_own(a: ast.AST) -> Iterator[ast.AST]:
    """Sub-nodes evaluated as part of this CFG node (no nested defs/lambdas; for
    compound statements only the header expressions)."""
    if a is None or isinstance(a, (ast.FunctionDef, ast.AsyncFunctionDef, ast.ClassDef, ast.Lambda)):
        return
    if isinstance(a, (ast.With, ast.AsyncWith)):
        for it in a.items:
            yield from walk_eval(it.context_expr)
        return
    if isinstance(a, (ast.For, ast.AsyncFor)):
        yield from walk_eval(a.iter)
        return
    if isinstance(a, (ast.While, ast.If, ast.Try, ast.ExceptHandler)):
        return
    yield from walk_eval(a)


def walk_eval(a: ast.AST) -> Iterator[ast.AST]:
    """Post-order walk in (approximate) evaluation order."""
    if isinstance(a, (ast.FunctionDef, ast.AsyncFunctionDef, ast.ClassDef, ast.Lambda)):
        yield a
        return
    if isinstance(a, ast.Assign):
        yield from walk_eval(a.value)
        for t in a.targets:
            yield from walk_eval(t)
    elif isinstance(a, ast.AugAssign):
        yield from walk_eval(a.value)
        yield from walk_eval(a.target)
    elif isinstance(a, ast.AnnAssign):
        if a.value is not None:
            yield from walk_eval(a.value)
        yield from walk_eval(a.target)
    elif isinstance(a, ast.NamedExpr):
        yield from walk_eval(a.value)
        yield from walk_eval(a.target)
    elif isinstance(a, ast.comprehension):
        yield from walk_eval(a.iter)
        yield from walk_eval(a.target)
        for i in a.ifs:
            yield from walk_eval(i)
    elif isinstance(a, (ast.ListComp, ast.SetComp, ast.GeneratorExp)):
        for gnr in a.generators:
            yield from walk_eval(gnr)
        yield from walk_eval(a.elt)
    elif isinstance(a, ast.DictComp):
        for gnr in a.generators:
            yield from walk_eval(gnr)
        yield from walk_eval(a.key)
        yield from walk_eval(a.value)
    else:
        for c in ast.iter_child_nodes(a):
            yield from walk_eval(c)
    yield a


def node_calls(n: Node) -> list[ast.Call]:
    if n.ast is None or n.kind in ("handler", "dispatch", "join", "with-exit"):
        return []
    if n.kind == "for":
        return []
    return [x for x in walk_own(n.ast) if isinstance(x, ast.Call)]


def node_awaits(n: Node) -> list[ast.Await]:
    if n.ast is None or n.kind in ("handler", "dispatch", "join", "with-exit", "for"):
        return []
    return [x for x in walk_own(n.ast) if isinstance(x, ast.Await)]


# --------------------------------------------------------------- dataflow
def forward(
    cfg: CFG,
    init: Any,
    transfer: Callable[[Node, Any], Any],
    join: Callable[[Any, Any], Any],
    edge: Callable[[Node, str, Node, Any], Any] | None = None,
) -> dict[Node, Any]:
    """Worklist solver.  transfer(node, in) -> out fact (or {label: fact});
    edge(src, label, dst, out) may refine the fact along one edge (guards).
    Returns the IN fact of every reached node."""
    IN: dict[Node, Any] = {cfg.entry: init}
    work = [cfg.entry]
    iters = 0
    while work:
        iters += 1
        if iters > 200000:
            raise AnalysisError(f"dataflow did not converge in {cfg.func.key}")
        n = work.pop()
        out = transfer(n, IN[n])
        for label, s in n.succ:
            f = out[label] if isinstance(out, dict) and label in out else (out.get("*") if isinstance(out, dict) else out)
            if edge is not None:
                f = edge(n, label, s, f)
            if f is _BOTTOM:
                continue
            if s not in IN:
                IN[s] = f
                work.append(s)
            else:
                j = join(IN[s], f)
                if j != IN[s]:
                    IN[s] = j
                    work.append(s)
    return IN


class _Bottom:
    def __repr__(self) -> str:
        return "BOTTOM"


_BOTTOM = _Bottom()
BOTTOM = _BOTTOM


def must_forward(cfg: CFG, gen_kill: Callable[[Node, frozenset, str], frozenset], init: frozenset = frozenset()) -> dict[Node, frozenset]:
    """Forward MUST analysis over sets of tokens: gen_kill(node, in, label) -> out for that edge label."""

    def transfer(n: Node, f: frozenset) -> dict:
        return {label: gen_kill(n, f, label) for label, _ in n.succ} or {"*": f}

    return forward(cfg, init, transfer, lambda a, b: a & b)


def may_forward(cfg: CFG, gen_kill: Callable[[Node, frozenset, str], frozenset], init: frozenset = frozenset()) -> dict[Node, frozenset]:
    def transfer(n: Node, f: frozenset) -> dict:
        return {label: gen_kill(n, f, label) for label, _ in n.succ} or {"*": f}

    return forward(cfg, init, transfer, lambda a, b: a | b)


def cfg_of(ctx: Any, func: Func) -> CFG:
    cache = ctx.service("cfgs", dict)
    if func.key not in cache:
        cache[func.key] = CFG(func)
    return cache[func.key]
