"""Small path-rule helpers on top of E-CFG / E-DF."""

from __future__ import annotations

import ast
from typing import Callable, Iterable

from .cfg import CFG, Node, forward, must_forward, may_forward, walk_own, node_calls


def occurred_before(cfg: CFG, event: Callable[[Node], Iterable[str]], init: frozenset = frozenset()) -> dict[Node, frozenset]:
    """MUST: tokens whose event node has been executed on *every* path to a node (IN facts)."""

    def gk(n: Node, f: frozenset, label: str) -> frozenset:
        if label == "exc":
            return f  # the raising node did not complete
        return f | frozenset(event(n))

    return must_forward(cfg, gk, init)


def may_occurred_before(cfg: CFG, event: Callable[[Node], Iterable[str]], include_on_exc: bool = True) -> dict[Node, frozenset]:
    """MAY: tokens whose event node may have been executed on some path to a node."""

    def gk(n: Node, f: frozenset, label: str) -> frozenset:
        if label == "exc" and not include_on_exc:
            return f
        return f | frozenset(event(n))

    return may_forward(cfg, gk)


def paths_avoiding(cfg: CFG, start: Node, targets: set[Node], blockers: Callable[[Node], bool], follow: Callable[[Node, str, Node], bool] | None = None) -> list[Node] | None:
    """A path (list of nodes) from start to any target that passes through no blocker node,
    or None.  Used for must-pass-through with a printable witness."""
    prev: dict[Node, Node | None] = {start: None}
    todo = [start]
    while todo:
        n = todo.pop()
        if n in targets and n is not start:
            out = []
            cur: Node | None = n
            while cur is not None:
                out.append(cur)
                cur = prev[cur]
            return out[::-1]
        if blockers(n) and n is not start:
            continue
        for label, s in n.succ:
            if follow is not None and not follow(n, label, s):
                continue
            if s not in prev:
                prev[s] = n
                todo.append(s)
    return None


def fmt_path(path: list[Node], limit: int = 14) -> list[str]:
    items = [f"L{n.lineno}:{n.text(70)}" for n in path if n.kind not in ("join",)]
    if len(items) > limit:
        items = items[: limit // 2] + ["..."] + items[-limit // 2 :]
    return items


def contains_call_to(n: Node, pred: Callable[[ast.Call], bool]) -> bool:
    return any(pred(c) for c in node_calls(n))
