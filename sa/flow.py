"""Small path-rule helpers on top of E-CFG / E-DF."""

from __future__ import annotations

import ast
from typing import Callable, Iterable

from .cfg import CFG, Node, forward, must_forward, may_forward, walk_own, node_calls


def occurred_before(cfg: CFG, event: Callable[[Node], Iterable[str]], init: frozenset = frozenset()) -> dict[Node, frozenset]:
    """MUST: tokens whose event node has been executed on *every* path to a node (IN facts)."""

    def gk(n: Node, f: frozenset, label: str) -> frozenset:
        if label == "exc":
            return f  # the raising node did not complete
        return f | frozenset(event(n))

    return must_forward(cfg, gk, init)


def may_occurred_before(cfg: CFG, event: Callable[[Node], Iterable[str]], include_on_exc: bool = True) -> dict[Node, frozenset]:
    """MAY: tokens whose event node may have been executed on some path to a node."""

    def gk(n: Node, f: frozenset, label: str) -> frozenset:
        if label == "exc" and not include_on_exc:
            return f
        return f | frozenset(event(n))

    return may_forward(cfg, gk)


def paths_avoiding(cfg: CFG, start: Node, targets: set[Node], blockers: Callable[[Node], bool], follow: Callable[[Node, str, Node], bool] | None = None) -> list[Node] | None:
    """A path (list of nodes) from start to any target that passes through no blocker node,
    or None.  Used for must-pass-through with a printable witness."""
    prev: dict[Node, Node | None] = {start: None}
    todo = [start]
    while todo:
        n = todo.pop()
        if n in targets and n is not start:
            out = []
            cur: Node | None = n
            while cur is not None:
                out.append(cur)
                cur = prev[cur]
            return out[::-1]
        if blockers(n) and n is not start:
            continue
        for label, s in n.succ:
            if follow is not None and not follow(n, label, s):
                continue
            if s not in prev:
                prev[s] = n
                todo.append(s)
    return None


def fmt_path(path: list[Node], limit: int = 14) -> list[str]:
    items = [f"L{n.lineno}:{n.text(70)}" for n in path if n.kind not in ("join",)]
    if len(items) > limit:
        items = items[: limit // 2] + ["..."] + items[-limit // 2 :]
    return items


def contains_call_to(n: Node, pred: Callable[[ast.Call], bool]) -> bool:
    return any(pred(c) for c in node_calls(n))


# ------------------------------------------------------------------ disjunctive analysis
class TooManyStates(Exception):
    pass


def disjunctive(cfg: CFG, init: frozenset, step: Callable[[Node, frozenset, str], "frozenset | None"], cap: int = 256) -> dict[Node, frozenset]:
    """Path-sensitive (up to the tokens tracked) forward analysis: the fact at a node is the SET
    of token-sets that can reach it.  step(node, state, label) returns the state along the edge
    `label` or None if that edge is infeasible for this state."""

    def transfer(n: Node, states: frozenset) -> dict:
        out: dict[str, frozenset] = {}
        for label, _ in n.succ:
            acc = set()
            for s in states:
                r = step(n, s, label)
                if r is not None:
                    acc.add(r)
            if len(acc) > cap:
                raise TooManyStates(f"{cfg.func.key}: more than {cap} abstract states at {n!r}")
            out[label] = frozenset(acc)
        return out or {"*": states}

    from .cfg import BOTTOM

    def edge(a: Node, l: str, b: Node, f: frozenset):
        return f if f else BOTTOM

    return forward(cfg, frozenset([init]), transfer, lambda a, b: a | b, edge=edge)


def const_flag_step(n: Node, state: frozenset, label: str, flags: set[str]) -> "frozenset | None":
    """Track local boolean flags assigned constants (`flag = True/False`) and prune the
    infeasible edge of a test on such a flag.  Tokens: 'flag:<name>=T' / 'flag:<name>=F'."""
    if n.kind == "stmt" and isinstance(n.ast, (ast.Assign, ast.AnnAssign)) and label != "exc":
        tgts = n.ast.targets if isinstance(n.ast, ast.Assign) else [n.ast.target]
        for t in tgts:
            if isinstance(t, ast.Name) and t.id in flags:
                state = frozenset(x for x in state if not x.startswith(f"flag:{t.id}="))
                v = n.ast.value
                if isinstance(v, ast.Constant) and isinstance(v.value, bool):
                    state = state | {f"flag:{t.id}={'T' if v.value else 'F'}"}
    if n.kind == "cond" and isinstance(n.ast, ast.Name) and n.ast.id in flags and label in ("true", "false"):
        want = "T" if label == "true" else "F"
        other = "F" if want == "T" else "T"
        if f"flag:{n.ast.id}={other}" in state:
            return None
    return state
