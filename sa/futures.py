"""Shared rule: a future is completed only when it is known not to be done.

`Future.set_result` / `set_exception` raise InvalidStateError on a future that is already
done (completed, failed or cancelled).  In code that must run to its end whatever happened
before (the closer, the collectors, the timeout callbacks) every completion has to be
dominated by a `not X.done()` test of the same future; the guard is extracted as a truth table,
so any equivalent shape (early return, nested if, `and`) is accepted.
"""

from __future__ import annotations

import ast
from typing import Any

from .cfg import Node, cfg_of, node_calls, walk_own
from .guard import truth_table
from .src import Func, norm, own_nodes

COMPLETE = ("set_result", "set_exception")


def completion_sites(fn: Func) -> list[ast.Call]:
    return [n for n in own_nodes(fn.node) if isinstance(n, ast.Call) and isinstance(n.func, ast.Attribute) and n.func.attr in COMPLETE]


def guarded(ctx: Any, fn: Func, call: ast.Call) -> tuple[bool, str]:
    """Is the completion `X.set_*()` reachable only when X.done() is false?"""
    recv = norm(call.func.value)  # type: ignore[attr-defined]
    g = cfg_of(ctx, fn)

    def cl(n: Node):
        t = n.ast
        if isinstance(t, ast.Call) and isinstance(t.func, ast.Attribute) and t.func.attr == "done" and norm(t.func.value) == recv:
            return ("done", True)
        return None

    nodes = [n for n in g.reachable() if n.ast is not None and n.kind in ("stmt", "cond") and any(x is call for x in walk_own(n.ast))]
    if not nodes:
        return True, "unreachable"
    tab = truth_table(g, ["done"], cl, nodes)
    return (not tab[(True,)][0]), f"done=T->{'reached' if tab[(True,)][0] else 'no'} done=F->{'reached' if tab[(False,)][0] else 'no'}"


def unguarded_in_closure(ctx: Any, res: Any, root: Func, depth: int = 4, stop_at: set[str] | None = None) -> tuple[list[tuple[Func, ast.Call, str]], int]:
    """All completion sites in root and the package functions it (synchronously) calls that can
    execute on an already-done future.  Returns (offenders, number of sites examined)."""
    seen: set[str] = set()
    out: list[tuple[Func, ast.Call, str]] = []
    total = 0
    todo = [(root, 0)]
    while todo:
        fn, d = todo.pop()
        if fn.key in seen or (stop_at and fn.key in stop_at):
            continue
        seen.add(fn.key)
        for c in completion_sites(fn):
            total += 1
            ok, why = guarded(ctx, fn, c)
            if not ok:
                out.append((fn, c, why))
        if d >= depth:
            continue
        for c in [n for n in own_nodes(fn.node) if isinstance(n, ast.Call)]:
            for callee in res.callees(fn, c).funcs:
                if not callee.is_async:
                    todo.append((callee, d + 1))
    return out, total
