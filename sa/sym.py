"""E-SYM: module symbol tables and a closed-fragment constant evaluator.

The evaluator is the checker's own: it interprets a small fragment of Python
expressions over literals and symbolic references (classes, enum members,
functions).  No code of the repository is executed.  An expression outside the
fragment evaluates to ``Unknown`` (rules that need the value turn that into an
AnalysisError, never into a verdict).
"""

from __future__ import annotations

import ast
from dataclasses import dataclass
from typing import Any

from .src import AnalysisError, Module, Repo, norm


@dataclass(frozen=True)
class Ref:
    """Symbolic reference to a class / function / foreign object."""

    kind: str  # "pb" (api_pb2 message class), "class", "func", "ext" (foreign import), "module"
    module: str
    name: str

    def __repr__(self) -> str:
        return f"{self.kind}:{self.module}.{self.name}" if self.module else f"{self.kind}:{self.name}"


@dataclass(frozen=True)
class EnumVal:
    cls: str
    name: str
    value: Any

    def __repr__(self) -> str:
        return f"{self.cls}.{self.name}"


@dataclass(frozen=True)
class Inst:
    """An instance created by calling a class reference (arguments not modelled)."""

    cls: Ref

    def __repr__(self) -> str:
        return f"{self.cls.name}()"


class _Unknown:
    def __repr__(self) -> str:
        return "Unknown"

    def __bool__(self) -> bool:
        return False


Unknown = _Unknown()

PB_MODULES = {"api_pb2", "api_options_pb2"}


class Symbols:
    def __init__(self, repo: Repo) -> None:
        self.repo = repo
        self._tables: dict[str, dict[str, Any]] = {}
        self._evaluating: set[tuple[str, str]] = set()
        self._cache: dict[tuple[str, str], Any] = {}

    # -------------------------------------------------------- symbol tables
    def table(self, modname: str) -> dict[str, Any]:
        """name -> binding descriptor for module-level names.

        descriptor: ("assign", [value exprs...]) | ("import", target_module, name)
                  | ("class", ClassDef) | ("func", FunctionDef) | ("extimport", dotted)
        """
        if modname in self._tables:
            return self._tables[modname]
        mod = self.repo.module(modname)
        tab: dict[str, Any] = {}

        def add_assign(name: str, value: ast.expr | None, conditional: bool) -> None:
            cur = tab.get(name)
            if cur and cur[0] == "assign":
                cur[1].append(value)
            else:
                tab[name] = ("assign", [value])

        def visit(body: list[ast.stmt], conditional: bool) -> None:
            for st in body:
                if isinstance(st, ast.Assign):
                    for t in st.targets:
                        if isinstance(t, ast.Name):
                            add_assign(t.id, st.value, conditional)
                elif isinstance(st, ast.AnnAssign) and isinstance(st.target, ast.Name):
                    if st.value is not None:
                        add_assign(st.target.id, st.value, conditional)
                elif isinstance(st, ast.ClassDef):
                    tab[st.name] = ("class", st)
                elif isinstance(st, (ast.FunctionDef, ast.AsyncFunctionDef)):
                    tab[st.name] = ("func", st)
                elif isinstance(st, ast.ImportFrom):
                    target = self._resolve_from(modname, st)
                    for a in st.names:
                        local = a.asname or a.name
                        if target is None:
                            tab[local] = ("extimport", f"{st.module}.{a.name}")
                        else:
                            tab[local] = ("import", target, a.name)
                elif isinstance(st, ast.Import):
                    for a in st.names:
                        local = a.asname or a.name.split(".")[0]
                        if a.name.startswith("aioesphomeapi."):
                            tab[local if a.asname else a.name] = ("pkgmodule", a.name[len("aioesphomeapi.") :])
                            if a.asname:
                                tab[a.asname] = ("pkgmodule", a.name[len("aioesphomeapi.") :])
                        else:
                            tab[local] = ("extimport", a.name if a.asname else a.name.split(".")[0])
                elif isinstance(st, ast.If):
                    if norm(st.test) == "TYPE_CHECKING":
                        visit(st.body, True)
                        continue
                    visit(st.body, True)
                    visit(st.orelse, True)
                elif isinstance(st, ast.Try):
                    visit(st.body, True)
                    for h in st.handlers:
                        visit(h.body, True)
                    visit(st.orelse, True)
                    visit(st.finalbody, True)

        visit(mod.tree.body, False)
        self._tables[modname] = tab
        return tab

    def _resolve_from(self, modname: str, st: ast.ImportFrom) -> str | None:
        """Package-relative target module name of a ``from X import`` or None if foreign."""
        if st.level:
            parts = modname.split(".")
            base = parts[: len(parts) - st.level] if st.level <= len(parts) else []
            # modname "a.b" is a module file; level 1 = its package = parts[:-1]
            tgt = base + (st.module.split(".") if st.module else [])
            return ".".join(tgt)
        if st.module and (st.module == "aioesphomeapi" or st.module.startswith("aioesphomeapi.")):
            return st.module[len("aioesphomeapi") :].lstrip(".")
        return None

    # ------------------------------------------------------------ resolving
    def resolve_name(self, modname: str, name: str) -> Any:
        """Value (or Ref) a module-level name denotes."""
        key = (modname, name)
        if key in self._cache:
            return self._cache[key]
        if key in self._evaluating:
            return Unknown
        self._evaluating.add(key)
        try:
            val = self._resolve_name(modname, name)
        finally:
            self._evaluating.discard(key)
        self._cache[key] = val
        return val

    def _resolve_name(self, modname: str, name: str) -> Any:
        if modname in PB_MODULES:
            return Ref("pb", modname, name)
        if modname not in self.repo.modules:
            if modname == "":  # "from . import x" / package __init__
                modname = "__init__"
                if modname not in self.repo.modules:
                    return Unknown
            else:
                return Unknown
        tab = self.table(modname)
        b = tab.get(name)
        if b is None:
            import builtins

            if hasattr(builtins, name):
                return Ref("builtin", "", name)
            return Unknown
        kind = b[0]
        if kind == "import":
            tgt = b[1]
            if tgt in PB_MODULES:
                return Ref("pb", tgt, b[2])
            if tgt in self.repo.modules:
                return self.resolve_name(tgt, b[2])
            # "from . import x" where x is a submodule
            sub = f"{tgt}.{b[2]}" if tgt else b[2]
            if sub in self.repo.modules:
                return Ref("module", sub, "")
            return Unknown
        if kind == "pkgmodule":
            return Ref("module", b[1], "")
        if kind == "extimport":
            return Ref("ext", "", b[1])
        if kind == "class":
            return Ref("class", modname, name)
        if kind == "func":
            return Ref("func", modname, name)
        if kind == "assign":
            vals = [self.eval(v, modname) for v in b[1] if v is not None]
            if len(vals) == 1:
                return vals[0]
            if vals and all(_same(v, vals[0]) for v in vals[1:]) and vals[0] is not Unknown:
                return vals[0]
            return Unknown
        return Unknown

    def enum_members(self, ref: Ref) -> dict[str, Any] | None:
        """Members of an Enum-like class defined in the package (name -> value), in order.
        Aliases are kept (several names, same value)."""
        if ref.kind != "class":
            return None
        ci = self.repo.classes.get(f"{ref.module}:{ref.name}")
        if ci is None:
            return None
        out: dict[str, Any] = {}
        for st in ci.node.body:
            if isinstance(st, ast.Assign) and len(st.targets) == 1 and isinstance(st.targets[0], ast.Name):
                n = st.targets[0].id
                if n.startswith("_"):
                    continue
                out[n] = self.eval(st.value, ref.module)
        return out

    def is_enum_class(self, ref: Ref) -> bool:
        if ref.kind != "class":
            return False
        ci = self.repo.classes.get(f"{ref.module}:{ref.name}")
        seen = set()
        while ci is not None and ci.key not in seen:
            seen.add(ci.key)
            for b in ci.base_names:
                tail = b.split(".")[-1]
                if tail in ("Enum", "IntEnum", "IntFlag", "Flag"):
                    return True
            nxt = None
            for b in ci.base_names:
                c = self.repo.classes.get(b.split(".")[-1])
                if c is not None:
                    nxt = c
                    break
            ci = nxt
        return False

    # ------------------------------------------------------------ evaluator
    def eval(self, e: ast.expr | None, modname: str, env: dict[str, Any] | None = None) -> Any:
        if e is None:
            return Unknown
        env = env or {}
        ev = lambda x: self.eval(x, modname, env)  # noqa: E731
        if isinstance(e, ast.Constant):
            return e.value
        if isinstance(e, ast.Name):
            if e.id in env:
                return env[e.id]
            if e.id in ("True", "False", "None"):
                return {"True": True, "False": False, "None": None}[e.id]
            return self.resolve_name(modname, e.id)
        if isinstance(e, ast.Attribute):
            base = ev(e.value)
            if e.attr == "__name__" and isinstance(base, Ref) and base.kind in ("pb", "class"):
                return base.name
            if isinstance(base, EnumVal) and e.attr in ("name", "value"):
                return base.name if e.attr == "name" else base.value
            if isinstance(base, Ref):
                if base.kind == "class" and self.is_enum_class(base):
                    mem = self.enum_members(base) or {}
                    if e.attr in mem:
                        return EnumVal(base.name, e.attr, mem[e.attr])
                    return Unknown
                if base.kind == "module":
                    return self.resolve_name(base.module, e.attr)
                if base.kind == "ext":
                    return Ref("ext", "", f"{base.name}.{e.attr}")
                if base.kind == "class":
                    return Ref("attr", f"{base.module}.{base.name}", e.attr)
            return Unknown
        if isinstance(e, ast.Tuple) or isinstance(e, ast.List):
            out: list[Any] = []
            for el in e.elts:
                if isinstance(el, ast.Starred):
                    v = ev(el.value)
                    if isinstance(v, dict):
                        out.extend(v.keys())
                    elif isinstance(v, (tuple, list)):
                        out.extend(v)
                    else:
                        return Unknown
                else:
                    out.append(ev(el))
            return tuple(out) if isinstance(e, ast.Tuple) else out
        if isinstance(e, ast.Set):
            vals = [ev(x) for x in e.elts]
            if any(v is Unknown for v in vals):
                return Unknown
            try:
                return frozenset(vals)
            except TypeError:
                return Unknown
        if isinstance(e, ast.Dict):
            d: dict[Any, Any] = {}
            for k, v in zip(e.keys, e.values):
                if k is None:
                    sub = ev(v)
                    if not isinstance(sub, dict):
                        return Unknown
                    d.update(sub)
                    continue
                kv = ev(k)
                if kv is Unknown:
                    return Unknown
                try:
                    if kv in d:
                        d[("__dup__", len(d), kv)] = ev(v)  # keep duplicates visible
                        continue
                    d[kv] = ev(v)
                except TypeError:
                    return Unknown
            return d
        if isinstance(e, ast.UnaryOp):
            v = ev(e.operand)
            if v is Unknown:
                return Unknown
            try:
                if isinstance(e.op, ast.USub):
                    return -_num(v)
                if isinstance(e.op, ast.UAdd):
                    return +_num(v)
                if isinstance(e.op, ast.Not):
                    return not v
                if isinstance(e.op, ast.Invert):
                    return ~_num(v)
            except Exception:
                return Unknown
        if isinstance(e, ast.BinOp):
            a, b = ev(e.left), ev(e.right)
            if a is Unknown or b is Unknown:
                return Unknown
            try:
                return _binop(e.op, a, b)
            except Exception:
                return Unknown
        if isinstance(e, ast.Compare) and len(e.ops) == 1:
            a, b = ev(e.left), ev(e.comparators[0])
            if a is Unknown or b is Unknown:
                return Unknown
            try:
                return _cmp(e.ops[0], a, b)
            except Exception:
                return Unknown
        if isinstance(e, ast.BoolOp):
            last: Any = Unknown
            for v in e.values:
                last = ev(v)
                if last is Unknown:
                    return Unknown
                if isinstance(e.op, ast.And) and not last:
                    return last
                if isinstance(e.op, ast.Or) and last:
                    return last
            return last
        if isinstance(e, ast.Compare) and len(e.ops) > 1:
            left = ev(e.left)
            for op, c in zip(e.ops, e.comparators):
                right = ev(c)
                if left is Unknown or right is Unknown:
                    return Unknown
                try:
                    if not _cmp(op, left, right):
                        return False
                except Exception:
                    return Unknown
                left = right
            return True
        if isinstance(e, ast.IfExp):
            t = ev(e.test)
            if t is Unknown:
                return Unknown
            return ev(e.body) if t else ev(e.orelse)
        if isinstance(e, ast.DictComp) and len(e.generators) == 1:
            g = e.generators[0]
            it = self._iter_items(g.iter, modname, env)
            if it is Unknown or g.ifs or g.is_async:
                return Unknown
            d2: dict[Any, Any] = {}
            for item in it:
                env2 = dict(env)
                if not _bind(g.target, item, env2):
                    return Unknown
                k = self.eval(e.key, modname, env2)
                v = self.eval(e.value, modname, env2)
                if k is Unknown:
                    return Unknown
                try:
                    if k in d2:
                        d2[("__dup__", len(d2), k)] = v
                    else:
                        d2[k] = v
                except TypeError:
                    return Unknown
            return d2
        if isinstance(e, (ast.GeneratorExp, ast.ListComp, ast.SetComp)) and len(e.generators) == 1:
            g = e.generators[0]
            it = self._iter_items(g.iter, modname, env)
            if it is Unknown or g.is_async:
                return Unknown
            outl: list[Any] = []
            for item in it:
                env2 = dict(env)
                if not _bind(g.target, item, env2):
                    return Unknown
                keep = True
                for cond in g.ifs:
                    c = self.eval(cond, modname, env2)
                    if c is Unknown:
                        return Unknown
                    keep = keep and bool(c)
                if keep:
                    outl.append(self.eval(e.elt, modname, env2))
            return outl if not isinstance(e, ast.SetComp) else frozenset(outl)
        if isinstance(e, ast.Call):
            fn = e.func
            if isinstance(fn, ast.Name) and not e.keywords:
                args = [ev(a) for a in e.args]
                if any(a is Unknown for a in args):
                    return Unknown
                try:
                    if fn.id == "tuple" and len(args) == 1:
                        return tuple(_as_iter(args[0]))
                    if fn.id == "list" and len(args) == 1:
                        return list(_as_iter(args[0]))
                    if fn.id == "frozenset" and len(args) == 1:
                        return frozenset(_as_iter(args[0]))
                    if fn.id == "set" and len(args) == 1:
                        return frozenset(_as_iter(args[0]))
                    if fn.id == "sorted" and len(args) == 1:
                        return sorted(_as_iter(args[0]))
                    if fn.id == "reversed" and len(args) == 1:
                        return list(reversed(list(_as_iter(args[0]))))
                    if fn.id == "range":
                        return list(range(*[_num(a) for a in args]))
                    if fn.id == "dict" and len(args) == 1 and isinstance(args[0], dict):
                        return dict(args[0])
                    if fn.id == "len" and len(args) == 1:
                        return len(args[0])
                    if fn.id in ("min", "max"):
                        f = min if fn.id == "min" else max
                        return f(*[_num(a) for a in args]) if len(args) > 1 else f(_as_iter(args[0]))
                    if fn.id == "round":
                        return round(*[_num(a) for a in args])
                    if fn.id == "int" and len(args) == 1:
                        return int(_num(args[0]))
                    if fn.id == "float" and len(args) == 1:
                        return float(_num(args[0]))
                    if fn.id == "abs" and len(args) == 1:
                        return abs(_num(args[0]))
                    if fn.id == "bool" and len(args) == 1:
                        return bool(args[0])
                    if fn.id == "bytes" and len(args) == 1 and (isinstance(args[0], int) and not isinstance(args[0], bool) and 0 <= args[0] <= 4096 or isinstance(args[0], (tuple, list)) and all(isinstance(x, int) and 0 <= x < 256 for x in args[0]) or isinstance(args[0], bytes)):
                        return bytes(args[0])
                except Exception:
                    return Unknown
            if isinstance(fn, (ast.Name, ast.Attribute)):
                fv = ev(fn)
                if isinstance(fv, Ref) and fv.kind in ("pb", "class") and not (fv.kind == "class" and self.is_enum_class(fv)):
                    return Inst(fv)
                if isinstance(fv, Ref) and fv.kind == "func" and not any(isinstance(a, ast.Starred) for a in e.args) and not any(k.arg is None for k in e.keywords):
                    # a package function that only builds a table from its arguments (assignments, loops with
                    # stores / appends, conditionals, a return): folded by a small statement interpreter
                    fd = self.table(fv.module).get(fv.name)
                    if fd and fd[0] == "func" and not isinstance(fd[1], ast.AsyncFunctionDef):
                        r = self._call(fd[1], fv.module, [ev(a) for a in e.args], {k.arg: ev(k.value) for k in e.keywords})
                        if r is not Unknown:
                            return r
            if isinstance(fn, ast.Attribute) and not e.keywords and fn.attr in ("startswith", "endswith", "lower", "upper", "removeprefix", "removesuffix"):
                base = ev(fn.value)
                sargs = [ev(a) for a in e.args]
                if isinstance(base, str) and all(isinstance(a, str) or (isinstance(a, tuple) and all(isinstance(x, str) for x in a)) for a in sargs):
                    try:
                        return getattr(base, fn.attr)(*sargs)
                    except Exception:
                        return Unknown
            if isinstance(fn, ast.Attribute) and not e.args and not e.keywords:
                base = ev(fn.value)
                if isinstance(base, dict):
                    if fn.attr == "values":
                        return tuple(base.values())
                    if fn.attr == "keys":
                        return tuple(base.keys())
                    if fn.attr == "items":
                        return tuple(base.items())
            return Unknown
        if isinstance(e, ast.Subscript):
            base = ev(e.value)
            idx = ev(e.slice) if not isinstance(e.slice, ast.Slice) else Unknown
            if base is Unknown or idx is Unknown:
                return Unknown
            try:
                return base[idx]
            except Exception:
                return Unknown
        if isinstance(e, ast.JoinedStr):
            # only the plain case: literal pieces and `{expr}` of a folded str / int without conversion or format spec
            parts: list[str] = []
            for piece in e.values:
                if isinstance(piece, ast.Constant) and isinstance(piece.value, str):
                    parts.append(piece.value)
                elif isinstance(piece, ast.FormattedValue) and piece.conversion == -1 and piece.format_spec is None:
                    pv = ev(piece.value)
                    if isinstance(pv, str) or (isinstance(pv, int) and not isinstance(pv, bool)):
                        parts.append(str(pv))
                    else:
                        return Unknown
                else:
                    return Unknown
            return "".join(parts)
        return Unknown

    def _call(self, fd: ast.FunctionDef, modname: str, args: list[Any], kwargs: dict[str, Any], depth: int = 0) -> Any:
        if depth > 3 or fd.decorator_list or fd.args.vararg or fd.args.kwarg:
            return Unknown
        params = [a.arg for a in fd.args.posonlyargs + fd.args.args]
        if len(args) > len(params) or any(a is Unknown for a in args) or any(v is Unknown for v in kwargs.values()):
            return Unknown
        env: dict[str, Any] = dict(zip(params, args))
        for k, v in kwargs.items():
            if k in env or k not in params + [a.arg for a in fd.args.kwonlyargs]:
                return Unknown
            env[k] = v
        defaults = fd.args.defaults
        for p_, d in zip(params[len(params) - len(defaults):], defaults):
            if p_ not in env:
                env[p_] = self.eval(d, modname)
        if any(p_ not in env for p_ in params):
            return Unknown
        steps = [0]

        class _Ret(Exception):
            def __init__(self, v: Any) -> None:
                self.v = v

        class _Give(Exception):
            pass

        def run(body: list[ast.stmt]) -> str | None:
            for st in body:
                steps[0] += 1
                if steps[0] > 20000:
                    raise _Give()
                if isinstance(st, ast.Expr) and isinstance(st.value, ast.Constant):
                    continue  # docstring
                if isinstance(st, (ast.Assign, ast.AnnAssign)):
                    if st.value is None:
                        continue
                    v = self.eval(st.value, modname, env)
                    if v is Unknown:
                        raise _Give()
                    if isinstance(v, dict):
                        v = dict(v)
                    elif isinstance(v, list):
                        v = list(v)
                    for t in st.targets if isinstance(st, ast.Assign) else [st.target]:
                        if isinstance(t, ast.Name):
                            env[t.id] = v
                        elif isinstance(t, ast.Subscript) and isinstance(t.value, ast.Name) and isinstance(env.get(t.value.id), dict):
                            k = self.eval(t.slice, modname, env)
                            if k is Unknown:
                                raise _Give()
                            try:
                                env[t.value.id][k] = v
                            except TypeError:
                                raise _Give() from None
                        else:
                            raise _Give()
                elif isinstance(st, ast.Expr) and isinstance(st.value, ast.Call) and isinstance(st.value.func, ast.Attribute) and isinstance(st.value.func.value, ast.Name) and st.value.func.attr in ("append", "add") and len(st.value.args) == 1 and isinstance(env.get(st.value.func.value.id), list):
                    v = self.eval(st.value.args[0], modname, env)
                    if v is Unknown:
                        raise _Give()
                    env[st.value.func.value.id].append(v)
                elif isinstance(st, ast.For) and not st.orelse:
                    it = self._iter_items(st.iter, modname, env)
                    if it is Unknown:
                        raise _Give()
                    for item in list(it):
                        if not _bind(st.target, item, env):
                            raise _Give()
                        r = run(st.body)
                        if r == "break":
                            break
                elif isinstance(st, ast.If):
                    c = self.eval(st.test, modname, env)
                    if c is Unknown:
                        raise _Give()
                    r = run(st.body if c else st.orelse)
                    if r in ("break", "continue"):
                        return r
                elif isinstance(st, ast.Continue):
                    return "continue"
                elif isinstance(st, ast.Break):
                    return "break"
                elif isinstance(st, ast.Return):
                    raise _Ret(self.eval(st.value, modname, env) if st.value is not None else None)
                elif isinstance(st, ast.Pass):
                    continue
                else:
                    raise _Give()
            return None

        try:
            run(fd.body)
        except _Ret as r:
            return r.v
        except _Give:
            return Unknown
        return None

    def _iter_items(self, it: ast.expr, modname: str, env: dict[str, Any]) -> Any:
        v = self.eval(it, modname, env)
        if v is Unknown:
            return Unknown
        if isinstance(v, dict):
            return list(v.keys())
        if isinstance(v, (tuple, list, frozenset)):
            return list(v)
        return Unknown


def _same(a: Any, b: Any) -> bool:
    try:
        return a == b and type(a) is type(b)
    except Exception:
        return False


def _num(v: Any) -> Any:
    if isinstance(v, EnumVal):
        return v.value
    if isinstance(v, bool):
        return int(v)
    if isinstance(v, (int, float)):
        return v
    raise TypeError(v)


def _as_iter(v: Any) -> Any:
    if isinstance(v, dict):
        return list(v.keys())
    if isinstance(v, (tuple, list, frozenset)):
        return v
    raise TypeError(v)


def _binop(op: ast.operator, a: Any, b: Any) -> Any:
    if isinstance(op, ast.Add):
        if isinstance(a, (tuple, list, str, bytes)):
            return a + b
        return _num(a) + _num(b)
    if isinstance(op, ast.Sub):
        return _num(a) - _num(b)
    if isinstance(op, ast.Mult):
        return _num(a) * _num(b)
    if isinstance(op, ast.Div):
        return _num(a) / _num(b)
    if isinstance(op, ast.FloorDiv):
        return _num(a) // _num(b)
    if isinstance(op, ast.Mod):
        return _num(a) % _num(b)
    if isinstance(op, ast.Pow):
        a, b = _num(a), _num(b)
        if abs(b) > 4096:
            raise OverflowError
        return a**b
    if isinstance(op, ast.LShift):
        if _num(b) > 256:
            raise OverflowError
        return _num(a) << _num(b)
    if isinstance(op, ast.RShift):
        return _num(a) >> _num(b)
    if isinstance(op, ast.BitOr):
        return _num(a) | _num(b)
    if isinstance(op, ast.BitAnd):
        return _num(a) & _num(b)
    if isinstance(op, ast.BitXor):
        return _num(a) ^ _num(b)
    raise TypeError(op)


def _cmp(op: ast.cmpop, a: Any, b: Any) -> Any:
    if isinstance(op, (ast.Eq, ast.Is)):
        return a == b
    if isinstance(op, (ast.NotEq, ast.IsNot)):
        return a != b
    if isinstance(op, ast.In):
        return a in b
    if isinstance(op, ast.NotIn):
        return a not in b
    a, b = _num(a), _num(b)
    if isinstance(op, ast.Lt):
        return a < b
    if isinstance(op, ast.LtE):
        return a <= b
    if isinstance(op, ast.Gt):
        return a > b
    if isinstance(op, ast.GtE):
        return a >= b
    raise TypeError(op)


def _bind(target: ast.expr, item: Any, env: dict[str, Any]) -> bool:
    if isinstance(target, ast.Name):
        env[target.id] = item
        return True
    if isinstance(target, (ast.Tuple, ast.List)):
        if not isinstance(item, (tuple, list)) or len(item) != len(target.elts):
            return False
        return all(_bind(t, v, env) for t, v in zip(target.elts, item))
    return False


def need(val: Any, what: str) -> Any:
    if val is Unknown:
        raise AnalysisError(f"cannot fold {what} (expression outside the evaluator's fragment)")
    return val
