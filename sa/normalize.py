"""Loader-level normalisation: undo behaviour-preserving refactorings before the rules look at the code.

The rules of sa/rules were confirmed against the pinned tree.  A maintainer who renames a private helper
or attribute, extracts a few statements into a new private method, turns a walrus into an assignment or
binds an attribute to a local first does not change behaviour - and must not change a verdict.  Instead of
teaching every rule every spelling, the loader rewrites the parsed ASTs into one canonical spelling:

  N1 renames     private methods / functions / attributes that disappeared from the baseline inventory
                 (sa/baseline_symbols.json, generated from the pinned tree) and reappear under a new name with
                 the same shape / the same usage signature are renamed back;
  N2 inlining    private functions that are NOT in the baseline inventory (newly extracted helpers) are
                 expanded into their callers (parameters bound, locals renamed on collision, `return` turned
                 into an assignment - early returns through a `while True: ... break` wrapper) and dropped;
  N3 walrus      `if (x := e) ...:` becomes `x = e` followed by `if x ...:` when the walrus is evaluated first;
  N4 aliases     a local bound once to a side-effect-free expression (attribute chain, constant subscript,
                 module constant, partial(...)) is replaced by that expression at every use that no write to
                 one of its components can reach (flow-sensitive, with transitive write summaries of callees).

All passes are semantics-preserving rewrites of the program text *for the purpose of the analysis*; none of
them can make a violating program look conforming, because the rules still run on everything the rewritten
program does.  What was rewritten is recorded (Repo.normalisation) and printed in the evidence.
Set SA_NO_NORMALIZE=1 to switch the passes off (debugging).
"""

from __future__ import annotations

import ast
import copy
import difflib
import json
import os
from pathlib import Path
from typing import Any, Iterable

BASELINE = Path(__file__).resolve().parent / "baseline_symbols.json"
FuncDef = (ast.FunctionDef, ast.AsyncFunctionDef)


# ------------------------------------------------------------------ inventory
def _strip_doc(body: list[ast.stmt]) -> list[ast.stmt]:
    if body and isinstance(body[0], ast.Expr) and isinstance(body[0].value, ast.Constant) and isinstance(body[0].value.value, str):
        return body[1:]
    return body


def shape(fn: ast.AST) -> list[str]:
    out = []
    for st in _strip_doc(fn.body):  # type: ignore[attr-defined]
        for n in ast.walk(st):
            if isinstance(n, (ast.Load, ast.Store, ast.Del, ast.Constant, ast.Name, ast.arg, ast.arguments)):
                continue
            out.append(type(n).__name__)
    return out


def _self_attrs(fn: ast.AST) -> list[tuple[str, str]]:
    out = []
    for n in ast.walk(fn):
        if isinstance(n, ast.Attribute) and isinstance(n.value, ast.Name) and n.value.id == "self":
            out.append((n.attr, "w" if isinstance(n.ctx, (ast.Store, ast.Del)) else "r"))
    return out


def inventory(trees: dict[str, ast.Module]) -> dict[str, Any]:
    inv: dict[str, Any] = {}
    for mod, tree in trees.items():
        m: dict[str, Any] = {"functions": {}, "classes": {}, "globals": []}
        for st in tree.body:
            if isinstance(st, (ast.Assign, ast.AnnAssign)):
                tg = st.targets if isinstance(st, ast.Assign) else [st.target]
                m["globals"] += [t.id for t in tg if isinstance(t, ast.Name)]
            if isinstance(st, FuncDef):
                m["functions"][st.name] = {"shape": shape(st), "nparams": len(st.args.args)}
            elif isinstance(st, ast.ClassDef):
                c: dict[str, Any] = {"methods": {}, "attrs": {}}
                for s2 in st.body:
                    if isinstance(s2, FuncDef):
                        c["methods"][s2.name] = {"shape": shape(s2), "nparams": len(s2.args.args)}
                        for a, k in _self_attrs(s2):
                            c["attrs"].setdefault(a, []).append([s2.name, k])
                for a in c["attrs"]:
                    c["attrs"][a] = sorted(map(list, {tuple(x) for x in c["attrs"][a]}))
                m["classes"][st.name] = c
        inv[mod] = m
    return inv


def load_baseline() -> dict[str, Any] | None:
    if not BASELINE.is_file():
        return None
    return json.loads(BASELINE.read_text())


# ------------------------------------------------------------------ N1 renames
def _sim(a: list[str], b: list[str]) -> float:
    if not a and not b:
        return 1.0
    return difflib.SequenceMatcher(None, a, b, autojunk=False).ratio()


def _match(missing: dict[str, Any], new: dict[str, Any], score, threshold: float) -> dict[str, str]:
    """Greedy unique matching new-name -> old-name."""
    pairs = []
    for o, ov in missing.items():
        for n, nv in new.items():
            s = score(ov, nv)
            if s >= threshold:
                # equal shapes (twin helpers such as _set_start_/_set_finish_connect_future) are told apart by name
                s += 0.3 * difflib.SequenceMatcher(None, o, n).ratio()
                pairs.append((s, o, n))
    pairs.sort(reverse=True)
    used_o: set[str] = set()
    used_n: set[str] = set()
    out: dict[str, str] = {}
    for s, o, n in pairs:
        if o in used_o or n in used_n:
            continue
        # ambiguous?  another candidate for the same old name with (almost) the same score
        rivals = [p for p in pairs if p[1] == o and p[2] != n and p[0] >= s - 0.02]
        if rivals:
            continue
        out[n] = o
        used_o.add(o)
        used_n.add(n)
    return out


def find_renames(trees: dict[str, ast.Module], base: dict[str, Any]) -> tuple[dict[str, str], dict[str, str]]:
    """(function/method renames new->old, attribute renames new->old), only for names new to the whole package."""
    cur = inventory(trees)
    base_names: set[str] = set()
    for m in base.values():
        base_names |= set(m["functions"])
        for c in m["classes"].values():
            base_names |= set(c["methods"]) | set(c["attrs"])
    fn_ren: dict[str, str] = {}
    at_ren: dict[str, str] = {}
    for mod, cm in cur.items():
        bm = base.get(mod)
        if bm is None:
            continue
        miss = {k: v for k, v in bm["functions"].items() if k not in cm["functions"] and k.startswith("_")}
        new = {k: v for k, v in cm["functions"].items() if k not in bm["functions"] and k.startswith("_") and k not in base_names}
        fn_ren.update(_match(miss, new, lambda o, n: _sim(o["shape"], n["shape"]) if o["nparams"] == n["nparams"] else 0.0, 0.8))
        for cname, cc in cm["classes"].items():
            bc = bm["classes"].get(cname)
            if bc is None:
                continue
            miss = {k: v for k, v in bc["methods"].items() if k not in cc["methods"] and k.startswith("_") and not k.startswith("__")}
            new = {k: v for k, v in cc["methods"].items() if k not in bc["methods"] and k.startswith("_") and k not in base_names}
            fn_ren.update(_match(miss, new, lambda o, n: _sim(o["shape"], n["shape"]) if o["nparams"] == n["nparams"] else 0.0, 0.8))
    # attributes, after the method renames
    for mod, cm in cur.items():
        bm = base.get(mod)
        if bm is None:
            continue
        for cname, cc in cm["classes"].items():
            bc = bm["classes"].get(cname)
            if bc is None:
                continue

            def sig(v: list[list[str]]) -> set[tuple[str, str]]:
                return {(fn_ren.get(a, a), k) for a, k in v}

            miss = {k: sig(v) for k, v in bc["attrs"].items() if k not in cc["attrs"] and k.startswith("_")}
            new = {k: sig(v) for k, v in cc["attrs"].items() if k not in bc["attrs"] and k.startswith("_") and k not in base_names}

            def jac(a: set, b: set) -> float:
                return len(a & b) / len(a | b) if (a or b) else 1.0

            at_ren.update(_match(miss, new, jac, 0.5))
    return fn_ren, at_ren


class _Renamer(ast.NodeTransformer):
    def __init__(self, fn_ren: dict[str, str], at_ren: dict[str, str]) -> None:
        self.fn = fn_ren
        self.at = at_ren

    def visit_FunctionDef(self, n: ast.FunctionDef):  # noqa: N802
        n.name = self.fn.get(n.name, n.name)
        return self.generic_visit(n)

    visit_AsyncFunctionDef = visit_FunctionDef  # type: ignore[assignment]

    def visit_Attribute(self, n: ast.Attribute):  # noqa: N802
        n.attr = self.fn.get(n.attr, self.at.get(n.attr, n.attr))
        return self.generic_visit(n)

    def visit_Name(self, n: ast.Name):  # noqa: N802
        n.id = self.fn.get(n.id, n.id)
        return n

    def visit_Constant(self, n: ast.Constant):  # noqa: N802
        if isinstance(n.value, str) and n.value in self.at:  # __slots__ entries
            n.value = self.at[n.value]
        return n


# ------------------------------------------------------------------ N2 inlining of new helpers
def _stores(fn: ast.AST) -> set[str]:
    out = set()
    for n in ast.walk(fn):
        if isinstance(n, ast.Name) and isinstance(n.ctx, (ast.Store, ast.Del)):
            out.add(n.id)
        elif isinstance(n, ast.arg):
            out.add(n.arg)
    return out


def _names(fn: ast.AST) -> set[str]:
    return {n.id for n in ast.walk(fn) if isinstance(n, ast.Name)} | {n.arg for n in ast.walk(fn) if isinstance(n, ast.arg)}


def _inlinable(fn: ast.AST) -> bool:
    if not isinstance(fn, FuncDef):
        return False
    if fn.decorator_list and not (len(fn.decorator_list) == 1 and isinstance(fn.decorator_list[0], ast.Name) and fn.decorator_list[0].id == "staticmethod"):
        return False
    a = fn.args
    if a.vararg or a.kwarg or a.posonlyargs:
        return False
    for n in ast.walk(fn):
        if n is fn:
            continue
        if isinstance(n, (ast.Yield, ast.YieldFrom, ast.Lambda, ast.ClassDef, ast.Global, ast.Nonlocal)) or isinstance(n, FuncDef):
            return False
    # no return nested in a loop of the helper (a `break` of the wrapper would bind to that loop)
    def ret_in_loop(node: ast.AST, in_loop: bool) -> bool:
        for c in ast.iter_child_nodes(node):
            if isinstance(c, ast.Return) and in_loop:
                return True
            if ret_in_loop(c, in_loop or isinstance(c, (ast.For, ast.AsyncFor, ast.While))):
                return True
        return False

    if ret_in_loop(fn, False):
        return False
    return len(list(ast.walk(fn))) < 1500


class _Subst(ast.NodeTransformer):
    def __init__(self, ren: dict[str, str]) -> None:
        self.ren = ren

    def visit_Name(self, n: ast.Name):  # noqa: N802
        if n.id in self.ren:
            n.id = self.ren[n.id]
        return n


def _returns(body: list[ast.stmt]) -> list[ast.Return]:
    out = []
    for st in body:
        for n in ast.walk(st):
            if isinstance(n, ast.Return):
                out.append(n)
    return out


class _RetRewrite(ast.NodeTransformer):
    def __init__(self, target: ast.expr | None) -> None:
        self.target = target

    def visit_Return(self, n: ast.Return):  # noqa: N802
        out: list[ast.stmt] = []
        if self.target is not None:
            out.append(ast.Assign(targets=[copy.deepcopy(self.target)], value=n.value if n.value is not None else ast.Constant(value=None)))
        elif n.value is not None and not isinstance(n.value, (ast.Constant, ast.Name)):
            out.append(ast.Expr(value=n.value))
        out.append(ast.Break())
        return out


def _ends_with_return(body: list[ast.stmt]) -> bool:
    if not body:
        return False
    last = body[-1]
    if isinstance(last, (ast.Return, ast.Raise)):
        return True
    if isinstance(last, ast.If) and last.orelse:
        return _ends_with_return(last.body) and _ends_with_return(last.orelse)
    if isinstance(last, ast.Try) and not last.finalbody and not last.orelse:
        return _ends_with_return(last.body) and all(_ends_with_return(h.body) for h in last.handlers)
    return False


def _nest_early_returns(body: list[ast.stmt]) -> list[ast.stmt]:
    """`if c: A; return x` followed by REST  ->  `if c: A; return x` / `else: REST`  (recursively), so that every
    return ends up in tail position of an if/else tree."""
    out: list[ast.stmt] = []
    for i, st in enumerate(body):
        if isinstance(st, ast.If):
            st.body = _nest_early_returns(st.body)
            st.orelse = _nest_early_returns(st.orelse) if st.orelse else []
            rest = body[i + 1:]
            if rest and _ends_with_return(st.body) and not st.orelse:
                st.orelse = _nest_early_returns(rest)
                out.append(st)
                return out
            if rest and st.orelse and _ends_with_return(st.orelse) and not _ends_with_return(st.body):
                st.body = st.body + _nest_early_returns(rest)
                out.append(st)
                return out
        out.append(st)
    return out


def _push_returns(body: list[ast.stmt], target: ast.expr | None) -> list[ast.stmt] | None:
    """If every return of the body is in tail position of an if/else tree, turn each `return e` into `target = e`
    (or drop it); None if some return is elsewhere (inside try/with/loop ...)."""
    def conv(b: list[ast.stmt]) -> list[ast.stmt] | None:
        if not b:
            return [ast.Assign(targets=[copy.deepcopy(target)], value=ast.Constant(value=None))] if target is not None else []
        head, last = b[:-1], b[-1]
        if any(isinstance(x, ast.Return) for st in head for x in ast.walk(st)):
            return None
        if isinstance(last, ast.Return):
            if target is not None:
                return head + [ast.Assign(targets=[copy.deepcopy(target)], value=last.value if last.value is not None else ast.Constant(value=None))]
            if last.value is not None and not isinstance(last.value, (ast.Constant, ast.Name)):
                return head + [ast.Expr(value=last.value)]
            return head
        if isinstance(last, ast.If) and any(isinstance(x, ast.Return) for x in ast.walk(last)):
            a = conv(last.body)
            c = conv(last.orelse)
            if a is None or c is None:
                return None
            last.body = a or [ast.Pass()]
            last.orelse = c
            return head + [last]
        if isinstance(last, ast.Try) and not last.finalbody and not last.orelse and any(isinstance(x, ast.Return) for x in ast.walk(last)):
            a = conv(last.body)
            hs = [conv(h.body) for h in last.handlers]
            if a is None or any(h is None for h in hs):
                return None
            last.body = a or [ast.Pass()]
            for h, nb in zip(last.handlers, hs):
                h.body = nb or [ast.Pass()]
            return head + [last]
        if isinstance(last, (ast.With, ast.AsyncWith)) and any(isinstance(x, ast.Return) for x in ast.walk(last)):
            a = conv(last.body)
            if a is None:
                return None
            last.body = a or [ast.Pass()]
            return head + [last]
        if any(isinstance(x, ast.Return) for x in ast.walk(last)):
            return None
        # falls off the end: value None
        tail = [ast.Assign(targets=[copy.deepcopy(target)], value=ast.Constant(value=None))] if target is not None else []
        return b + tail

    return conv(body)


def expand_call(helper: ast.AST, call: ast.Call, target: ast.expr | None, caller_names: set[str], uid: int, is_method: bool, keep_returns: bool = False) -> list[ast.stmt] | None:
    """Statements equivalent to `target = helper(*call.args)` (target None: value discarded)."""
    h = copy.deepcopy(helper)
    params = [a.arg for a in h.args.args]  # type: ignore[attr-defined]
    static = bool(getattr(h, "decorator_list", None))
    if is_method and not static:
        params = params[1:]
    defaults = h.args.defaults  # type: ignore[attr-defined]
    dmap = dict(zip(params[len(params) - len(defaults):], defaults)) if defaults else {}
    kw = {k.arg: k.value for k in call.keywords if k.arg}
    if any(k.arg is None for k in call.keywords) or any(isinstance(a, ast.Starred) for a in call.args):
        return None
    for k in h.args.kwonlyargs:  # type: ignore[attr-defined]
        params.append(k.arg)
    for k, d in zip(h.args.kwonlyargs, h.args.kw_defaults):  # type: ignore[attr-defined]
        if d is not None:
            dmap[k.arg] = d
    binds: list[tuple[str, ast.expr]] = []
    for i, p in enumerate(params):
        if i < len(call.args):
            binds.append((p, call.args[i]))
        elif p in kw:
            binds.append((p, kw[p]))
        elif p in dmap:
            binds.append((p, dmap[p]))
        else:
            return None
    locs = _stores(h) - ({"self"} if is_method and not static else set())
    ren: dict[str, str] = {}
    pre: list[ast.stmt] = []
    for p, arg in binds:
        if isinstance(arg, ast.Name) and arg.id == p:
            continue  # same name on both sides: nothing to bind, nothing to rename
        ren[p] = f"{p}__{h.name}{uid}"  # type: ignore[attr-defined]
        pre.append(ast.Assign(targets=[ast.Name(id=ren[p], ctx=ast.Store())], value=copy.deepcopy(arg)))
    bound_same = {p for p, arg in binds if isinstance(arg, ast.Name) and arg.id == p}
    for v in locs:
        if v in ren or v in bound_same:
            continue
        if v in caller_names:
            ren[v] = f"{v}__{h.name}{uid}"  # type: ignore[attr-defined]
    body = _strip_doc(h.body)  # type: ignore[attr-defined]
    body = [_Subst(ren).visit(st) for st in body]
    if keep_returns:
        # `return helper(...)`: returning from the helper is returning from the caller - splice the body as it is
        out0 = pre + body
        if not body or not isinstance(body[-1], (ast.Return, ast.Raise)):
            out0.append(ast.Return(value=None))
        return out0
    body = _nest_early_returns(body)
    rets = _returns(body)
    tail_only = len(rets) == 0 or (len(rets) == 1 and body and body[-1] is rets[0])
    if not tail_only:
        pushed = _push_returns(body, target)
        if pushed is not None:
            return (pre + pushed) or [ast.Pass()]
    if tail_only:
        if rets:
            r = body.pop()
            if target is not None:
                body.append(ast.Assign(targets=[copy.deepcopy(target)], value=r.value if r.value is not None else ast.Constant(value=None)))  # type: ignore[union-attr]
            elif r.value is not None and not isinstance(r.value, (ast.Constant, ast.Name)):  # type: ignore[union-attr]
                body.append(ast.Expr(value=r.value))  # type: ignore[union-attr]
        elif target is not None:
            body.append(ast.Assign(targets=[copy.deepcopy(target)], value=ast.Constant(value=None)))
        out = pre + body
    else:
        rw = _RetRewrite(target)
        new_body: list[ast.stmt] = []
        for st in body:
            r2 = rw.visit(st)
            new_body.extend(r2 if isinstance(r2, list) else [r2])
        if target is not None:
            pre.append(ast.Assign(targets=[copy.deepcopy(target)], value=ast.Constant(value=None)))
        new_body.append(ast.Break())
        out = pre + [ast.While(test=ast.Constant(value=True), body=new_body, orelse=[])]
    if not out:
        out = [ast.Pass()]
    return out


def _call_of(e: ast.expr | None) -> tuple[ast.Call | None, bool]:
    """(call, awaited) if e is `f(...)` or `await f(...)`."""
    if isinstance(e, ast.Await) and isinstance(e.value, ast.Call):
        return e.value, True
    if isinstance(e, ast.Call):
        return e, False
    return None, False


def _helper_name(call: ast.Call, helpers: dict[str, tuple[ast.AST, bool]]) -> str | None:
    f = call.func
    if isinstance(f, ast.Attribute) and isinstance(f.value, ast.Name) and f.value.id == "self" and f.attr in helpers and helpers[f.attr][1]:
        return f.attr
    if isinstance(f, ast.Name) and f.id in helpers and not helpers[f.id][1]:
        return f.id
    return None


_HOIST_OK = (ast.Await, ast.UnaryOp, ast.NamedExpr, ast.Compare, ast.Call, ast.keyword, ast.Attribute, ast.Subscript, ast.Starred, ast.Tuple, ast.FormattedValue, ast.JoinedStr)


def _find_nested_call(root: ast.expr, helpers: dict[str, tuple[ast.AST, bool]]) -> tuple[ast.Call, ast.AST] | None:
    """A helper call nested inside an expression at a position that is evaluated unconditionally: returns (call, node to replace)."""
    def rec(e: ast.AST) -> tuple[ast.Call, ast.AST] | None:
        c, aw = _call_of(e)  # type: ignore[arg-type]
        if c is not None and _helper_name(c, helpers):
            return c, e
        if not isinstance(e, _HOIST_OK):
            return None
        if isinstance(e, ast.Compare):
            return rec(e.left)
        for ch in ast.iter_child_nodes(e):
            if isinstance(ch, (ast.expr_context, ast.unaryop, ast.operator, ast.cmpop, ast.boolop)):
                continue
            r = rec(ch)
            if r:
                return r
            # a sibling evaluated earlier must be trivially pure, otherwise stop looking further right
            if not isinstance(ch, (ast.Name, ast.Constant, ast.Attribute, ast.Load)):
                return None
        return None

    return rec(root)


class _Replace(ast.NodeTransformer):
    def __init__(self, old: ast.AST, new: ast.AST) -> None:
        self.old, self.new = old, new

    def visit(self, node: ast.AST):
        if node is self.old:
            return self.new
        return self.generic_visit(node)


def _boolean_shaped(e: ast.expr) -> bool:
    """The expression evaluates to True or False (not merely to something truthy or falsy)."""
    if isinstance(e, ast.Constant):
        return isinstance(e.value, bool)
    if isinstance(e, ast.Compare):
        return True
    if isinstance(e, ast.UnaryOp) and isinstance(e.op, ast.Not):
        return True
    if isinstance(e, ast.BoolOp):
        return all(_boolean_shaped(v) for v in e.values)
    if isinstance(e, ast.Call) and isinstance(e.func, ast.Name) and e.func.id in ("bool", "isinstance", "issubclass", "callable") :
        return True
    return False


def _single_return_expr(h: ast.AST) -> ast.expr | None:
    body = _strip_doc(h.body)  # type: ignore[attr-defined]
    if isinstance(h, ast.AsyncFunctionDef) or not body:
        return None
    if len(body) == 1 and isinstance(body[0], ast.Return) and body[0].value is not None:
        if not any(isinstance(x, (ast.Await, ast.NamedExpr, ast.Yield, ast.YieldFrom)) for x in ast.walk(body[0].value)):
            return body[0].value
        return None
    # predicate form: aliases of plain reads, then guard clauses `if c: return X`, then `return Y`
    #   -> X if c else Y   (written with and/or when X is a boolean constant, so that it can stand in a test)
    alias: dict[str, ast.expr] = {}
    i = 0
    while i < len(body) and isinstance(body[i], ast.Assign) and len(body[i].targets) == 1 and isinstance(body[i].targets[0], ast.Name) and _plain_read(body[i].value):
        alias[body[i].targets[0].id] = body[i].value
        i += 1
    rest = body[i:]
    if not rest or not isinstance(rest[-1], ast.Return) or rest[-1].value is None:
        return None
    guards = rest[:-1]
    if not guards or not all(isinstance(g, ast.If) and not g.orelse and len(g.body) == 1 and isinstance(g.body[0], ast.Return) and g.body[0].value is not None for g in guards):
        return None
    if any(isinstance(x, (ast.Await, ast.NamedExpr, ast.Yield, ast.YieldFrom, ast.Lambda)) for st in rest for x in ast.walk(st)):
        return None
    # only predicates: every returned value is a truth value (a helper that selects among other values - an enum
    # member, an error to raise - is expanded statement by statement like any other helper)
    if not all(_boolean_shaped(g.body[0].value) for g in guards) or not _boolean_shaped(rest[-1].value):
        return None
    # an alias must not be re-bound and the aliased attribute must not be written in between (there are no statements
    # but tests and returns in between, and tests with calls could write: require call-free tests when aliases exist)
    if alias and any(isinstance(x, ast.Call) for g in guards for x in ast.walk(g.test)):
        return None
    e: ast.expr = copy.deepcopy(rest[-1].value)
    for g in reversed(guards):
        c = copy.deepcopy(g.test)
        a = copy.deepcopy(g.body[0].value)
        if isinstance(a, ast.Constant) and a.value is False:
            e = ast.BoolOp(op=ast.And(), values=[ast.UnaryOp(op=ast.Not(), operand=c), e])
        elif isinstance(a, ast.Constant) and a.value is True:
            e = ast.BoolOp(op=ast.Or(), values=[c, e])
        elif _boolean_shaped(a) and isinstance(e, ast.Constant) and e.value is False:
            e = ast.BoolOp(op=ast.And(), values=[c, a])
        elif _boolean_shaped(a) and _boolean_shaped(e):
            # both arms are truth values: (c and a) or (not c and e)
            e = ast.BoolOp(op=ast.Or(), values=[ast.BoolOp(op=ast.And(), values=[c, a]), ast.BoolOp(op=ast.And(), values=[ast.UnaryOp(op=ast.Not(), operand=copy.deepcopy(c)), e])])
        else:
            e = ast.IfExp(test=c, body=a, orelse=e)

    class A(ast.NodeTransformer):
        def visit_Name(self, n: ast.Name):  # noqa: N802
            if n.id in alias and isinstance(n.ctx, ast.Load):
                return copy.deepcopy(alias[n.id])
            return n

    e = A().visit(e)
    return ast.fix_missing_locations(ast.copy_location(e, rest[-1]))


def inline_expressions(fn: ast.AST, helpers: dict[str, tuple[ast.AST, bool]], log: list[str]) -> bool:
    """A helper whose body is `return <expr>` is an expression: replace its calls (simple arguments only) in place."""
    changed = False

    class T(ast.NodeTransformer):
        def visit_Call(self, node: ast.Call):  # noqa: N802
            nonlocal changed
            self.generic_visit(node)
            name = _helper_name(node, helpers)
            if name is None:
                return node
            h, is_m = helpers[name]
            e = _single_return_expr(h)
            if e is None or node.keywords or any(not isinstance(a, (ast.Name, ast.Attribute, ast.Constant, ast.Subscript)) for a in node.args):
                return node
            params = [a.arg for a in h.args.args]  # type: ignore[attr-defined]
            static = bool(getattr(h, "decorator_list", None))
            if is_m and not static:
                params = params[1:]
            if len(params) != len(node.args) or h.args.kwonlyargs or h.args.defaults:  # type: ignore[attr-defined]
                return node
            m = dict(zip(params, node.args))
            uses = {}
            for x in ast.walk(e):
                if isinstance(x, ast.Name) and x.id in m:
                    uses[x.id] = uses.get(x.id, 0) + 1
            e2 = copy.deepcopy(e)

            class S(ast.NodeTransformer):
                def visit_Name(self, n: ast.Name):  # noqa: N802
                    if n.id in m:
                        return copy.deepcopy(m[n.id])
                    return n

            changed = True
            log.append(f"{name} (expression) -> {getattr(fn, 'name', '?')}")
            return ast.copy_location(S().visit(e2), node)

    T().visit(fn)
    return changed


def inline_in_function(fn: ast.AST, helpers: dict[str, tuple[ast.AST, bool]], counter: list[int], log: list[str]) -> bool:
    changed = inline_expressions(fn, helpers, log)

    def process(body: list[ast.stmt]) -> list[ast.stmt]:
        nonlocal changed
        out: list[ast.stmt] = []
        for st in body:
            if isinstance(st, FuncDef) or isinstance(st, ast.ClassDef):
                out.append(st)
                continue
            # recurse into compound statements first
            for fld in ("body", "orelse", "finalbody"):
                b = getattr(st, fld, None)
                if isinstance(b, list) and b and isinstance(b[0], ast.stmt):
                    setattr(st, fld, process(b))
            for h in getattr(st, "handlers", []) or []:
                h.body = process(h.body)
            # `if A and B(helper call): X` (no else)  ->  `if A: if B: X`, so that the call can be expanded in place
            if isinstance(st, ast.If) and not st.orelse and isinstance(st.test, ast.BoolOp) and isinstance(st.test.op, ast.And) and len(st.test.values) >= 2:
                has_call = [any(isinstance(c, ast.Call) and _helper_name(c, helpers) for c in ast.walk(v)) for v in st.test.values]
                if any(has_call[1:]):
                    k = has_call.index(True, 1)
                    inner_test = st.test.values[k] if k == len(st.test.values) - 1 else ast.BoolOp(op=ast.And(), values=st.test.values[k:])
                    outer_test = st.test.values[0] if k == 1 else ast.BoolOp(op=ast.And(), values=st.test.values[:k])
                    inner = ast.copy_location(ast.If(test=inner_test, body=st.body, orelse=[]), st)
                    st.test = outer_test
                    st.body = process([inner])
                    changed = True
            done = False
            for _ in range(6):
                target: ast.expr | None = None
                call = None
                repl: list[ast.stmt] | None = None
                if isinstance(st, ast.Expr):
                    call, _aw = _call_of(st.value)
                    kind = "expr"
                elif isinstance(st, ast.Assign) and len(st.targets) == 1:
                    call, _aw = _call_of(st.value)
                    target = st.targets[0]
                    kind = "assign"
                elif isinstance(st, ast.AnnAssign) and st.value is not None:
                    call, _aw = _call_of(st.value)
                    target = st.target
                    kind = "assign"
                elif isinstance(st, ast.Return):
                    call, _aw = _call_of(st.value)
                    kind = "return"
                else:
                    kind = "other"
                name = _helper_name(call, helpers) if call is not None else None
                if name is not None:
                    counter[0] += 1
                    uid = counter[0]
                    if kind == "return":
                        repl = expand_call(helpers[name][0], call, None, _names(fn), uid, helpers[name][1], keep_returns=True)
                    else:
                        repl = expand_call(helpers[name][0], call, target, _names(fn), uid, helpers[name][1])
                    if repl is not None:
                        log.append(f"{name} -> {getattr(fn, 'name', '?')}")
                        changed = True
                        out.extend(process(repl))
                        done = True
                    break
                # nested position: hoist into a temporary, then loop to expand the temporary assignment
                header: ast.expr | None = None
                if isinstance(st, (ast.Expr, ast.Assign, ast.AnnAssign, ast.AugAssign, ast.Return)):
                    header = st.value  # type: ignore[assignment]
                elif isinstance(st, ast.Raise):
                    header = st.exc
                elif isinstance(st, ast.If):
                    header = st.test
                if header is None:
                    break
                found = _find_nested_call(header, helpers)
                if not found:
                    break
                c2, node = found
                counter[0] += 1
                tmpn = f"_inl{counter[0]}"
                pre = ast.Assign(targets=[ast.Name(id=tmpn, ctx=ast.Store())], value=node)  # type: ignore[arg-type]
                new_header = _Replace(node, ast.Name(id=tmpn, ctx=ast.Load())).visit(header)
                if isinstance(st, ast.Raise):
                    st.exc = new_header
                elif isinstance(st, ast.If):
                    st.test = new_header
                else:
                    st.value = new_header  # type: ignore[union-attr]
                out.extend(process([pre]))
                changed = True
            if not done:
                out.append(st)
        return out

    fn.body = process(fn.body)  # type: ignore[attr-defined]
    ast.fix_missing_locations(fn)
    return changed


def new_helpers(trees: dict[str, ast.Module], base: dict[str, Any]) -> dict[str, dict[str, tuple[ast.AST, bool, str | None]]]:
    """module -> name -> (def, is_method, class name) for functions that the baseline does not know (public ones too: they are expanded
    into their package callers like private ones, and only dropped when nothing refers to them any more)."""
    out: dict[str, dict[str, tuple[ast.AST, bool, str | None]]] = {}
    for mod, tree in trees.items():
        bm = base.get(mod)
        if bm is None:
            continue
        # a method of the baseline that reappears as a module-level function of the same name (or the reverse) has been
        # moved, not newly extracted: the rules look it up in both places
        moved_m = {m for bc_ in bm["classes"].values() for m in bc_["methods"]}
        present_m = {s2.name for st in tree.body if isinstance(st, ast.ClassDef) for s2 in st.body if isinstance(s2, FuncDef)}
        for st in tree.body:
            if isinstance(st, FuncDef) and not st.name.startswith("__") and st.name not in bm["functions"] and _inlinable(st):
                if st.name in moved_m and st.name not in present_m:
                    continue
                out.setdefault(mod, {})[st.name] = (st, False, None)
            elif isinstance(st, ast.ClassDef):
                bc = bm["classes"].get(st.name)
                if bc is None:
                    continue
                for s2 in st.body:
                    if isinstance(s2, FuncDef) and not s2.name.startswith("__") and s2.name not in bc["methods"] and _inlinable(s2):
                        out.setdefault(mod, {})[s2.name] = (s2, True, st.name)
    return out


def _referenced(trees: dict[str, ast.Module], name: str, skip: ast.AST) -> bool:
    for tree in trees.values():
        for n in ast.walk(tree):
            if n is skip:
                continue
            if isinstance(n, ast.Attribute) and n.attr == name:
                return True
            if isinstance(n, ast.Name) and n.id == name and isinstance(n.ctx, ast.Load):
                return True
    return False


def inline_new_helpers(trees: dict[str, ast.Module], base: dict[str, Any], log: list[str]) -> None:
    counter = [0]
    for _round in range(4):
        nh = new_helpers(trees, base)
        if not nh:
            return
        any_change = False
        for mod, hs in nh.items():
            tree = trees[mod]
            helpers = {k: (v[0], v[1]) for k, v in hs.items()}
            for n in ast.walk(tree):
                if isinstance(n, FuncDef) and n.name not in helpers:
                    if inline_in_function(n, helpers, counter, log):
                        any_change = True
            # helpers calling helpers
            for k, (h, _m) in helpers.items():
                others = {k2: v2 for k2, v2 in helpers.items() if k2 != k}
                if others and inline_in_function(h, others, counter, log):
                    any_change = True
        # drop helpers that are no longer referenced anywhere
        for mod, hs in nh.items():
            tree = trees[mod]
            for name, (h, is_m, cname) in hs.items():
                if not name.startswith("_"):
                    continue  # a new public function is an entry point of its own: expanded into its callers, never dropped
                if not _referenced(trees, name, h) or not _still_called(trees, name, h):
                    _remove_def(tree, h)
                    log.append(f"dropped {mod}:{name}")
        if not any_change:
            return


def _still_called(trees: dict[str, ast.Module], name: str, skip: ast.AST) -> bool:
    inside = {id(x) for x in ast.walk(skip)}
    for tree in trees.values():
        for n in ast.walk(tree):
            if id(n) in inside:
                continue
            if isinstance(n, ast.Attribute) and n.attr == name:
                return True
            if isinstance(n, ast.Name) and n.id == name and isinstance(n.ctx, ast.Load):
                return True
    return False


def _remove_def(tree: ast.Module, h: ast.AST) -> None:
    for n in ast.walk(tree):
        b = getattr(n, "body", None)
        if isinstance(b, list) and h in b:
            b.remove(h)
            if not b:
                b.append(ast.Pass())
            return


# ------------------------------------------------------------------ N3 walrus
def _plain_read(e: ast.expr) -> bool:
    if isinstance(e, (ast.Name, ast.Constant)):
        return True
    if isinstance(e, ast.Attribute):
        return _plain_read(e.value)
    if isinstance(e, ast.UnaryOp) and isinstance(e.op, ast.Not):
        return _plain_read(e.operand)
    if isinstance(e, ast.Compare):
        return _plain_read(e.left) and all(_plain_read(c) for c in e.comparators)
    return False


def hoist_walrus(tree: ast.Module, log: list[str]) -> None:
    """`if (x := e) <op> ...:`  ->  `x = e` ; `if x <op> ...:` when the walrus is the first thing evaluated."""

    def first_walrus(t: ast.expr) -> ast.NamedExpr | None:
        e = t
        while True:
            if isinstance(e, ast.NamedExpr):
                return e
            if isinstance(e, ast.UnaryOp) and isinstance(e.op, ast.Not):
                e = e.operand
            elif isinstance(e, ast.Compare):
                e = e.left
            elif isinstance(e, ast.BoolOp):
                # a later operand may carry the walrus if everything evaluated before it is a plain read and the
                # bound value itself is a plain read (reading an attribute a little earlier changes nothing)
                nxt = e.values[0]
                for k, v in enumerate(e.values):
                    w = v
                    while isinstance(w, ast.UnaryOp) and isinstance(w.op, ast.Not):
                        w = w.operand
                    if isinstance(w, ast.Compare):
                        w = w.left
                    if isinstance(w, ast.NamedExpr) and k > 0 and _plain_read(w.value) and all(_plain_read(p) for p in e.values[:k]):
                        return w
                    if not _plain_read(v):
                        break
                e = nxt
            elif isinstance(e, ast.Attribute):
                e = e.value
            else:
                return None

    def process(body: list[ast.stmt]) -> list[ast.stmt]:
        out: list[ast.stmt] = []
        for st in body:
            for fld in ("body", "orelse", "finalbody"):
                b = getattr(st, fld, None)
                if isinstance(b, list) and b and isinstance(b[0], ast.stmt):
                    setattr(st, fld, process(b))
            for h in getattr(st, "handlers", []) or []:
                h.body = process(h.body)
            if isinstance(st, ast.If):
                w = first_walrus(st.test)
                while w is not None:
                    pre = ast.Assign(targets=[ast.Name(id=w.target.id, ctx=ast.Store())], value=w.value)
                    ast.copy_location(pre, st)
                    st.test = _Replace(w, ast.Name(id=w.target.id, ctx=ast.Load())).visit(st.test)
                    out.append(pre)
                    log.append(f"walrus {w.target.id}")
                    w = first_walrus(st.test)
            out.append(st)
        return out

    for n in ast.walk(tree):
        if isinstance(n, FuncDef):
            n.body = process(n.body)
    ast.fix_missing_locations(tree)


# ------------------------------------------------------------------ N8 `if TYPE_CHECKING:` blocks inside functions
def drop_type_checking(tree: ast.Module) -> int:
    """`if TYPE_CHECKING: assert ...` inside a function body is never executed: remove it."""
    count = 0

    def process(body: list[ast.stmt]) -> list[ast.stmt]:
        nonlocal count
        out: list[ast.stmt] = []
        for st in body:
            for fld in ("body", "orelse", "finalbody"):
                b = getattr(st, fld, None)
                if isinstance(b, list) and b and isinstance(b[0], ast.stmt):
                    nb = process(b)
                    setattr(st, fld, nb if nb or fld != "body" else [ast.Pass()])
            for h in getattr(st, "handlers", []) or []:
                h.body = process(h.body) or [ast.Pass()]
            if isinstance(st, ast.If) and isinstance(st.test, (ast.Name, ast.Attribute)) and (getattr(st.test, "id", None) == "TYPE_CHECKING" or getattr(st.test, "attr", None) == "TYPE_CHECKING"):
                count += 1
                out.extend(st.orelse)
                continue
            out.append(st)
        return out

    for n in ast.walk(tree):
        if isinstance(n, FuncDef):
            n.body = process(n.body) or [ast.Pass()]
    return count


# ------------------------------------------------------------------ N18 specific handler + catch-all handler
_BUILTIN_EXC = {"IndexError", "KeyError", "ValueError", "TypeError", "AttributeError", "OSError", "RuntimeError", "LookupError", "ArithmeticError", "TimeoutError", "ConnectionError", "ConnectionResetError", "UnicodeDecodeError"}


def merge_handlers(tree: ast.Module) -> int:
    """try: B / except T as a: X / except Exception as b: Y   ->   except Exception as e: if isinstance(e, T): X else: Y
    (T a builtin Exception subclass): the spelling the dispatcher uses; both orders of writing it mean the same."""
    count = 0
    for fn in [x for x in ast.walk(tree) if isinstance(x, FuncDef)]:
        for t in [x for x in ast.walk(fn) if isinstance(x, ast.Try)]:
            hs = t.handlers
            if len(hs) != 2 or hs[0].type is None or hs[1].type is None:
                continue
            last = hs[1].type
            if not (isinstance(last, ast.Name) and last.id == "Exception"):
                continue
            t0 = hs[0].type
            names0 = [t0] if not isinstance(t0, ast.Tuple) else list(t0.elts)
            if not all(isinstance(x, ast.Name) and x.id in _BUILTIN_EXC for x in names0):
                continue
            var = hs[1].name or hs[0].name or "_exc"
            used = {x.id for x in ast.walk(fn) if isinstance(x, ast.Name)}
            if var in used and var not in (hs[0].name, hs[1].name):
                continue

            def ren(body: list[ast.stmt], old: str | None) -> list[ast.stmt]:
                if old is None or old == var:
                    return body
                return [_Subst({old: var}).visit(b) for b in body]

            test = ast.Call(func=ast.Name(id="isinstance", ctx=ast.Load()), args=[ast.Name(id=var, ctx=ast.Load()), copy.deepcopy(t0)], keywords=[])
            merged = ast.ExceptHandler(type=ast.Name(id="Exception", ctx=ast.Load()), name=var, body=[ast.If(test=test, body=ren(hs[0].body, hs[0].name), orelse=ren(hs[1].body, hs[1].name))])
            ast.copy_location(merged, hs[0])
            t.handlers = [merged]
            count += 1
    if count:
        ast.fix_missing_locations(tree)
    return count


# ------------------------------------------------------------------ N12 conditional-expression assignments
def _namedtuples(tree: ast.Module) -> dict[str, list[str]]:
    out: dict[str, list[str]] = {}
    for n in ast.walk(tree):
        if isinstance(n, ast.ClassDef) and any((isinstance(b, ast.Name) and b.id == "NamedTuple") or (isinstance(b, ast.Attribute) and b.attr == "NamedTuple") for b in n.bases):
            out[n.name] = [st.target.id for st in n.body if isinstance(st, ast.AnnAssign) and isinstance(st.target, ast.Name)]
    return out


def ifexp_to_if(tree: ast.Module) -> int:
    """`x = a if c else b`  ->  `if c: x = a` / `else: x = b`   (also `x, y = (a, b) if c else (d, e)` and a call
    statement whose single argument / receiver choice is a conditional expression is left alone)."""
    count = 0

    nts = _namedtuples(tree)

    def split(st: ast.stmt) -> list[ast.stmt] | None:
        # `a, b = Pair(x, y)` with Pair a NamedTuple of the module: the record is taken apart at once
        if (
            isinstance(st, ast.Assign) and len(st.targets) == 1 and isinstance(st.targets[0], ast.Tuple) and isinstance(st.value, ast.Call) and isinstance(st.value.func, ast.Name)
            and st.value.func.id in nts and not st.value.keywords and len(st.value.args) == len(st.targets[0].elts) == len(nts[st.value.func.id])
            and all(isinstance(t, ast.Name) for t in st.targets[0].elts) and all(isinstance(a, (ast.Name, ast.Constant, ast.Attribute)) for a in st.value.args)
        ):
            names = {t.id for t in st.targets[0].elts}
            if not any(isinstance(x, ast.Name) and x.id in names for a in st.value.args for x in ast.walk(a)):
                return [ast.copy_location(ast.Assign(targets=[t], value=a), st) for t, a in zip(st.targets[0].elts, st.value.args)]
        if isinstance(st, ast.Assign) and isinstance(st.value, ast.IfExp):
            v = st.value
            a = ast.Assign(targets=copy.deepcopy(st.targets), value=v.body)
            b = ast.Assign(targets=copy.deepcopy(st.targets), value=v.orelse)
            return [ast.copy_location(ast.If(test=v.test, body=[ast.copy_location(a, st)], orelse=[ast.copy_location(b, st)]), st)]
        if isinstance(st, ast.AnnAssign) and isinstance(st.value, ast.IfExp) and isinstance(st.target, ast.Name):
            v = st.value
            a = ast.Assign(targets=[copy.deepcopy(st.target)], value=v.body)
            b = ast.Assign(targets=[copy.deepcopy(st.target)], value=v.orelse)
            return [ast.copy_location(ast.If(test=v.test, body=[ast.copy_location(a, st)], orelse=[ast.copy_location(b, st)]), st)]
        if isinstance(st, ast.Assign) and len(st.targets) == 1 and isinstance(st.targets[0], ast.Tuple) and isinstance(st.value, ast.Tuple) and len(st.targets[0].elts) == len(st.value.elts) and all(isinstance(t, ast.Name) for t in st.targets[0].elts):
            names = {t.id for t in st.targets[0].elts}
            if not any(isinstance(x, ast.Name) and x.id in names for v in st.value.elts for x in ast.walk(v)):
                return [ast.copy_location(ast.Assign(targets=[t], value=v), st) for t, v in zip(st.targets[0].elts, st.value.elts)]
        if isinstance(st, ast.Expr) and isinstance(st.value, ast.Call) and len(st.value.args) == 1 and not st.value.keywords and isinstance(st.value.args[0], ast.IfExp) and isinstance(st.value.func, (ast.Attribute, ast.Name)):
            v = st.value.args[0]
            ca = ast.Expr(value=ast.Call(func=copy.deepcopy(st.value.func), args=[v.body], keywords=[]))
            cb = ast.Expr(value=ast.Call(func=copy.deepcopy(st.value.func), args=[v.orelse], keywords=[]))
            return [ast.copy_location(ast.If(test=v.test, body=[ast.copy_location(ca, st)], orelse=[ast.copy_location(cb, st)]), st)]
        if isinstance(st, ast.Assign) and len(st.targets) > 1 and any(isinstance(t, ast.Name) for t in st.targets) and not isinstance(st.value, (ast.Yield, ast.Await)):
            first = next(t for t in st.targets if isinstance(t, ast.Name))
            outl: list[ast.stmt] = [ast.copy_location(ast.Assign(targets=[first], value=st.value), st)]
            for t in st.targets:
                if t is not first:
                    outl.append(ast.copy_location(ast.Assign(targets=[t], value=ast.Name(id=first.id, ctx=ast.Load())), st))
            return outl
        if isinstance(st, ast.Return) and isinstance(st.value, ast.IfExp):
            v = st.value
            return [ast.copy_location(ast.If(test=v.test, body=[ast.copy_location(ast.Return(value=v.body), st)], orelse=[ast.copy_location(ast.Return(value=v.orelse), st)]), st)]
        return None

    def process(body: list[ast.stmt]) -> list[ast.stmt]:
        nonlocal count
        out: list[ast.stmt] = []
        for st in body:
            for fld in ("body", "orelse", "finalbody"):
                b = getattr(st, fld, None)
                if isinstance(b, list) and b and isinstance(b[0], ast.stmt):
                    setattr(st, fld, process(b))
            for h in getattr(st, "handlers", []) or []:
                h.body = process(h.body)
            r = split(st)
            if r is not None:
                count += 1
                out.extend(process(r))
            else:
                out.append(st)
        return out

    for n in ast.walk(tree):
        if isinstance(n, FuncDef):
            n.body = process(n.body)
    return count


# ------------------------------------------------------------------ N14 loops over a literal table
def unroll_literal_loops(tree: ast.Module) -> int:
    """`for a, b in ((x1, y1), (x2, y2)): BODY`  ->  BODY[a:=x1, b:=y1]; BODY[a:=x2, b:=y2]   (small literal tables,
    body without break/continue/else, loop variables not reassigned)."""
    count = 0

    def process(body: list[ast.stmt]) -> list[ast.stmt]:
        nonlocal count
        out: list[ast.stmt] = []
        for st in body:
            for fld in ("body", "orelse", "finalbody"):
                b = getattr(st, fld, None)
                if isinstance(b, list) and b and isinstance(b[0], ast.stmt):
                    setattr(st, fld, process(b))
            for h in getattr(st, "handlers", []) or []:
                h.body = process(h.body)
            if (
                isinstance(st, ast.For) and not st.orelse and isinstance(st.iter, (ast.Tuple, ast.List)) and 1 <= len(st.iter.elts) <= 8
                and not any(isinstance(x, (ast.Break, ast.Continue, ast.Await, ast.Yield)) for b in st.body for x in ast.walk(b))
            ):
                tg = st.target
                names = [tg.id] if isinstance(tg, ast.Name) else [e.id for e in tg.elts] if isinstance(tg, ast.Tuple) and all(isinstance(e, ast.Name) for e in tg.elts) else None
                rows = []
                okr = names is not None
                if okr:
                    for el in st.iter.elts:
                        if isinstance(tg, ast.Name):
                            rows.append([el])
                        elif isinstance(el, (ast.Tuple, ast.List)) and len(el.elts) == len(names):
                            rows.append(list(el.elts))
                        else:
                            okr = False
                            break
                stored = {x.id for b in st.body for x in ast.walk(b) if isinstance(x, ast.Name) and isinstance(x.ctx, ast.Store)}
                if okr and not (stored & set(names or [])) and all(isinstance(v, (ast.Name, ast.Attribute, ast.Constant, ast.Tuple)) for r in rows for v in r):
                    for r in rows:
                        m = dict(zip(names, r))

                        class S(ast.NodeTransformer):
                            def visit_Name(self, n: ast.Name):  # noqa: N802
                                if n.id in m and isinstance(n.ctx, ast.Load):
                                    return copy.deepcopy(m[n.id])
                                return n

                        for b in st.body:
                            out.append(S().visit(copy.deepcopy(b)))
                    count += 1
                    continue
            out.append(st)
        return out

    for n in ast.walk(tree):
        if isinstance(n, FuncDef):
            n.body = process(n.body)
    return count


# ------------------------------------------------------------------ N5 extend(literal) -> appends
def expand_extend(tree: ast.Module) -> int:
    """`xs.extend((a, b, c))` with a literal tuple/list argument  ->  `xs.append(a); xs.append(b); xs.append(c)`."""
    count = 0

    def process(body: list[ast.stmt]) -> list[ast.stmt]:
        nonlocal count
        out: list[ast.stmt] = []
        for st in body:
            for fld in ("body", "orelse", "finalbody"):
                b = getattr(st, fld, None)
                if isinstance(b, list) and b and isinstance(b[0], ast.stmt):
                    setattr(st, fld, process(b))
            for h in getattr(st, "handlers", []) or []:
                h.body = process(h.body)
            if (
                isinstance(st, ast.Expr) and isinstance(st.value, ast.Call) and isinstance(st.value.func, ast.Attribute) and st.value.func.attr == "extend"
                and isinstance(st.value.func.value, ast.Name) and len(st.value.args) == 1 and isinstance(st.value.args[0], (ast.Tuple, ast.List))
                and not any(isinstance(e, ast.Starred) for e in st.value.args[0].elts) and not st.value.keywords
            ):
                for e in st.value.args[0].elts:
                    ap = ast.Expr(value=ast.Call(func=ast.Attribute(value=ast.Name(id=st.value.func.value.id, ctx=ast.Load()), attr="append", ctx=ast.Load()), args=[e], keywords=[]))
                    out.append(ast.copy_location(ap, st))
                count += 1
                continue
            out.append(st)
        return out

    for n in ast.walk(tree):
        if isinstance(n, FuncDef):
            n.body = process(n.body)
    return count


# ------------------------------------------------------------------ N7 new module-level literal constants
def inline_new_constants(trees: dict[str, ast.Module], base: dict[str, Any]) -> list[str]:
    """A module-level name the baseline does not know, bound once to a literal, is replaced by the literal
    (a maintainer hoisting a magic value into a named constant)."""
    done: list[str] = []
    for mod, tree in trees.items():
        bm = base.get(mod)
        if bm is None:
            continue
        known = set(bm.get("globals", []))
        binds: dict[str, list[ast.expr]] = {}
        for st in tree.body:
            if isinstance(st, (ast.Assign, ast.AnnAssign)) and getattr(st, "value", None) is not None:
                tg = st.targets if isinstance(st, ast.Assign) else [st.target]
                for t in tg:
                    if isinstance(t, ast.Name):
                        binds.setdefault(t.id, []).append(st.value)  # type: ignore[arg-type]
        def literalish(e: ast.expr) -> bool:
            if isinstance(e, ast.Constant) and isinstance(e.value, (int, float, str, bytes)) and not isinstance(e.value, bool):
                return True
            # an immutable value object built from literals, e.g. APIVersion(1, 1), or a tuple of enum members
            if isinstance(e, ast.Call) and isinstance(e.func, ast.Name) and e.func.id[:1].isupper() and not e.keywords and e.args and all(isinstance(a, ast.Constant) for a in e.args):
                return True
            if isinstance(e, ast.Tuple) and e.elts and all(isinstance(x, (ast.Constant, ast.Attribute, ast.Name)) for x in e.elts):
                return True
            return False

        new = {k: v[0] for k, v in binds.items() if k not in known and len(v) == 1 and literalish(v[0])}
        # not if the name is rebound anywhere (global statement) or imported elsewhere
        if not new:
            continue
        for n in ast.walk(tree):
            if isinstance(n, ast.Global):
                for x in n.names:
                    new.pop(x, None)
        for other_mod, other in trees.items():
            for n in ast.walk(other):
                if isinstance(n, ast.ImportFrom):
                    for a in n.names:
                        new.pop(a.name, None) if other_mod != mod else None

        class T(ast.NodeTransformer):
            def visit_Name(self, node: ast.Name):  # noqa: N802
                if isinstance(node.ctx, ast.Load) and node.id in new:
                    return ast.copy_location(copy.deepcopy(new[node.id]), node)
                return node

        # locals / parameters shadowing the name: leave such functions alone
        for fn in [x for x in ast.walk(tree) if isinstance(x, FuncDef)]:
            if _stores(fn) & set(new):
                continue
            T().visit(fn)
        done += [f"{mod}:{k}" for k in new]
    return done


# ------------------------------------------------------------------ driver (N1-N3; N4 runs after indexing, see aliases.py)
def to_augassign(tree: ast.Module) -> int:
    """N22: `T = T + e` (also -, *, |, &) with T a plain name or attribute chain becomes `T += e`."""
    n = 0

    def simple(t: ast.expr) -> bool:
        return isinstance(t, ast.Name) or (isinstance(t, ast.Attribute) and simple(t.value))

    for node in ast.walk(tree):
        for field in ("body", "orelse", "finalbody"):
            blk = getattr(node, field, None)
            if not isinstance(blk, list):
                continue
            for i, st in enumerate(blk):
                if isinstance(st, ast.Assign) and len(st.targets) == 1 and simple(st.targets[0]) and isinstance(st.value, ast.BinOp) and isinstance(st.value.op, (ast.Add, ast.Sub, ast.Mult, ast.BitOr, ast.BitAnd)) and ast.dump(st.value.left) == ast.dump(st.targets[0]).replace("Store()", "Load()"):
                    blk[i] = ast.copy_location(ast.AugAssign(target=st.targets[0], op=st.value.op, value=st.value.right), st)
                    n += 1
    return n


def drop_dead_statements(tree: ast.Module) -> int:
    """N21: statements that follow a raise / return / break / continue in the same block can never run (the inliner
    leaves such a tail behind when a helper ends in a raise); they are dropped."""
    n = 0
    for node in ast.walk(tree):
        for field in ("body", "orelse", "finalbody"):
            blk = getattr(node, field, None)
            if not isinstance(blk, list) or not blk or not isinstance(blk[0], ast.stmt):
                continue
            for i, st in enumerate(blk):
                if isinstance(st, (ast.Raise, ast.Return, ast.Break, ast.Continue)) and i + 1 < len(blk):
                    n += len(blk) - i - 1
                    del blk[i + 1 :]
                    break
    return n


def normalize_trees(trees: dict[str, ast.Module]) -> dict[str, Any]:
    """Run the passes N1-N3, N5, N7, N8 in place.  Each pass is fail-safe: if it raises, the trees are restored to
    what they were before that pass and the failure is recorded (a bug of the normaliser must never take the
    checks down)."""
    import pickle

    report: dict[str, Any] = {"renamed": {}, "inlined": [], "walrus": 0, "failed_passes": []}
    if os.environ.get("SA_NO_NORMALIZE"):
        report["disabled"] = True
        return report
    base = load_baseline()

    def guarded(name: str, fn) -> None:
        snap = pickle.dumps(trees, protocol=pickle.HIGHEST_PROTOCOL)
        try:
            fn()
            for t in trees.values():
                ast.fix_missing_locations(t)
                compile(t, "<normalised>", "exec")  # the rewritten module must still be a valid program
        except Exception as e:  # noqa: BLE001
            old = pickle.loads(snap)
            for k in list(trees):
                # restore in place: the Module objects are referenced by the loader
                trees[k].body = old[k].body
            report["failed_passes"].append(f"{name}: {type(e).__name__}: {e}")

    if base is not None:
        def n1() -> None:
            fn_ren, at_ren = find_renames(trees, base)
            if fn_ren or at_ren:
                r = _Renamer(fn_ren, at_ren)
                for t in trees.values():
                    r.visit(t)
                report["renamed"] = {**{f"{k}()": v for k, v in fn_ren.items()}, **at_ren}

        def n2() -> None:
            log: list[str] = []
            inline_new_helpers(trees, base, log)
            report["inlined"] = log

        def n7() -> None:
            report["constants"] = inline_new_constants(trees, base)

        guarded("N1 renames", n1)
        guarded("N2 inlining", n2)
        guarded("N7 constants", n7)

    def n21() -> None:
        report["dead_statements"] = sum(drop_dead_statements(t) for t in trees.values())

    guarded("N21 dead statements", n21)

    def n3() -> None:
        wl: list[str] = []
        for t in trees.values():
            hoist_walrus(t, wl)
        report["walrus"] = len(wl)

    def n5() -> None:
        report["extend"] = sum(expand_extend(t) for t in trees.values())

    def n8() -> None:
        report["type_checking_blocks"] = sum(drop_type_checking(t) for t in trees.values())

    def n12() -> None:
        report["ifexp_assignments"] = sum(ifexp_to_if(t) for t in trees.values())

    def n14() -> None:
        report["unrolled_literal_loops"] = sum(unroll_literal_loops(t) for t in trees.values())

    def n18() -> None:
        report["merged_handlers"] = sum(merge_handlers(t) for t in trees.values())

    def n22() -> None:
        report["augmented_assignments"] = sum(to_augassign(t) for t in trees.values())

    guarded("N18 handler merge", n18)
    guarded("N12 conditional expressions", n12)
    guarded("N22 augmented assignments", n22)
    guarded("N14 literal loops", n14)
    guarded("N3 walrus", n3)
    guarded("N5 extend", n5)
    guarded("N8 TYPE_CHECKING", n8)
    for t in trees.values():
        ast.fix_missing_locations(t)
    return report


def write_baseline(trees: dict[str, ast.Module]) -> None:
    BASELINE.write_text(json.dumps(inventory(trees), indent=0, sort_keys=True) + "\n")
