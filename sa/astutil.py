"""Small AST helpers shared by the rules."""

from __future__ import annotations

import ast
from typing import Iterable, Iterator

from .src import Func, Module, norm, own_nodes, walk_no_nested


def parent_map(tree: ast.AST) -> dict[ast.AST, ast.AST]:
    pm: dict[ast.AST, ast.AST] = {}
    for p in ast.walk(tree):
        for c in ast.iter_child_nodes(p):
            pm[c] = p
    return pm


def annotation_nodes(tree: ast.AST) -> set[ast.AST]:
    """All nodes that sit inside an annotation position."""
    out: set[ast.AST] = set()

    def mark(n: ast.AST | None) -> None:
        if n is not None:
            for x in ast.walk(n):
                out.add(x)

    for n in ast.walk(tree):
        if isinstance(n, ast.arg):
            mark(n.annotation)
        elif isinstance(n, (ast.FunctionDef, ast.AsyncFunctionDef)):
            mark(n.returns)
        elif isinstance(n, ast.AnnAssign):
            mark(n.annotation)
    return out


def type_checking_nodes(tree: ast.AST) -> set[ast.AST]:
    """Nodes under `if TYPE_CHECKING:` (never executed)."""
    out: set[ast.AST] = set()
    for n in ast.walk(tree):
        if isinstance(n, ast.If) and norm(n.test) in ("TYPE_CHECKING", "typing.TYPE_CHECKING"):
            for st in n.body:
                for x in ast.walk(st):
                    out.add(x)
    return out


def is_self_attr(n: ast.AST, attr: str | None = None, recv: str = "self") -> bool:
    return (
        isinstance(n, ast.Attribute)
        and isinstance(n.value, ast.Name)
        and n.value.id == recv
        and (attr is None or n.attr == attr)
    )


def attr_chain(n: ast.AST) -> list[str] | None:
    """['self', '_frame_helper', 'close'] for self._frame_helper.close; None if not a pure chain."""
    parts: list[str] = []
    while isinstance(n, ast.Attribute):
        parts.append(n.attr)
        n = n.value
    if isinstance(n, ast.Name):
        parts.append(n.id)
        return parts[::-1]
    return None


def stores_in(node: ast.AST) -> Iterator[tuple[ast.AST, ast.expr, ast.expr | None]]:
    """(stmt, target, value) for every assignment target inside node (no nested defs)."""
    for n in walk_no_nested(node):
        if isinstance(n, ast.Assign):
            for t in n.targets:
                for el in _flatten_target(t):
                    yield n, el, n.value
        elif isinstance(n, ast.AnnAssign):
            if n.value is not None or True:
                yield n, n.target, n.value
        elif isinstance(n, ast.AugAssign):
            yield n, n.target, n.value
        elif isinstance(n, ast.NamedExpr):
            yield n, n.target, n.value
        elif isinstance(n, ast.Delete):
            for t in n.targets:
                yield n, t, None


def _flatten_target(t: ast.expr) -> Iterable[ast.expr]:
    if isinstance(t, (ast.Tuple, ast.List)):
        for e in t.elts:
            yield from _flatten_target(e)
    elif isinstance(t, ast.Starred):
        yield from _flatten_target(t.value)
    else:
        yield t


def attr_writes(func: Func, attr: str | None = None) -> list[tuple[ast.AST, ast.Attribute, ast.expr | None]]:
    """Attribute stores in func's own body: (stmt, target Attribute, value)."""
    out = []
    for st, tgt, val in stores_in(func.node):
        if st is func.node:
            continue
        if isinstance(tgt, ast.Attribute) and (attr is None or tgt.attr == attr):
            out.append((st, tgt, val))
    return out


def const_value(e: ast.expr | None):
    if isinstance(e, ast.Constant):
        return e.value
    return None


def is_none(e: ast.expr | None) -> bool:
    return isinstance(e, ast.Constant) and e.value is None


def call_name(c: ast.Call) -> str:
    """Last attribute / name of the callee expression."""
    f = c.func
    if isinstance(f, ast.Attribute):
        return f.attr
    if isinstance(f, ast.Name):
        return f.id
    return ""


def find_calls(node: ast.AST, name: str) -> list[ast.Call]:
    return [n for n in walk_no_nested(node) if isinstance(n, ast.Call) and call_name(n) == name]


def stmts_of(func: Func) -> list[ast.stmt]:
    return [n for n in own_nodes(func.node) if isinstance(n, ast.stmt)]


def strip_docstring(body: list[ast.stmt]) -> list[ast.stmt]:
    if body and isinstance(body[0], ast.Expr) and isinstance(body[0].value, ast.Constant) and isinstance(body[0].value.value, str):
        return body[1:]
    return body


def bound_name(fn_node: ast.AST, value: ast.AST) -> str | None:
    """The local a value expression is bound to (`x = v`, `x: T = v` or `(x := v)`), if any."""
    for n in own_nodes(fn_node):
        if isinstance(n, ast.NamedExpr) and n.value is value:
            return n.target.id
        if isinstance(n, ast.Assign) and n.value is value and len(n.targets) == 1 and isinstance(n.targets[0], ast.Name):
            return n.targets[0].id
        if isinstance(n, ast.AnnAssign) and n.value is value and isinstance(n.target, ast.Name):
            return n.target.id
    return None


def call_arg(c: ast.Call, pos: int, name: str) -> ast.expr | None:
    """The expression a call passes for the parameter at position `pos` / named `name` (None if absent)."""
    if len(c.args) > pos and not any(isinstance(a, ast.Starred) for a in c.args[: pos + 1]):
        return c.args[pos]
    for k in c.keywords:
        if k.arg == name:
            return k.value
    return None
