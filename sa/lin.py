"""E-LIN: abstract interpretation of tiny straight-line code over a linear-expression domain.

Values are linear forms over symbols (entry values of attributes / parameters /
len() of byte strings), byte-string shape terms (initial buffer, data, concat,
slice) or opaque.  Paths of a function's CFG are enumerated (loops: the body is
analysed once from a fresh symbolic state at the loop head); branch conditions
are recorded as normalised linear comparisons.  No solver: obligations are
comparisons of normalised forms.  Anything outside the fragment makes the value
opaque (rules that need it then report an analysis error, never a verdict).
"""

from __future__ import annotations

import ast
from dataclasses import dataclass, field
from typing import Any, Iterator

from .cfg import CFG, Node
from .src import norm


@dataclass(frozen=True)
class Lin:
    terms: tuple[tuple[str, int], ...] = ()
    const: int = 0

    @staticmethod
    def sym(s: str) -> "Lin":
        return Lin(((s, 1),), 0)

    @staticmethod
    def c(v: int) -> "Lin":
        return Lin((), v)

    def _d(self) -> dict[str, int]:
        return dict(self.terms)

    def __add__(self, o: "Lin") -> "Lin":
        d = self._d()
        for k, v in o.terms:
            d[k] = d.get(k, 0) + v
        return Lin(tuple(sorted((k, v) for k, v in d.items() if v)), self.const + o.const)

    def __neg__(self) -> "Lin":
        return Lin(tuple((k, -v) for k, v in self.terms), -self.const)

    def __sub__(self, o: "Lin") -> "Lin":
        return self + (-o)

    def subst(self, sym: str, val: "Lin") -> "Lin":
        d = self._d()
        if sym not in d:
            return self
        coef = d.pop(sym)
        out = Lin(tuple(sorted(d.items())), self.const)
        for _ in range(abs(coef)):
            out = out + val if coef > 0 else out - val
        return out

    def is_const(self) -> bool:
        return not self.terms

    def __repr__(self) -> str:
        parts = []
        for k, v in self.terms:
            parts.append(f"{'+' if v > 0 else '-'}{'' if abs(v) == 1 else abs(v)}{k}")
        if self.const or not parts:
            parts.append(f"{'+' if self.const >= 0 else '-'}{abs(self.const)}")
        s = "".join(parts)
        return s[1:] if s.startswith("+") else s


@dataclass(frozen=True)
class Buf:
    """Shape of a byte string: ('B',) initial buffer attr; ('X', name); ('cat', a, b); ('slice', a, lo, hi); ('none',)"""

    t: tuple

    def __repr__(self) -> str:
        k = self.t[0]
        if k == "B":
            return "B"
        if k == "X":
            return f"{self.t[1]}"
        if k == "Xb":
            return f"bytes({self.t[1]})"
        if k == "cat":
            return f"({self.t[1]!r}+{self.t[2]!r})"
        if k == "slice":
            return f"{self.t[1]!r}[{self.t[2]!r}:{'' if self.t[3] is None else repr(self.t[3])}]"
        if k == "index":
            return f"{self.t[1]!r}[{self.t[2]!r}]"
        return "None"


class Opaque:
    def __init__(self, why: str = "") -> None:
        self.why = why

    def __repr__(self) -> str:
        return f"?{self.why}"


@dataclass
class Cond:
    expr: Lin  # compared with 0
    op: str  # "<", "<=", "==", "!="   (expr op 0), after normalisation (> and >= flipped)
    text: str = ""

    def __repr__(self) -> str:
        return f"({self.expr!r} {self.op} 0)"


def norm_cmp(lhs: Lin, op: str, rhs: Lin) -> Cond:
    e = lhs - rhs
    if op in (">", ">="):
        return Cond(-e, "<" if op == ">" else "<=")
    return Cond(e, op)


def negate(c: Cond) -> Cond:
    if c.op == "<":
        return Cond(-c.expr, "<=")  # not (e < 0)  <=>  -e <= 0
    if c.op == "<=":
        return Cond(-c.expr, "<")
    if c.op == "==":
        return Cond(c.expr, "!=")
    return Cond(c.expr, "==")


@dataclass
class PathState:
    env: dict[str, Any] = field(default_factory=dict)  # "self._pos" / local name -> Lin | Buf | Opaque | const
    conds: list[Cond] = field(default_factory=list)
    other_conds: list[tuple[str, bool]] = field(default_factory=list)
    events: list[tuple[str, Any]] = field(default_factory=list)  # ("index", Buf, Lin) ("return", value) ("write", attr, value)
    nodes: list[Node] = field(default_factory=list)

    def copy(self) -> "PathState":
        return PathState(dict(self.env), list(self.conds), list(self.other_conds), list(self.events), list(self.nodes))


class Interp:
    def __init__(self, cfg: CFG, attr_syms: dict[str, Any], param_syms: dict[str, Any]) -> None:
        self.cfg = cfg
        self.attr_syms = attr_syms  # "self._pos" -> Lin.sym("P") ...
        self.param_syms = param_syms

    def init_state(self) -> PathState:
        st = PathState()
        st.env.update(self.attr_syms)
        st.env.update(self.param_syms)
        return st

    # ---- expressions ------------------------------------------------------
    def ev(self, e: ast.expr, st: PathState) -> Any:
        if isinstance(e, ast.Constant):
            if isinstance(e.value, bool):
                return Opaque("bool")
            if isinstance(e.value, int):
                return Lin.c(e.value)
            if e.value is None:
                return Buf(("none",))
            return Opaque("const")
        if isinstance(e, ast.Name):
            v = st.env.get(e.id, Opaque(e.id))
            if isinstance(v, Buf) and v.t[0] == "X" and self.known_bytes(st, v.t[1]):
                return Buf(("Xb", v.t[1]))  # the chunk is known to be exactly `bytes` on this path
            return v
        if isinstance(e, ast.Attribute):
            return st.env.get(norm(e), Opaque(norm(e)))
        if isinstance(e, ast.NamedExpr):
            v = self.ev(e.value, st)
            st.env[e.target.id] = v
            return v
        if isinstance(e, ast.UnaryOp) and isinstance(e.op, ast.USub):
            v = self.ev(e.operand, st)
            return -v if isinstance(v, Lin) else Opaque("neg")
        if isinstance(e, ast.BinOp):
            a, b = self.ev(e.left, st), self.ev(e.right, st)
            if isinstance(a, Lin) and isinstance(b, Lin):
                if isinstance(e.op, ast.Add):
                    return a + b
                if isinstance(e.op, ast.Sub):
                    return a - b
                return Opaque("nonlinear")
            if isinstance(a, Buf) and isinstance(b, Buf) and isinstance(e.op, ast.Add):
                return Buf(("cat", a, b))
            return Opaque("binop")
        if isinstance(e, ast.Call):
            f = norm(e.func)
            if f == "len" and len(e.args) == 1:
                return self.length(self.ev(e.args[0], st))
            if f == "bytes" and len(e.args) == 1:
                v = self.ev(e.args[0], st)
                if isinstance(v, Buf) and v.t[0] == "X":
                    return Buf(("Xb", v.t[1]))  # byte-normalised copy of a bytes-like chunk
                return v
            if f in ("memoryview", "bytearray") and len(e.args) == 1:
                return self.ev(e.args[0], st)
            return Opaque(f"call {f}")
        if isinstance(e, ast.Subscript):
            base = self.ev(e.value, st)
            if isinstance(base, Buf):
                if isinstance(e.slice, ast.Slice):
                    lo = self.ev(e.slice.lower, st) if e.slice.lower is not None else Lin.c(0)
                    hi = self.ev(e.slice.upper, st) if e.slice.upper is not None else None
                    if isinstance(lo, Lin) and (hi is None or isinstance(hi, Lin)) and e.slice.step is None:
                        return Buf(("slice", base, lo, hi))
                    return Opaque("slice")
                idx = self.ev(e.slice, st)
                if isinstance(idx, Lin):
                    st.events.append(("index", base, idx, list(st.conds)))
                    return Opaque("byte")
            return Opaque("subscript")
        return Opaque(type(e).__name__)

    @staticmethod
    def known_bytes(st: "PathState", pname: str) -> bool:
        """The path took a branch that establishes `type(p) is bytes` / isinstance(p, bytes)."""
        for text, val in st.other_conds:
            t = text.replace(" ", "")
            if t in (f"type({pname})isbytes", f"type({pname})==bytes", f"isinstance({pname},bytes)") and val:
                return True
            if t in (f"type({pname})isnotbytes", f"type({pname})!=bytes") and not val:
                return True
        return False

    def length(self, v: Any) -> Any:
        if isinstance(v, Buf):
            k = v.t[0]
            if k == "B":
                return Lin.sym("L")
            if k == "X":
                # len() of an arbitrary bytes-like object counts items, not bytes (memoryview.cast)
                return Lin.sym(f"items({v.t[1]})")
            if k == "Xb":
                return Lin.sym(f"len({v.t[1]})")
            if k == "none":
                return Lin.c(0)
            if k == "cat":
                a, b = self.length(v.t[1]), self.length(v.t[2])
                return a + b if isinstance(a, Lin) and isinstance(b, Lin) else Opaque("len")
            if k == "slice":
                base = self.length(v.t[1])
                lo, hi = v.t[2], v.t[3]
                if isinstance(base, Lin):
                    return (hi - lo) if hi is not None else (base - lo)
        return Opaque("len")

    # ---- conditions ---------------------------------------------------------
    def cond(self, t: ast.expr, st: PathState) -> Cond | None:
        if isinstance(t, ast.Compare) and len(t.ops) == 1:
            a, b = self.ev(t.left, st), self.ev(t.comparators[0], st)
            ops = {ast.Lt: "<", ast.LtE: "<=", ast.Gt: ">", ast.GtE: ">=", ast.Eq: "==", ast.NotEq: "!="}
            op = ops.get(type(t.ops[0]))
            if isinstance(a, Lin) and isinstance(b, Lin) and op:
                c = norm_cmp(a, op, b)
                c.text = norm(t)
                return c
            return None
        v = self.ev(t, st)
        if isinstance(v, Lin):  # truthiness of an int
            return Cond(v, "!=", norm(t))
        return None

    # ---- statements ---------------------------------------------------------
    def exec(self, n: Node, st: PathState) -> None:
        a = n.ast
        if n.kind != "stmt" or a is None:
            return
        if isinstance(a, ast.Assign):
            v = self.ev(a.value, st)
            for t in a.targets:
                self.store(t, v, st)
        elif isinstance(a, ast.AnnAssign) and a.value is not None:
            self.store(a.target, self.ev(a.value, st), st)
        elif isinstance(a, ast.AugAssign):
            cur = self.ev(a.target, st)
            v = self.ev(a.value, st)
            if isinstance(cur, Lin) and isinstance(v, Lin) and isinstance(a.op, (ast.Add, ast.Sub)):
                self.store(a.target, cur + v if isinstance(a.op, ast.Add) else cur - v, st)
            elif isinstance(cur, Buf) and isinstance(v, Buf) and isinstance(a.op, ast.Add):
                self.store(a.target, Buf(("cat", cur, v)), st)
            else:
                self.store(a.target, Opaque("augassign"), st)
        elif isinstance(a, ast.Return):
            st.events.append(("return", self.ev(a.value, st) if a.value is not None else Buf(("none",)), list(st.conds)))
        elif isinstance(a, ast.Expr):
            self.ev(a.value, st)

    def store(self, t: ast.expr, v: Any, st: PathState) -> None:
        if isinstance(t, ast.Name):
            st.env[t.id] = v
        elif isinstance(t, ast.Attribute):
            st.env[norm(t)] = v
            st.events.append(("write", norm(t), v, list(st.conds)))

    # ---- path enumeration -----------------------------------------------------
    def paths(self, start: Node | None = None, stop: set[Node] | None = None, st0: PathState | None = None, limit: int = 400) -> Iterator[tuple[PathState, Node]]:
        """All paths from start to the function's exit (or a stop node); back edges are not followed."""
        g = self.cfg
        start = start or g.entry
        stop = stop or set()
        stack: list[tuple[Node, PathState, frozenset]] = [(start, st0 or self.init_state(), frozenset())]
        count = 0
        while stack:
            n, st, seen = stack.pop()
            if n is g.exit or (n in stop and n is not start) or n in seen:
                # exit, requested stop node, or a loop head reached again through a back edge
                count += 1
                if count > limit:
                    return
                yield st, n
                continue
            st.nodes.append(n)
            cnd = None
            if n.kind == "cond" and n.ast is not None:
                st_eval = st
                cnd = self.cond(n.ast, st_eval)
            else:
                self.exec(n, st)
            for label, s in n.succ:
                if label == "exc":
                    continue
                st2 = st.copy()
                if n.kind == "cond":
                    if cnd is not None:
                        st2.conds.append(cnd if label == "true" else negate(cnd))
                    else:
                        st2.other_conds.append((norm(n.ast), label == "true"))
                stack.append((s, st2, seen | {n}))


def entails(conds: list[Cond], want: Cond) -> bool:
    """Syntactic entailment on normalised forms (no solver): want is among conds, or is implied
    by one of them through the integer facts  e<0 => e<=0,  e<0 => e!=0,  e==0 => e<=0."""
    for c in conds:
        if c.expr == want.expr:
            if c.op == want.op:
                return True
            if c.op == "<" and want.op in ("<=", "!="):
                return True
            if c.op == "==" and want.op == "<=":
                return True
        if c.expr == -want.expr:
            if c.op == "==" and want.op in ("==", "<="):
                return True
            if c.op == "!=" and want.op == "!=":
                return True
            if c.op == "<" and want.op == "!=":
                return True
        # integers: e < 0  <=>  e + 1 <= 0
        if c.op == "<" and want.op == "<=" and (c.expr + Lin.c(1)) == want.expr:
            return True
        if c.op == "<=" and want.op == "<" and (c.expr - Lin.c(1)) == want.expr:
            return True
    return False
