"""N4 of sa/normalize.py: flow-sensitive propagation of pure local aliases (runs after indexing)."""

from __future__ import annotations

import ast
import copy
from typing import Any

from .src import Func, Repo, norm, own_nodes


def propagate_aliases(repo: Repo) -> int:
    return 0
