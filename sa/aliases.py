"""N4 of sa/normalize.py: flow-sensitive propagation of pure local aliases (runs after indexing).

    fut = self._start_connect_future          if self._start_connect_future is None or self._start_connect_future.done():
    if fut is None or fut.done():      ==>        return
        return                                 self._start_connect_future.set_result(None)
    fut.set_result(None)

A local that is bound exactly once to a side-effect-free expression E (names, attribute chains, constants,
constant subscripts, comparisons of those, partial(...) of those) is replaced by E at every use that no
*dirtying* event can reach between the binding and the use: a store to a name in E, a store to an attribute
with the name of an attribute in E (any receiver), a call of a package function whose transitive write
summary contains such an attribute, a call of unknown code, or a suspension point (for attribute components).
Uses inside nested lambdas / functions are replaced only if the components of E are never dirtied after the
binding anywhere in the function.  The rewrite is what a maintainer does by hand when inlining a temporary;
it cannot hide a violation because every event of the program is still there.
"""

from __future__ import annotations

import ast
import copy
from typing import Any

from .src import Func, Repo, norm, own_nodes

PURE_CALLS = {"partial", "functools.partial"}
# builtins whose result is an immutable scalar determined by the (pure) arguments: evaluating them again is harmless
SCALAR_CALLS = {"bool", "len", "type", "isinstance"}


def is_pure(e: ast.expr | None, depth: int = 0) -> bool:
    if e is None or depth > 6:
        return False
    if isinstance(e, (ast.Constant, ast.Name)):
        return True
    if isinstance(e, ast.Attribute):
        return is_pure(e.value, depth + 1)
    if isinstance(e, ast.Subscript):
        sl = e.slice
        ok_idx = isinstance(sl, ast.Constant) or (isinstance(sl, ast.UnaryOp) and isinstance(sl.operand, ast.Constant)) or (isinstance(sl, ast.Slice) and all(x is None or isinstance(x, ast.Constant) for x in (sl.lower, sl.upper, sl.step)))
        return ok_idx and is_pure(e.value, depth + 1)
    if isinstance(e, ast.Compare):
        return is_pure(e.left, depth + 1) and all(is_pure(c, depth + 1) for c in e.comparators)
    if isinstance(e, ast.BoolOp):
        return all(is_pure(v, depth + 1) for v in e.values)
    if isinstance(e, ast.UnaryOp) and isinstance(e.op, (ast.Not, ast.USub)):
        return is_pure(e.operand, depth + 1)
    if isinstance(e, ast.Tuple):
        return all(is_pure(x, depth + 1) for x in e.elts)
    if isinstance(e, ast.Call) and norm(e.func) in PURE_CALLS and not any(k.arg is None for k in e.keywords):
        return all(is_pure(a, depth + 1) for a in e.args) and all(is_pure(k.value, depth + 1) for k in e.keywords)
    if isinstance(e, ast.Call) and isinstance(e.func, ast.Name) and e.func.id in SCALAR_CALLS and not e.keywords and not any(isinstance(a, ast.Starred) for a in e.args):
        return all(is_pure(a, depth + 1) for a in e.args)
    return False


def components(e: ast.expr) -> tuple[set[str], set[str]]:
    """(names, attribute names) the value of e depends on."""
    names: set[str] = set()
    attrs: set[str] = set()
    for n in ast.walk(e):
        if isinstance(n, ast.Name):
            names.add(n.id)
        elif isinstance(n, ast.Attribute):
            attrs.add(n.attr)
    return names - {"self", "partial", "functools"}, attrs


def _write_summaries(repo: Repo) -> dict[str, set[str]]:
    """function key -> attribute names it may write (transitively), callees resolved by the engine's resolver."""
    from .resolve import Resolver
    from .sym import Symbols

    res = Resolver(repo, Symbols(repo))
    direct: dict[str, set[str]] = {}
    calls: dict[str, set[str]] = {}
    unknown: dict[str, bool] = {}
    for f in repo.funcs.values():
        w: set[str] = set()
        cs: set[str] = set()
        unk = False
        for n in own_nodes(f.node):
            if isinstance(n, ast.Attribute) and isinstance(n.ctx, (ast.Store, ast.Del)):
                w.add(n.attr)
            elif isinstance(n, ast.Call):
                try:
                    k = res.callees(f, n)
                except Exception:
                    unk = True
                    continue
                if k.kind in ("value", "unknown"):
                    unk = True
                for c in k.funcs:
                    cs.add(c.key)
        direct[f.key] = w
        calls[f.key] = cs
        unknown[f.key] = unk
    summ = {k: set(v) for k, v in direct.items()}
    star = {k for k, v in unknown.items() if v}
    for _ in range(30):
        changed = False
        for k in summ:
            for c in calls[k]:
                add = summ.get(c, set()) - summ[k]
                if add:
                    summ[k] |= add
                    changed = True
                if c in star and k not in star:
                    star.add(k)
                    changed = True
        if not changed:
            break
    for k in star:
        summ[k].add("*")
    _write_summaries.res = res  # type: ignore[attr-defined]
    return summ


def _candidates(f: Func) -> dict[str, tuple[ast.stmt, ast.expr]]:
    stores: dict[str, list[Any]] = {}
    for n in ast.walk(f.node):
        if isinstance(n, ast.Name) and isinstance(n.ctx, (ast.Store, ast.Del)):
            stores.setdefault(n.id, []).append(n)
        elif isinstance(n, ast.arg):
            stores.setdefault(n.arg, []).append(n)
        elif isinstance(n, (ast.Global, ast.Nonlocal)):
            for x in n.names:
                stores.setdefault(x, []).extend([n, n])
        elif isinstance(n, ast.ExceptHandler) and n.name:
            stores.setdefault(n.name, []).extend([n, n])
    out: dict[str, tuple[ast.stmt, ast.expr]] = {}
    for n in own_nodes(f.node):
        tgt = val = None
        if isinstance(n, ast.Assign) and len(n.targets) == 1 and isinstance(n.targets[0], ast.Name):
            tgt, val = n.targets[0].id, n.value
        elif isinstance(n, ast.AnnAssign) and isinstance(n.target, ast.Name) and n.value is not None:
            tgt, val = n.target.id, n.value
        if tgt is None or len(stores.get(tgt, [])) != 1:
            continue
        if not is_pure(val):
            # a temporary holding the result of a call may still be folded into its single use when nothing
            # at all happens in between (see propagate_in); anything fancier is left alone
            if any(isinstance(x, (ast.Await, ast.Yield, ast.YieldFrom, ast.NamedExpr, ast.Lambda, ast.ListComp, ast.SetComp, ast.DictComp, ast.GeneratorExp, ast.Starred)) for x in ast.walk(val)):
                continue
        if isinstance(val, ast.Constant):
            continue  # flags / counters: rules read them as locals
        if tgt in components(val)[0]:
            continue
        out[tgt] = (n, val)
    return out


def propagate_in(f: Func, summ: dict[str, set[str]], res: Any) -> int:
    from .cfg import CFG, may_forward, node_calls, walk_own

    cands = _candidates(f)
    if not cands:
        return 0
    try:
        g = CFG(f)
    except Exception:
        return 0
    done = 0
    for name, (st, val) in cands.items():
        cn, ca = components(val)
        def_nodes = [n for n in g.reachable() if n.ast is st]
        if len(def_nodes) != 1:
            continue
        dn = def_nodes[0]

        def dirties(n: Any) -> bool:
            a = n.ast
            if a is None:
                return False
            if n is dn:
                return False
            if n.kind in ("with-enter", "with-exit", "for") and n.is_async and ca:
                return True
            if n.kind in ("handler", "dispatch", "join", "with-exit"):
                return False
            for x in walk_own(a) if n.kind != "for" else ast.walk(a.target):  # type: ignore[attr-defined]
                if isinstance(x, ast.Name) and isinstance(x.ctx, (ast.Store, ast.Del)) and x.id in cn:
                    return True
                if isinstance(x, ast.Attribute) and isinstance(x.ctx, (ast.Store, ast.Del)) and x.attr in ca:
                    return True
                if isinstance(x, ast.Await) and ca:
                    return True
                if isinstance(x, ast.Call):
                    # a method called on a component name may mutate it (list.append ...)
                    if isinstance(x.func, ast.Attribute) and isinstance(x.func.value, ast.Name) and x.func.value.id in cn and x.func.attr not in ("get", "done", "cancelled", "hex", "decode", "find", "partition", "startswith", "endswith", "items", "keys", "values", "copy"):
                        return True
                    if ca:
                        try:
                            k = res.callees(f, x)
                        except Exception:
                            return True
                        if k.kind in ("value", "unknown"):
                            return True
                        for c in k.funcs:
                            s = summ.get(c.key, {"*"})
                            if "*" in s or (s & ca):
                                return True
            return False

        impure = not is_pure(val)

        def any_effect(n: Any) -> bool:
            if n.ast is None or n.kind in ("handler", "dispatch", "join"):
                return False
            if n.kind in ("with-enter", "with-exit", "for", "for-init"):
                return True
            return any(isinstance(x, (ast.Call, ast.Await)) or (isinstance(x, (ast.Attribute, ast.Subscript)) and isinstance(x.ctx, (ast.Store, ast.Del))) for x in walk_own(n.ast))

        def gk(n: Any, fact: frozenset, label: str) -> frozenset:
            if n is dn:
                return frozenset({"live"}) if label != "exc" else fact
            if "live" in fact and (dirties(n) or (impure and any_effect(n))):
                return fact | {"dirty"}
            return fact

        facts = may_forward(g, gk)
        ever_dirty = any("dirty" in facts.get(n, frozenset()) for n in g.reachable())
        # uses
        uses_direct: list[tuple[Any, ast.Name]] = []
        for n in g.reachable():
            if n.ast is None or n.kind in ("handler", "dispatch", "join"):
                continue
            srcs = list(walk_own(n.ast)) if n.kind not in ("for",) else []
            for x in srcs:
                if isinstance(x, ast.Name) and x.id == name and isinstance(x.ctx, ast.Load):
                    uses_direct.append((n, x))
        nested_uses: list[ast.Name] = []
        for n in own_nodes(f.node):
            if isinstance(n, (ast.Lambda, ast.FunctionDef, ast.AsyncFunctionDef)):
                shadow = {a.arg for a in ast.walk(n) if isinstance(a, ast.arg)}
                if name in shadow:
                    continue
                for x in ast.walk(n):
                    if isinstance(x, ast.Name) and x.id == name and isinstance(x.ctx, ast.Load):
                        nested_uses.append(x)
        repl: list[ast.Name] = []
        ok_all = True
        for n, x in uses_direct:
            fin = facts.get(n, frozenset())
            # the node itself may dirty a component before (e.g. `self._x = None` has no use); uses are read first
            if "live" in fin and "dirty" not in fin:
                repl.append(x)
            else:
                ok_all = False
        if nested_uses:
            if not ever_dirty:
                repl.extend(nested_uses)
            else:
                ok_all = False
        if not repl:
            continue
        if impure:
            # a call result may only be folded into the statement that directly follows its binding in the same
            # block (never across a try / loop / branch boundary: the exception context would change)
            nxt = _next_stmt(f.node, st)
            if nxt is None or len(uses_direct) != 1:
                continue
            hdr = [nxt] if not isinstance(nxt, (ast.If, ast.While, ast.For, ast.AsyncFor, ast.With, ast.AsyncWith, ast.Try)) else ([nxt.test] if isinstance(nxt, (ast.If,)) else [])
            if not any(x is uses_direct[0][1] for h in hdr for x in ast.walk(h)):
                continue
        creates_object = impure or any(isinstance(x, ast.Tuple) or (isinstance(x, ast.Call) and not (isinstance(x.func, ast.Name) and x.func.id in SCALAR_CALLS)) for x in ast.walk(val))
        if creates_object and (len(uses_direct) + len(nested_uses) != 1 or nested_uses or not ok_all):
            continue  # partial(...) / tuples are new objects at every evaluation: only a single use may be replaced
        ids = {id(x) for x in repl}

        class T(ast.NodeTransformer):
            def visit_Name(self, node: ast.Name):  # noqa: N802
                if id(node) in ids:
                    return ast.copy_location(copy.deepcopy(val), node)
                return node

        T().visit(f.node)
        done += len(repl)
        if ok_all:
            _remove_stmt(f.node, st)
        # the CFG and the candidate table describe the function as it was: rewrite one alias at a time
        ast.fix_missing_locations(f.node)
        return done
    return done


def _next_stmt(root: ast.AST, st: ast.stmt) -> ast.stmt | None:
    for n in ast.walk(root):
        for fld in ("body", "orelse", "finalbody"):
            b = getattr(n, fld, None)
            if isinstance(b, list) and st in b:
                i = b.index(st)
                return b[i + 1] if i + 1 < len(b) else None
    return None


def _remove_stmt(root: ast.AST, st: ast.stmt) -> None:
    for n in ast.walk(root):
        for fld in ("body", "orelse", "finalbody"):
            b = getattr(n, fld, None)
            if isinstance(b, list) and st in b:
                b.remove(st)
                if not b and fld == "body":
                    b.append(ast.Pass())
                return


def fold_rebinding(repo: Repo) -> int:
    """N10:  x = E ; T = x   ->   T = E   when x is a plain local used nowhere else (E may await: nothing moves
    across another statement).  Covers `responses = await f(); [resp] = responses`."""
    count = 0

    def process(fn_node: ast.AST, body: list[ast.stmt]) -> None:
        nonlocal count
        i = 0
        while i + 1 < len(body):
            a, b = body[i], body[i + 1]
            for st in (a,):
                for fld in ("body", "orelse", "finalbody"):
                    bb = getattr(st, fld, None)
                    if isinstance(bb, list) and bb and isinstance(bb[0], ast.stmt):
                        process(fn_node, bb)
                for h in getattr(st, "handlers", []) or []:
                    process(fn_node, h.body)
            if (
                isinstance(a, ast.Assign) and len(a.targets) == 1 and isinstance(a.targets[0], ast.Name)
                and isinstance(b, ast.Assign) and isinstance(b.value, ast.Name) and b.value.id == a.targets[0].id
            ):
                x = a.targets[0].id
                occ = [n for n in ast.walk(fn_node) if isinstance(n, ast.Name) and n.id == x]
                if len(occ) == 2:
                    b.value = a.value
                    del body[i]
                    count += 1
                    continue
            i += 1
        if body:
            st = body[-1]
            for fld in ("body", "orelse", "finalbody"):
                bb = getattr(st, fld, None)
                if isinstance(bb, list) and bb and isinstance(bb[0], ast.stmt):
                    process(fn_node, bb)
            for h in getattr(st, "handlers", []) or []:
                process(fn_node, h.body)

    for f in repo.funcs.values():
        if f.parent is None:
            process(f.node, f.node.body)
            ast.fix_missing_locations(f.node)
    return count


def nested_returns_to_lambdas(repo: Repo) -> int:
    """N11: a nested `def f(a, b): return <expr>` that is only passed around as a value is the lambda it spells."""
    count = 0
    for f in list(repo.funcs.values()):
        if f.parent is None:
            continue
        n = f.node
        if isinstance(n, ast.AsyncFunctionDef) or n.decorator_list:
            continue
        a = n.args
        if a.vararg or a.kwarg or a.kwonlyargs or a.defaults or a.posonlyargs:
            continue
        body = [st for st in n.body if not (isinstance(st, ast.Expr) and isinstance(st.value, ast.Constant) and isinstance(st.value.value, str))]
        if len(body) != 1 or not isinstance(body[0], ast.Return) or body[0].value is None:
            continue
        outer = f.parent.node
        refs = [x for x in ast.walk(outer) if isinstance(x, ast.Name) and x.id == n.name and isinstance(x.ctx, ast.Load)]
        called = [c for c in ast.walk(outer) if isinstance(c, ast.Call) and isinstance(c.func, ast.Name) and c.func.id == n.name]
        if not refs or called:
            continue
        if any(isinstance(x, (ast.Yield, ast.YieldFrom, ast.Await)) for x in ast.walk(body[0].value)):
            continue
        import copy as _copy

        lam_args = ast.arguments(posonlyargs=[], args=[ast.arg(arg=p.arg) for p in a.args], kwonlyargs=[], kw_defaults=[], defaults=[])
        ids = {id(x) for x in refs}

        class T(ast.NodeTransformer):
            def visit_Name(self, node: ast.Name):  # noqa: N802
                if id(node) in ids:
                    return ast.copy_location(ast.Lambda(args=_copy.deepcopy(lam_args), body=_copy.deepcopy(body[0].value)), node)
                return node

        T().visit(outer)
        _remove_stmt(outer, n)
        repo.funcs.pop(f.key, None)
        ast.fix_missing_locations(outer)
        count += 1
    return count


def sink_consumers(repo: Repo) -> int:
    """N19:  if c: x = A  else: x = B ;  S(x)     ->     if c: S(A)  else: S(B)
    when every leaf of the if/else tree ends with an assignment to the same local x, S is the next statement, a
    `raise` / `return` / expression statement that uses x exactly once, and x is used nowhere else.  (An error or a
    handler chosen on a branch and then raised / called once after the join.)"""
    count = 0

    def leaves(st: ast.If, x: str) -> list[tuple[list[ast.stmt], ast.Assign]] | None:
        out: list[tuple[list[ast.stmt], ast.Assign]] = []
        for body in (st.body, st.orelse):
            if not body:
                return None
            last = body[-1]
            if isinstance(last, ast.Assign) and len(last.targets) == 1 and isinstance(last.targets[0], ast.Name) and last.targets[0].id == x:
                out.append((body, last))
            elif isinstance(last, ast.If) and last.orelse:
                sub = leaves(last, x)
                if sub is None:
                    return None
                out.extend(sub)
            else:
                return None
        return out

    def process(fn_node: ast.AST, body: list[ast.stmt]) -> None:
        nonlocal count
        i = 0
        while i < len(body):
            st = body[i]
            for fld in ("body", "orelse", "finalbody"):
                b = getattr(st, fld, None)
                if isinstance(b, list) and b and isinstance(b[0], ast.stmt):
                    process(fn_node, b)
            for h in getattr(st, "handlers", []) or []:
                process(fn_node, h.body)
            if isinstance(st, ast.If) and st.orelse and i + 1 < len(body) and isinstance(body[i + 1], (ast.Raise, ast.Return, ast.Expr)):
                S = body[i + 1]
                names = [n for n in ast.walk(S) if isinstance(n, ast.Name) and isinstance(n.ctx, ast.Load)]
                for cand in {n.id for n in names}:
                    if sum(1 for n in names if n.id == cand) != 1:
                        continue
                    lv = leaves(st, cand)
                    if not lv:
                        continue
                    total = [n for n in ast.walk(fn_node) if isinstance(n, ast.Name) and n.id == cand]
                    if len(total) != len(lv) + 1:
                        # also allow one preceding `x = None` / annotation-only initialisation
                        inits = [a for a in ast.walk(fn_node) if isinstance(a, (ast.Assign, ast.AnnAssign)) and a not in [l for _, l in lv] and any(isinstance(t, ast.Name) and t.id == cand for t in (a.targets if isinstance(a, ast.Assign) else [a.target]))]
                        if len(total) != len(lv) + 1 + len(inits) or not all(getattr(a, "value", None) is None or (isinstance(a.value, ast.Constant) and a.value.value is None) for a in inits):
                            continue
                    for leaf_body, last in lv:
                        newS = copy.deepcopy(S)

                        class T(ast.NodeTransformer):
                            def visit_Name(self, node: ast.Name):  # noqa: N802
                                if node.id == cand and isinstance(node.ctx, ast.Load):
                                    return copy.deepcopy(last.value)
                                return node

                        leaf_body[-1] = ast.copy_location(T().visit(newS), last)
                    del body[i + 1]
                    count += 1
                    break
            i += 1

    for f in repo.funcs.values():
        if f.parent is None:
            process(f.node, f.node.body)
            ast.fix_missing_locations(f.node)
    return count


def loops_to_comprehensions(repo: Repo) -> int:
    """N9:  xs = [] ; for v in it: xs.append(e)   ->   xs = [e for v in it]   (the loop body is that one call)."""
    count = 0

    def process(body: list[ast.stmt]) -> None:
        nonlocal count
        i = 0
        while i < len(body):
            st = body[i]
            for fld in ("body", "orelse", "finalbody"):
                b = getattr(st, fld, None)
                if isinstance(b, list) and b and isinstance(b[0], ast.stmt):
                    process(b)
            for h in getattr(st, "handlers", []) or []:
                process(h.body)
            if i + 1 < len(body) and isinstance(st, (ast.Assign, ast.AnnAssign)) and isinstance(getattr(st, "value", None), ast.List) and not st.value.elts:
                tgt = st.targets[0] if isinstance(st, ast.Assign) and len(st.targets) == 1 else getattr(st, "target", None)
                lp = body[i + 1]
                if (
                    isinstance(tgt, ast.Name) and isinstance(lp, ast.For) and not lp.orelse and len(lp.body) == 1 and isinstance(lp.target, ast.Name)
                    and isinstance(lp.body[0], ast.Expr) and isinstance(lp.body[0].value, ast.Call) and isinstance(lp.body[0].value.func, ast.Attribute)
                    and lp.body[0].value.func.attr == "append" and isinstance(lp.body[0].value.func.value, ast.Name) and lp.body[0].value.func.value.id == tgt.id
                    and len(lp.body[0].value.args) == 1 and not any(isinstance(x, ast.Name) and x.id == tgt.id for x in ast.walk(lp.body[0].value.args[0]))
                    and not any(isinstance(x, (ast.Await, ast.Yield, ast.YieldFrom)) for x in ast.walk(lp.body[0].value.args[0]))
                ):
                    comp = ast.ListComp(elt=lp.body[0].value.args[0], generators=[ast.comprehension(target=lp.target, iter=lp.iter, ifs=[], is_async=0)])
                    st.value = comp
                    del body[i + 1]
                    count += 1
            # dict building:  d = {} ; for v in it: [if C: continue] ; d[k] = e   ->   d = {k: e for v in it [if not C]}
            if i + 1 < len(body) and isinstance(st, (ast.Assign, ast.AnnAssign)) and isinstance(getattr(st, "value", None), ast.Dict) and not st.value.keys:
                tgt = st.targets[0] if isinstance(st, ast.Assign) and len(st.targets) == 1 else getattr(st, "target", None)
                lp = body[i + 1]
                if isinstance(tgt, ast.Name) and isinstance(lp, ast.For) and not lp.orelse and isinstance(lp.target, ast.Name):
                    ifs: list[ast.expr] = []
                    rest = list(lp.body)
                    ok = True
                    while rest and isinstance(rest[0], ast.If) and len(rest) > 1:
                        g0 = rest[0]
                        # `if a: continue`, also nested `if a: if b: continue` (= `if a and b: continue`)
                        tests_: list[ast.expr] = []
                        gi: ast.stmt = g0
                        while isinstance(gi, ast.If) and not gi.orelse and len(gi.body) == 1:
                            tests_.append(gi.test)
                            gi = gi.body[0]
                        if tests_ and isinstance(gi, ast.Continue):
                            ct = tests_[0] if len(tests_) == 1 else ast.BoolOp(op=ast.And(), values=tests_)
                            ifs.append(ast.UnaryOp(op=ast.Not(), operand=ct))
                            rest = rest[1:]
                        else:
                            ok = False
                            break
                    if ok and len(rest) == 1 and isinstance(rest[0], ast.If) and not rest[0].orelse and len(rest[0].body) == 1:
                        ifs.append(rest[0].test)
                        rest = rest[0].body
                    if (
                        ok and len(rest) == 1 and isinstance(rest[0], ast.Assign) and len(rest[0].targets) == 1 and isinstance(rest[0].targets[0], ast.Subscript)
                        and isinstance(rest[0].targets[0].value, ast.Name) and rest[0].targets[0].value.id == tgt.id
                        and not any(isinstance(x, ast.Name) and x.id == tgt.id for x in ast.walk(rest[0].value))
                        and not any(isinstance(x, (ast.Await, ast.Yield, ast.YieldFrom)) for x in ast.walk(lp))
                    ):
                        comp = ast.DictComp(key=rest[0].targets[0].slice, value=rest[0].value, generators=[ast.comprehension(target=lp.target, iter=lp.iter, ifs=ifs, is_async=0)])
                        st.value = comp
                        del body[i + 1]
                        count += 1
            i += 1

    for f in repo.funcs.values():
        if f.parent is None:
            process(f.node.body)
            ast.fix_missing_locations(f.node)
    return count


def _safe(repo: Repo, name: str, fn) -> int:
    """Run a post-indexing pass; on any failure put the function bodies back as they were."""
    import pickle

    tops = [f for f in repo.funcs.values() if f.parent is None]
    snap = pickle.dumps([f.node.body for f in tops], protocol=pickle.HIGHEST_PROTOCOL)
    try:
        n = fn(repo)
        for f in tops:
            ast.fix_missing_locations(f.node)
        for m in repo.modules.values():
            compile(m.tree, "<normalised>", "exec")
        return n
    except Exception as e:  # noqa: BLE001
        for f, body in zip(tops, pickle.loads(snap)):
            f.node.body = body
        repo.normalisation.setdefault("failed_passes", []).append(f"{name}: {type(e).__name__}: {e}")
        return 0


def propagate_aliases(repo: Repo) -> int:
    repo.normalisation["rebinding_folds"] = _safe(repo, "N10 rebinding", fold_rebinding)
    repo.normalisation["nested_defs_to_lambdas"] = _safe(repo, "N11 nested defs", nested_returns_to_lambdas)
    n = _safe(repo, "N4 aliases", _propagate_all)
    def _unroll(r: Repo) -> int:
        from .normalize import unroll_literal_loops

        return sum(unroll_literal_loops(m.tree) for m in r.modules.values())

    repo.normalisation["sunk_consumers"] = _safe(repo, "N19 sink consumers", sink_consumers)
    repo.normalisation["unrolled_after_aliases"] = _safe(repo, "N14 literal loops (after aliases)", _unroll)
    repo.normalisation["loops_to_comprehensions"] = _safe(repo, "N9 comprehensions", loops_to_comprehensions)
    # the function index may hold nested functions that were rewritten away or re-created: rebuild it
    repo.funcs.clear()
    for ci in repo.classes.values():
        ci.methods.clear()
    repo.classes.clear()
    for mod in repo.modules.values():
        repo._index(mod)
    return n


def _propagate_all(repo: Repo) -> int:
    summ = _write_summaries(repo)
    res = _write_summaries.res  # type: ignore[attr-defined]
    total = 0
    for _round in range(3):
        n = 0
        for f in list(repo.funcs.values()):
            if f.parent is not None:
                continue  # nested functions are rewritten through their outermost function
            for _i in range(40):
                k = propagate_in(f, summ, res)
                if not k:
                    break
                n += k
                res._local_cache.clear()
        total += n
        if not n:
            break
        # the resolver caches local assignments: start afresh for the next round
        summ = _write_summaries(repo)
        res = _write_summaries.res  # type: ignore[attr-defined]
    return total
