"""Static analysis engine for the aioesphomeapi properties (see /verif/DESIGN.md)."""
