"""E-SRC: load and index the package under analysis (never imports it).

Every module of ``<repo>/aioesphomeapi`` is parsed with ``ast``; functions,
classes and module-level assignments are indexed by qualified name.  The repo
root is taken from ``VERIF_REPO`` (default ``/repo``) so the self-test can aim
the same rules at a scratch copy.
"""

from __future__ import annotations

import ast
import hashlib
import os
from dataclasses import dataclass, field
from functools import cached_property
from pathlib import Path
from typing import Iterator

PKG = "aioesphomeapi"
GENERATED = {"api_pb2.py", "api_options_pb2.py"}


class AnalysisError(Exception):
    """The analysis itself cannot be carried out (exit 2, never a verdict)."""


def repo_root() -> Path:
    return Path(os.environ.get("VERIF_REPO", "/repo"))


def norm(node: ast.AST | None) -> str:
    """Normalised text of a construct (formatting/line independent)."""
    if node is None:
        return "<none>"
    try:
        text = ast.unparse(node)
    except Exception:  # pragma: no cover
        text = ast.dump(node)
    return " ".join(text.split())


def short(node: ast.AST | None, n: int = 110) -> str:
    t = norm(node)
    return t if len(t) <= n else t[: n - 3] + "..."


@dataclass
class Module:
    name: str  # e.g. "connection", "_frame_helper.noise"
    path: Path
    source: str
    tree: ast.Module
    digest: str

    @property
    def rel(self) -> str:
        return f"{PKG}/{self.name.replace('.', '/')}.py"


@dataclass
class Func:
    module: Module
    qualname: str  # "APIConnection._cleanup", "handle_timeout", "APIClient.x.<inner>"
    node: ast.FunctionDef | ast.AsyncFunctionDef
    cls: "ClassInfo | None"
    parent: "Func | None" = None

    @property
    def name(self) -> str:
        return self.node.name

    @property
    def is_async(self) -> bool:
        return isinstance(self.node, ast.AsyncFunctionDef)

    @property
    def key(self) -> str:
        return f"{self.module.name}:{self.qualname}"

    def loc(self, node: ast.AST | None = None) -> str:
        n = node if node is not None and hasattr(node, "lineno") else self.node
        return f"{self.module.rel}:{getattr(n, 'lineno', 0)}"

    def params(self) -> list[ast.arg]:
        a = self.node.args
        return [*a.posonlyargs, *a.args, *a.kwonlyargs]

    def param_names(self) -> list[str]:
        return [p.arg for p in self.params()]

    def __hash__(self) -> int:
        return hash(self.key)

    def __eq__(self, other: object) -> bool:
        return isinstance(other, Func) and other.key == self.key

    def __repr__(self) -> str:
        return f"<Func {self.key}>"


@dataclass
class ClassInfo:
    module: Module
    name: str
    node: ast.ClassDef
    base_names: list[str]
    methods: dict[str, Func] = field(default_factory=dict)

    @property
    def key(self) -> str:
        return f"{self.module.name}:{self.name}"

    def __hash__(self) -> int:
        return hash(self.key)

    def __eq__(self, other: object) -> bool:
        return isinstance(other, ClassInfo) and other.key == self.key

    def __repr__(self) -> str:
        return f"<Class {self.key}>"


def own_nodes(fn: ast.AST) -> Iterator[ast.AST]:
    """Walk a function body without descending into nested defs/lambdas/classes."""
    stack = list(ast.iter_child_nodes(fn))
    while stack:
        n = stack.pop()
        yield n
        if isinstance(n, (ast.FunctionDef, ast.AsyncFunctionDef, ast.Lambda, ast.ClassDef)):
            continue
        stack.extend(ast.iter_child_nodes(n))


def walk_no_nested(node: ast.AST) -> Iterator[ast.AST]:
    """Walk *node* itself and its children, not entering nested defs/lambdas."""
    yield node
    for c in ast.iter_child_nodes(node):
        if isinstance(c, (ast.FunctionDef, ast.AsyncFunctionDef, ast.Lambda, ast.ClassDef)):
            yield c
            continue
        yield from walk_no_nested(c)


class Repo:
    def __init__(self, root: Path | None = None) -> None:
        self.root = Path(root) if root else repo_root()
        self.pkg_dir = self.root / PKG
        if not self.pkg_dir.is_dir():
            raise AnalysisError(f"package directory missing: {self.pkg_dir}")
        self.modules: dict[str, Module] = {}
        self.funcs: dict[str, Func] = {}
        self.classes: dict[str, ClassInfo] = {}  # by simple class name
        self.consulted: dict[str, str] = {}  # rel path -> digest
        self.normalisation: dict = {}
        self._load()

    # ------------------------------------------------------------------ load
    def _load(self) -> None:
        for path in sorted(self.pkg_dir.rglob("*.py")):
            if path.name in GENERATED or "__pycache__" in path.parts:
                continue
            rel = path.relative_to(self.pkg_dir).with_suffix("")
            name = ".".join(rel.parts)
            src = path.read_text(encoding="utf-8")
            try:
                tree = ast.parse(src, filename=str(path))
            except SyntaxError as e:
                raise AnalysisError(f"syntax error in {path}: {e}") from e
            mod = Module(name, path, src, tree, hashlib.sha256(src.encode()).hexdigest())
            self.modules[name] = mod
        # canonical spelling (renames undone, new helpers inlined, walrus hoisted, aliases propagated) before the
        # rules see anything; the rewritten trees are cached by the digest of all sources + the normaliser itself
        if os.environ.get("SA_NO_NORMALIZE"):
            self.normalisation = {"disabled": True}
            for mod in self.modules.values():
                self._index(mod)
            return
        cached = self._cache_load()
        if cached is not None:
            trees, self.normalisation = cached
            for n, m in self.modules.items():
                m.tree = trees[n]
            for mod in self.modules.values():
                self._index(mod)
            return
        from .normalize import normalize_trees

        self.normalisation = normalize_trees({n: m.tree for n, m in self.modules.items()})
        for mod in self.modules.values():
            self._index(mod)
        from .aliases import propagate_aliases

        self.normalisation["aliases"] = propagate_aliases(self)
        self._cache_store()

    # ------------------------------------------------------------------ cache of the normalised trees
    def _cache_key(self) -> str:
        h = hashlib.sha256()
        for n in sorted(self.modules):
            h.update(n.encode())
            h.update(self.modules[n].digest.encode())
        here = Path(__file__).resolve().parent
        for f in ("normalize.py", "aliases.py", "baseline_symbols.json", "resolve.py", "cfg.py", "sym.py"):
            p = here / f
            if p.is_file():
                h.update(p.read_bytes())
        return h.hexdigest()[:32]

    def _cache_dir(self) -> Path:
        return Path(os.environ.get("SA_CACHE_DIR") or (Path(__file__).resolve().parent.parent / ".cache"))

    def _cache_load(self):
        import pickle

        p = self._cache_dir() / f"norm-{self._cache_key()}.pkl"
        try:
            with open(p, "rb") as fh:
                trees, rep = pickle.load(fh)
            if set(trees) == set(self.modules):
                return trees, rep
        except Exception:
            return None
        return None

    def _cache_store(self) -> None:
        import pickle
        import tempfile

        try:
            d = self._cache_dir()
            d.mkdir(exist_ok=True)
            fd, tmp = tempfile.mkstemp(dir=str(d), prefix="norm-", suffix=".tmp")
            with os.fdopen(fd, "wb") as fh:
                pickle.dump(({n: m.tree for n, m in self.modules.items()}, self.normalisation), fh, protocol=pickle.HIGHEST_PROTOCOL)
            os.replace(tmp, d / f"norm-{self._cache_key()}.pkl")
            # keep the directory small
            old = sorted(d.glob("norm-*.pkl"), key=lambda q: q.stat().st_mtime)
            for q in old[:-40]:
                q.unlink(missing_ok=True)
        except Exception:
            pass

    def _index(self, mod: Module) -> None:
        def visit(body: list[ast.stmt], prefix: str, cls: ClassInfo | None, parent: Func | None) -> None:
            for st in body:
                if isinstance(st, ast.ClassDef):
                    ci = ClassInfo(mod, st.name, st, [norm(b) for b in st.bases])
                    # first definition wins for simple-name lookup; keep module-qualified too
                    self.classes.setdefault(st.name, ci)
                    self.classes[f"{mod.name}:{st.name}"] = ci
                    visit(st.body, f"{prefix}{st.name}.", ci, None)
                elif isinstance(st, (ast.FunctionDef, ast.AsyncFunctionDef)):
                    q = f"{prefix}{st.name}"
                    fn = Func(mod, q, st, cls, parent)
                    key = fn.key
                    if key in self.funcs:
                        # redefinition (e.g. version-dependent create_eager_task): keep
                        # both, the later under a numbered key
                        i = 2
                        while f"{key}#{i}" in self.funcs:
                            i += 1
                        fn.qualname = f"{q}#{i}"
                    self.funcs[fn.key] = fn
                    if cls is not None and parent is None and prefix == f"{cls.name}.":
                        cls.methods.setdefault(st.name, fn)
                    self._index_nested(fn, cls)
                elif isinstance(st, (ast.If, ast.Try, ast.With)):
                    for sub in _stmt_bodies(st):
                        visit(sub, prefix, cls, parent)

        visit(mod.tree.body, "", None, None)

    def _index_nested(self, outer: Func, cls: ClassInfo | None) -> None:
        for n in own_nodes(outer.node):
            if isinstance(n, (ast.FunctionDef, ast.AsyncFunctionDef)):
                q = f"{outer.qualname}.{n.name}"
                fn = Func(outer.module, q, n, cls, outer)
                self.funcs[fn.key] = fn
                self._index_nested(fn, cls)

    # --------------------------------------------------------------- lookups
    def module(self, name: str) -> Module:
        try:
            m = self.modules[name]
        except KeyError:
            raise AnalysisError(f"anchored module missing: {name}") from None
        self.consulted[m.rel] = m.digest
        return m

    def func(self, module: str, qualname: str) -> Func:
        self.module(module)
        try:
            return self.funcs[f"{module}:{qualname}"]
        except KeyError:
            raise AnalysisError(f"anchored function missing: {module}:{qualname}") from None

    def try_func(self, module: str, qualname: str) -> Func | None:
        if module in self.modules:
            self.module(module)
        return self.funcs.get(f"{module}:{qualname}")

    def cls(self, name: str) -> ClassInfo:
        try:
            c = self.classes[name]
        except KeyError:
            raise AnalysisError(f"anchored class missing: {name}") from None
        self.consulted[c.module.rel] = c.module.digest
        return c

    def try_cls(self, name: str) -> ClassInfo | None:
        return self.classes.get(name)

    def all_funcs(self) -> list[Func]:
        for m in self.modules.values():
            self.consulted[m.rel] = m.digest
        return list(self.funcs.values())

    def funcs_in(self, module: str) -> list[Func]:
        self.module(module)
        return [f for f in self.funcs.values() if f.module.name == module]

    def read_text(self, relpath: str) -> str:
        p = self.pkg_dir / relpath
        if not p.is_file():
            raise AnalysisError(f"anchored file missing: {p}")
        data = p.read_bytes()
        self.consulted[f"{PKG}/{relpath}"] = hashlib.sha256(data).hexdigest()
        return data.decode("utf-8")

    # -------------------------------------------------------- class helpers
    def mro(self, ci: ClassInfo) -> list[ClassInfo]:
        """Package-internal linearisation (single inheritance is all the repo uses)."""
        out = [ci]
        seen = {ci.key}
        cur = ci
        while True:
            nxt = None
            for b in cur.base_names:
                b = b.split(".")[-1]
                c = self.classes.get(b)
                if c is not None and c.key not in seen:
                    nxt = c
                    break
            if nxt is None:
                return out
            out.append(nxt)
            seen.add(nxt.key)
            cur = nxt

    def subclasses(self, ci: ClassInfo) -> list[ClassInfo]:
        out = []
        for k, c in self.classes.items():
            if ":" not in k:
                continue
            if c.key != ci.key and any(x.key == ci.key for x in self.mro(c)):
                out.append(c)
        return out

    def is_subclass(self, name: str, base: str) -> bool:
        c = self.classes.get(name)
        if c is None:
            return False
        return any(x.name == base for x in self.mro(c))

    def lookup_method(self, ci: ClassInfo, name: str) -> Func | None:
        for c in self.mro(ci):
            if name in c.methods:
                return c.methods[name]
        return None

    def method_impls(self, ci: ClassInfo, name: str) -> list[Func]:
        """All implementations a call ``obj.name()`` with static type *ci* may reach
        (the inherited one plus overrides in subclasses)."""
        out: list[Func] = []
        m = self.lookup_method(ci, name)
        if m is not None:
            out.append(m)
        for sc in self.subclasses(ci):
            if name in sc.methods and sc.methods[name] not in out:
                out.append(sc.methods[name])
        return out

    @cached_property
    def family_cache(self) -> dict[str, set[str]]:
        return {}

    def family(self, ci: ClassInfo) -> set[str]:
        """Names of the class, its package ancestors and its descendants."""
        if ci.key not in self.family_cache:
            fam = {c.name for c in self.mro(ci)} | {c.name for c in self.subclasses(ci)}
            self.family_cache[ci.key] = fam
        return self.family_cache[ci.key]


def _stmt_bodies(st: ast.stmt) -> list[list[ast.stmt]]:
    out = []
    for f in ("body", "orelse", "finalbody"):
        b = getattr(st, f, None)
        if b:
            out.append(b)
    for h in getattr(st, "handlers", []) or []:
        out.append(h.body)
    return out
