"""E-REP: obligations, violations, known findings, evidence files, exit codes."""

from __future__ import annotations

import ast
import json
import os
import time
from dataclasses import dataclass, field
from pathlib import Path
from typing import Any

from .src import AnalysisError, Func, Repo, norm, short

VERIF = Path(__file__).resolve().parent.parent
EVIDENCE_DIR = Path(os.environ.get("VERIF_EVIDENCE_DIR") or (VERIF / "evidence"))
KNOWN_FINDINGS = VERIF / "known_findings.json"


@dataclass
class Obligation:
    rule: str
    where: str  # module:qualname  (or file-level tag)
    construct: str  # normalised construct text / instance name
    ok: bool
    detail: str = ""
    loc: str = ""  # file:line (orientation only)
    path: list[str] = field(default_factory=list)

    @property
    def key(self) -> str:
        return f"{self.rule}|{self.where}|{self.construct}"


class Ctx:
    """Per-run context handed to every rule module."""

    def __init__(self, prop: str, tier: str, seed: int, repo: Repo) -> None:
        from .sym import Symbols

        self.prop = prop
        self.tier = tier
        self.seed = seed
        self.repo = repo
        self.sym = Symbols(repo)
        self.obligations: list[Obligation] = []
        self.instances: dict[str, tuple[int, int]] = {}
        self.floor_failures: list[str] = []
        self.notes: list[str] = []
        self.analysed: dict[str, Any] = {}
        self.t0 = time.time()
        self._services: dict[str, Any] = {}

    # ---------------------------------------------------------- obligations
    def ob(
        self,
        rule: str,
        where: Func | str,
        construct: ast.AST | str,
        ok: bool,
        detail: str = "",
        node: ast.AST | None = None,
        path: list[str] | None = None,
    ) -> bool:
        if isinstance(where, Func):
            w = where.key
            locnode = node if node is not None else (construct if isinstance(construct, ast.AST) else None)
            loc = where.loc(locnode)
        else:
            w = where
            loc = ""
        c = construct if isinstance(construct, str) else short(construct, 160)
        self.obligations.append(Obligation(rule, w, c, bool(ok), detail, loc, path or []))
        return bool(ok)

    def require(self, cond: bool, msg: str) -> None:
        """Analysis precondition (anchor exists, role unique, ...)."""
        if not cond:
            raise AnalysisError(msg)

    def count(self, rule: str, found: int, minimum: int, what: str = "") -> None:
        """Instance-count floor confirmed by hand; below it the rule fails closed."""
        self.instances[rule] = (found, minimum)
        if found < minimum:
            # deferred: if the run also finds a violation, that is the verdict; if it finds none,
            # finish() turns this into an ANALYSIS-ERROR (the rule would have passed vacuously)
            self.floor_failures.append(
                f"{rule}: matched {found} instance(s) {what}, fewer than the {minimum} confirmed by hand "
                "- the rule would pass vacuously"
            )

    def note(self, text: str) -> None:
        self.notes.append(text)

    def service(self, name: str, factory: Any) -> Any:
        if name not in self._services:
            self._services[name] = factory()
        return self._services[name]


def load_known() -> list[dict[str, Any]]:
    if not KNOWN_FINDINGS.is_file():
        return []
    return json.loads(KNOWN_FINDINGS.read_text())["findings"]


def finish(ctx: Ctx, explanation: str, assumptions: list[str], extra: dict[str, Any] | None = None) -> int:
    """Print the verdict, write the evidence file, return the exit code."""
    known = [k for k in load_known() if k.get("property") == ctx.prop and k.get("status") == "known"]
    known_keys = {f"{k['rule']}|{k['where']}|{k['construct']}": k for k in known}
    bad = [o for o in ctx.obligations if not o.ok]
    violations: list[Obligation] = []
    printed_known: set[str] = set()
    for o in bad:
        if o.key in known_keys:
            if o.key not in printed_known:
                k = known_keys[o.key]
                print(f"KNOWN-FINDING: property={ctx.prop} {k['what']} [{o.rule} {o.where} {o.construct}]")
                printed_known.add(o.key)
        else:
            violations.append(o)

    if ctx.floor_failures and not violations:
        raise AnalysisError("; ".join(ctx.floor_failures))
    failed_norm = (getattr(ctx.repo, "normalisation", None) or {}).get("failed_passes") or []
    if failed_norm and violations:
        # the rules were confirmed on the canonical spelling; if the normaliser itself failed, a reported
        # violation may be an artefact of the un-normalised spelling: no verdict rather than a possibly false alarm
        raise AnalysisError(f"normaliser pass failed ({'; '.join(failed_norm)[:300]}) and {len(violations)} obligation(s) are undischarged on the partly normalised tree: verdict withheld")
    EVIDENCE_DIR.mkdir(exist_ok=True)
    vdir = EVIDENCE_DIR / "violations"
    seen_v: set[str] = set()
    n = 0
    for o in violations:
        if o.key in seen_v:
            continue
        seen_v.add(o.key)
        n += 1
        vdir.mkdir(exist_ok=True)
        rp = vdir / f"{ctx.prop}-{n}.json"
        rp.write_text(
            json.dumps(
                {
                    "property": ctx.prop,
                    "rule": o.rule,
                    "where": o.where,
                    "construct": o.construct,
                    "detail": o.detail,
                    "loc": o.loc,
                    "path": o.path,
                    "sources": ctx.repo.consulted,
                },
                indent=1,
            )
        )
        if n <= 25:
            print(f"{o.loc or o.where} {o.where} {o.rule}: {o.construct} -- {o.detail}")
            for p in o.path:
                print(f"    path: {p}")
            print(f"VIOLATION property={ctx.prop} replay={rp}")
        elif n == 26:
            print(f"... further violations of {ctx.prop} are recorded under {vdir} only")

    distinct = len({o.key for o in ctx.obligations})
    samples = []
    step = max(1, len(ctx.obligations) // 12)
    for o in ctx.obligations[::step][:12]:
        samples.append({"rule": o.rule, "where": o.where, "construct": o.construct, "verdict": "ok" if o.ok else "VIOLATED", "detail": o.detail})
    for o in violations[:10]:
        samples.append({"rule": o.rule, "where": o.where, "construct": o.construct, "verdict": "VIOLATED", "detail": o.detail})
    by_rule: dict[str, list[int]] = {}
    for o in ctx.obligations:
        r = by_rule.setdefault(o.rule, [0, 0])
        r[0] += 1
        r[1] += 1 if o.ok else 0
    coverage = {
        "explanation": explanation,
        "obligations": len(ctx.obligations),
        "discharged": sum(1 for o in ctx.obligations if o.ok),
        "evaluations": max(1, len(ctx.obligations)),
        "distinct_nontrivial": distinct,
        "rule": "one obligation per (rule, function, construct) instance extracted from the current source; "
        "distinct = distinct (rule, function, normalised construct) keys",
        "samples": samples,
        "per_rule": {r: {"obligations": v[0], "discharged": v[1]} for r, v in sorted(by_rule.items())},
        "instance_floors": {r: {"found": f, "minimum": m} for r, (f, m) in sorted(ctx.instances.items())},
        "files_consulted": ctx.repo.consulted,
        "normalisation": {k: (v if not isinstance(v, list) or len(v) <= 12 else v[:12] + [f"... {len(v) - 12} more"]) for k, v in (getattr(ctx.repo, "normalisation", None) or {}).items()},
        "analysed": ctx.analysed,
        "notes": ctx.notes,
        "known_findings_printed": sorted(printed_known),
        "exhaustive": True,
        "checker_cmd": f"/venv/bin/python -m sa check {ctx.prop} --tier {ctx.tier}",
        "trusted_base": ["CPython ast", "asyncio scheduling model M1-M5 (DESIGN.md section 2)"],
    }
    if extra:
        coverage.update(extra)
    ev = {
        "property_id": ctx.prop,
        "tier": ctx.tier,
        "seed": ctx.seed,
        "level": "other",
        "coverage": coverage,
        "assumptions": assumptions,
        "wall_s": round(time.time() - ctx.t0, 3),
        "violations": len(seen_v),
    }
    (EVIDENCE_DIR / f"{ctx.prop}.json").write_text(json.dumps(ev, indent=1, default=str))
    print(
        f"{ctx.prop} [{ctx.tier}] obligations={len(ctx.obligations)} discharged={coverage['discharged']} "
        f"violations={len(seen_v)} known={len(printed_known)} wall={ev['wall_s']}s"
    )
    return 1 if seen_v else 0


def analysis_error(prop: str, tier: str, seed: int, msg: str, t0: float) -> int:
    """Exit 2: never prints a VIOLATION line.  Evidence records the failure."""
    print(f"ANALYSIS-ERROR property={prop} {msg}")
    EVIDENCE_DIR.mkdir(exist_ok=True)
    ev = {
        "property_id": prop,
        "tier": tier,
        "seed": seed,
        "level": "other",
        "coverage": {
            "explanation": f"ANALYSIS ERROR - no verdict: {msg}",
            "obligations": 0,
            "discharged": 0,
            "samples": [],
        },
        "assumptions": [],
        "wall_s": round(time.time() - t0, 3),
        "violations": 0,
    }
    (EVIDENCE_DIR / f"{prop}.json").write_text(json.dumps(ev, indent=1))
    return 2
