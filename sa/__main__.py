"""CLI:  python -m sa check <id> [--tier quick|thorough]
           python -m sa replay <violation.json>
           python -m sa all [--tier ...]
"""

from __future__ import annotations

import argparse
import importlib
import json
import os
import sys
import time
import traceback

from .report import Ctx, analysis_error, finish
from .src import AnalysisError, Repo

PROPS = [f"C{n:02d}" for n in range(1, 21)]


def run_check(prop: str, tier: str, seed: int) -> int:
    t0 = time.time()
    try:
        try:
            mod = importlib.import_module(f"sa.rules.{prop.lower()}")
        except ModuleNotFoundError as e:
            if e.name == f"sa.rules.{prop.lower()}":
                return analysis_error(prop, tier, seed, "no rule set is built for this property", t0)
            raise
        repo = Repo()
        ctx = Ctx(prop, tier, seed, repo)
        mod.run(ctx)
        extra = None
        if tier == "thorough" and hasattr(mod, "thorough"):
            extra = mod.thorough(ctx)
        return finish(ctx, mod.EXPLANATION, mod.ASSUMPTIONS, extra)
    except AnalysisError as e:
        return analysis_error(prop, tier, seed, str(e), t0)
    except Exception as e:  # a crash of the checker is never a verdict
        traceback.print_exc()
        return analysis_error(prop, tier, seed, f"checker crashed: {type(e).__name__}: {e}", t0)


def main(argv: list[str] | None = None) -> int:
    ap = argparse.ArgumentParser(prog="sa")
    sub = ap.add_subparsers(dest="cmd", required=True)
    c = sub.add_parser("check")
    c.add_argument("prop")
    c.add_argument("--tier", default=os.environ.get("VERIF_TIER", "quick"), choices=["quick", "thorough"])
    r = sub.add_parser("replay")
    r.add_argument("path")
    a = sub.add_parser("all")
    a.add_argument("--tier", default="quick", choices=["quick", "thorough"])
    args = ap.parse_args(argv)
    seed = int(os.environ.get("VERIF_SEED", "0") or 0)
    if args.cmd == "check":
        return run_check(args.prop.upper(), args.tier, seed)
    if args.cmd == "replay":
        rec = json.loads(open(args.path).read())
        print(f"replaying {rec['rule']} at {rec['where']}: {rec['construct']}")
        return run_check(rec["property"], "quick", seed)
    if args.cmd == "all":
        worst = 0
        for p in PROPS:
            rc = run_check(p, args.tier, seed)
            worst = max(worst, rc)
        return worst
    return 2


if __name__ == "__main__":
    rc = main()
    sys.stdout.flush()
    os._exit(rc)
