"""CLI:  python -m sa check <id> [--tier quick|thorough]
           python -m sa replay <violation.json>
           python -m sa all [--tier ...]
"""

from __future__ import annotations

import argparse
import importlib
import json
import os
import sys
import time
import traceback

from .report import Ctx, analysis_error, finish
from .src import AnalysisError, Repo

PROPS = [f"C{n:02d}" for n in range(1, 21)]


def run_check(prop: str, tier: str, seed: int) -> int:
    t0 = time.time()
    try:
        try:
            mod = importlib.import_module(f"sa.rules.{prop.lower()}")
        except ModuleNotFoundError as e:
            if e.name == f"sa.rules.{prop.lower()}":
                return analysis_error(prop, tier, seed, "no rule set is built for this property", t0)
            raise
        repo = Repo()
        ctx = Ctx(prop, tier, seed, repo)
        mod.run(ctx)
        extra: dict | None = None
        if tier == "thorough":
            extra = {}
            if hasattr(mod, "thorough"):
                extra.update(mod.thorough(ctx) or {})
            extra.update(thorough_selftest(ctx))
        return finish(ctx, mod.EXPLANATION, mod.ASSUMPTIONS, extra)
    except AnalysisError as e:
        return analysis_error(prop, tier, seed, str(e), t0)
    except Exception as e:  # a crash of the checker is never a verdict
        traceback.print_exc()
        return analysis_error(prop, tier, seed, f"checker crashed: {type(e).__name__}: {e}", t0)


def thorough_selftest(ctx: Ctx) -> dict:
    """Thorough tier: besides the complete rule set, prove on this very tree that the rule set still
    has teeth - every recorded single-edit variant of the property's anchored code (sa/variants) and
    every independently written breaking change kept under /verif/seeded must be reported, and every
    behaviour-preserving variant must stay silent.  Only meaningful when the tree itself is clean:
    on a tree with violations the verdict is the violation."""
    if any(not o.ok for o in ctx.obligations) and _unlisted_violations(ctx):
        return {"selftest": {"skipped": "the current tree has violations; sensitivity is measured on a clean tree only"}}
    if os.environ.get("VERIF_REPO"):
        return {"selftest": {"skipped": "nested run"}}
    from .mutants import selftest

    results, bad = selftest([ctx.prop])
    from collections import Counter

    cnt = Counter(r["status"] for r in results)
    summary = {
        "variants_run": len(results),
        "by_status": dict(cnt),
        "fire_expected": sum(1 for r in results if r.get("expect") == "fire"),
        "silent_expected": sum(1 for r in results if r.get("expect") == "silent"),
        "seeded_changes": sorted(r["vid"] for r in results if str(r.get("vid", "")).startswith("seeded:")),
        "problems": [r for r in results if r["status"] in ("MISSED", "FALSE-ALARM", "broken-variant")][:10],
        "samples": [{k: r.get(k) for k in ("vid", "expect", "status", "report")} for r in results[:6]],
    }
    if bad:
        raise AnalysisError(
            "checker self-test failed on this tree (sensitivity lost or false alarm on a behaviour-preserving variant): "
            + "; ".join(f"{r['vid']}={r['status']}" for r in summary["problems"][:5])
        )
    return {"selftest": summary}


def _unlisted_violations(ctx: Ctx) -> bool:
    from .report import load_known

    known = {f"{k['rule']}|{k['where']}|{k['construct']}" for k in load_known() if k.get("property") == ctx.prop and k.get("status") == "known"}
    return any((not o.ok) and o.key not in known for o in ctx.obligations)


def main(argv: list[str] | None = None) -> int:
    ap = argparse.ArgumentParser(prog="sa")
    sub = ap.add_subparsers(dest="cmd", required=True)
    c = sub.add_parser("check")
    c.add_argument("prop")
    c.add_argument("--tier", default=os.environ.get("VERIF_TIER", "quick"), choices=["quick", "thorough"])
    r = sub.add_parser("replay")
    r.add_argument("path")
    a = sub.add_parser("all")
    a.add_argument("--tier", default="quick", choices=["quick", "thorough"])
    args = ap.parse_args(argv)
    seed = int(os.environ.get("VERIF_SEED", "0") or 0)
    if args.cmd == "check":
        return run_check(args.prop.upper(), args.tier, seed)
    if args.cmd == "replay":
        rec = json.loads(open(args.path).read())
        print(f"replaying {rec['rule']} at {rec['where']}: {rec['construct']}")
        return run_check(rec["property"], "quick", seed)
    if args.cmd == "all":
        worst = 0
        for p in PROPS:
            rc = run_check(p, args.tier, seed)
            worst = max(worst, rc)
        return worst
    return 2


if __name__ == "__main__":
    rc = main()
    sys.stdout.flush()
    os._exit(rc)
